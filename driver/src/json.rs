//! Minimal JSON writer (no dependencies).
pub struct J {
    buf: String,
    // stack: true = need comma before next value
    need_comma: Vec<bool>,
    after_key: bool,
}

impl J {
    pub fn new() -> Self {
        J { buf: String::with_capacity(1 << 20), need_comma: vec![false], after_key: false }
    }
    fn pre(&mut self) {
        if self.after_key {
            self.after_key = false;
            return;
        }
        if let Some(last) = self.need_comma.last_mut() {
            if *last {
                self.buf.push(',');
            }
            *last = true;
        }
    }
    pub fn obj_begin(&mut self) {
        self.pre();
        self.buf.push('{');
        self.need_comma.push(false);
    }
    pub fn obj_end(&mut self) {
        self.need_comma.pop();
        self.buf.push('}');
    }
    pub fn arr_begin(&mut self) {
        self.pre();
        self.buf.push('[');
        self.need_comma.push(false);
    }
    pub fn arr_end(&mut self) {
        self.need_comma.pop();
        self.buf.push(']');
    }
    pub fn key(&mut self, k: &str) {
        self.pre();
        self.write_str(k);
        self.buf.push(':');
        self.after_key = true;
    }
    pub fn str(&mut self, s: &str) {
        self.pre();
        self.write_str(s);
    }
    pub fn int(&mut self, v: i128) {
        self.pre();
        self.buf.push_str(&v.to_string());
    }
    pub fn bool(&mut self, b: bool) {
        self.pre();
        self.buf.push_str(if b { "true" } else { "false" });
    }
    pub fn null(&mut self) {
        self.pre();
        self.buf.push_str("null");
    }
    fn write_str(&mut self, s: &str) {
        self.buf.push('"');
        for c in s.chars() {
            match c {
                '"' => self.buf.push_str("\\\""),
                '\\' => self.buf.push_str("\\\\"),
                '\n' => self.buf.push_str("\\n"),
                '\r' => self.buf.push_str("\\r"),
                '\t' => self.buf.push_str("\\t"),
                c if (c as u32) < 0x20 => self.buf.push_str(&format!("\\u{:04x}", c as u32)),
                c => self.buf.push(c),
            }
        }
        self.buf.push('"');
    }
    pub fn finish(self) -> String {
        self.buf
    }
}
