//! gmxsa-driver: a `rustc_private` fact extractor.
//!
//! Injected with `RUSTC_WORKSPACE_WRAPPER` under `cargo +nightly check`; for every
//! workspace crate it type-checks, it writes ONE JSON file (single write per process)
//! with the resolved MIR of every local body, the local ADTs (fields, attributes,
//! discriminants, layouts), evaluated constants and impl information.
//!
//! Nothing of the analysed crate is executed; this only serialises the compiler's view.
#![feature(rustc_private)]
#![allow(clippy::all)]

extern crate rustc_abi;
extern crate rustc_driver;
extern crate rustc_hir;
extern crate rustc_interface;
extern crate rustc_middle;
extern crate rustc_session;
extern crate rustc_span;

mod json;

use json::J;
use rustc_driver::Compilation;
use rustc_hir::def::DefKind;
use rustc_hir::def_id::{DefId, LocalDefId};
use rustc_middle::mir::{
    self, AggregateKind, BorrowKind, Operand, Place, ProjectionElem, Rvalue, StatementKind,
    TerminatorKind, UnwindAction,
};
use rustc_middle::ty::print::{with_crate_prefix, with_no_trimmed_paths, with_no_visible_paths};
use rustc_middle::ty::{self, Instance, Ty, TyCtxt, TypingEnv};
use rustc_span::Span;

struct Cb;

impl rustc_driver::Callbacks for Cb {
    fn config(&mut self, config: &mut rustc_interface::Config) {
        config.opts.unstable_opts.mir_opt_level = Some(0);
    }

    fn after_analysis<'tcx>(
        &mut self,
        _compiler: &rustc_interface::interface::Compiler,
        tcx: TyCtxt<'tcx>,
    ) -> Compilation {
        if let Ok(dir) = std::env::var("GMXSA_FACTS_DIR") {
            dump(tcx, &dir);
        }
        Compilation::Continue
    }
}

fn main() {
    let mut args: Vec<String> = std::env::args().collect();
    // RUSTC_WORKSPACE_WRAPPER: argv[1] is the path of the real rustc.
    if args.len() > 1 && (args[1].ends_with("rustc") || args[1].contains("/rustc")) {
        args.remove(1);
    }
    rustc_driver::run_compiler(&args, &mut Cb);
}

thread_local! {
    static CRATE_NAME: std::cell::RefCell<String> = std::cell::RefCell::new(String::new());
}

/// Replace the `crate::` prefix the pretty printer uses for local items by the crate name, so
/// that paths are comparable across crates.
fn fix_crate(s: String) -> String {
    if !s.contains("crate::") {
        return s;
    }
    let name = CRATE_NAME.with(|c| c.borrow().clone());
    let bytes = s.as_bytes();
    let mut out = String::with_capacity(s.len() + 16);
    let mut i = 0;
    while i < bytes.len() {
        if s[i..].starts_with("crate::")
            && (i == 0 || !(bytes[i - 1].is_ascii_alphanumeric() || bytes[i - 1] == b'_'))
        {
            out.push_str(&name);
            out.push_str("::");
            i += 7;
        } else {
            let ch = s[i..].chars().next().unwrap();
            out.push(ch);
            i += ch.len_utf8();
        }
    }
    out
}

fn path_of(tcx: TyCtxt<'_>, did: DefId) -> String {
    fix_crate(with_crate_prefix!(with_no_trimmed_paths!(tcx.def_path_str(did))))
}

/// Definition path that does not go through re-exports (`def_path_str` prints the path *visible* in the
/// current crate for foreign items, so a call to a re-exported function would not link to the defining
/// crate's function id).
fn real_path_of(tcx: TyCtxt<'_>, did: DefId) -> String {
    fix_crate(with_crate_prefix!(with_no_trimmed_paths!(with_no_visible_paths!(tcx.def_path_str(did)))))
}

fn ty_str(ty: Ty<'_>) -> String {
    fix_crate(with_crate_prefix!(with_no_trimmed_paths!(ty.to_string())))
}

fn gargs_str(args: ty::GenericArgsRef<'_>) -> String {
    let mut s = fix_crate(with_crate_prefix!(with_no_trimmed_paths!(format!("{:?}", args))));
    if s.len() > 300 {
        let mut cut = 300;
        while !s.is_char_boundary(cut) {
            cut -= 1;
        }
        s.truncate(cut);
    }
    s
}

struct SpanInfo {
    file: String,
    line: usize,
    exp: bool,
    mac: String,
    mac_kind: &'static str,
}

fn span_info(tcx: TyCtxt<'_>, span: Span) -> SpanInfo {
    let sm = tcx.sess.source_map();
    let exp = span.from_expansion();
    let (mac, mac_kind) = if exp {
        let d = span.ctxt().outer_expn_data();
        let k = match d.kind {
            rustc_span::ExpnKind::Macro(rustc_span::MacroKind::Derive, _) => "derive",
            rustc_span::ExpnKind::Macro(rustc_span::MacroKind::Attr, _) => "attr",
            rustc_span::ExpnKind::Macro(rustc_span::MacroKind::Bang, _) => "bang",
            rustc_span::ExpnKind::Desugaring(_) => "desugar",
            _ => "other",
        };
        let name = match d.kind {
            rustc_span::ExpnKind::Macro(_, s) => s.to_string(),
            rustc_span::ExpnKind::Desugaring(k) => format!("{:?}", k),
            _ => String::new(),
        };
        (name, k)
    } else {
        (String::new(), "")
    };
    let root = span.source_callsite();
    let loc = sm.lookup_char_pos(root.lo());
    let file = match &loc.file.name {
        rustc_span::FileName::Real(r) => match r.local_path() {
            Some(p) => p.to_string_lossy().to_string(),
            None => format!("{:?}", r),
        },
        other => format!("{:?}", other),
    };
    SpanInfo { file, line: loc.line, exp, mac, mac_kind }
}

/// Outermost user-visible macro name in the expansion chain (e.g. `require_gte`).
fn macro_chain(span: Span) -> Vec<String> {
    let mut out = Vec::new();
    let mut s = span;
    let mut guard = 0;
    while s.from_expansion() && guard < 16 {
        let d = s.ctxt().outer_expn_data();
        if let rustc_span::ExpnKind::Macro(_, name) = d.kind {
            out.push(name.to_string());
        } else if let rustc_span::ExpnKind::Desugaring(k) = d.kind {
            out.push(format!("desugar:{:?}", k));
        }
        s = d.call_site;
        guard += 1;
    }
    out
}

fn snippet(tcx: TyCtxt<'_>, span: Span) -> String {
    tcx.sess.source_map().span_to_snippet(span).unwrap_or_default()
}

fn attrs_of<'tcx>(tcx: TyCtxt<'tcx>, hir_id: rustc_hir::HirId) -> (Vec<String>, String) {
    let mut attrs = Vec::new();
    let mut docs = String::new();
    for a in tcx.hir_attrs(hir_id) {
        match a {
            rustc_hir::Attribute::Unparsed(item) => {
                let s = snippet(tcx, item.span);
                if !s.is_empty() {
                    attrs.push(s);
                } else {
                    attrs.push(format!("{:?}", item.path));
                }
            }
            rustc_hir::Attribute::Parsed(kind) => {
                let dbg = format!("{:?}", kind);
                if dbg.starts_with("DocComment") {
                    if let Some(sym) = a.doc_str() {
                        docs.push_str(sym.as_str());
                        docs.push('\n');
                    }
                } else {
                    let mut d = dbg;
                    d.truncate(200);
                    attrs.push(d);
                }
            }
        }
    }
    (attrs, docs)
}

fn place_json<'tcx>(tcx: TyCtxt<'tcx>, body: &mir::Body<'tcx>, p: &Place<'tcx>, j: &mut J) {
    j.arr_begin();
    j.int(p.local.as_usize() as i128);
    let mut pty = mir::PlaceTy::from_ty(body.local_decls[p.local].ty);
    for elem in p.projection.iter() {
        let s = match elem {
            ProjectionElem::Deref => "*".to_string(),
            ProjectionElem::Field(f, _) => {
                let name = match pty.ty.kind() {
                    ty::Adt(adt, _) => {
                        let v = match pty.variant_index {
                            Some(v) => adt.variant(v),
                            None => {
                                if adt.is_enum() {
                                    // should not happen without downcast
                                    adt.variant(rustc_abi::VariantIdx::from_u32(0))
                                } else {
                                    adt.non_enum_variant()
                                }
                            }
                        };
                        v.fields[f].name.to_string()
                    }
                    ty::Closure(did, _) | ty::Coroutine(did, _) | ty::CoroutineClosure(did, _) => {
                        // upvar name
                        let mut n = format!("{}", f.as_usize());
                        if let Some(ld) = did.as_local() {
                            let caps = tcx.closure_captures(ld);
                            if let Some(c) = caps.get(f.as_usize()) {
                                n = format!("^{}", c.to_symbol());
                            }
                        }
                        n
                    }
                    _ => format!("{}", f.as_usize()),
                };
                format!(".{}", name)
            }
            ProjectionElem::Index(l) => format!("[_{}]", l.as_usize()),
            ProjectionElem::ConstantIndex { offset, from_end, .. } => {
                if from_end {
                    format!("[-{}]", offset)
                } else {
                    format!("[{}]", offset)
                }
            }
            ProjectionElem::Subslice { from, to, from_end } => {
                format!("[{}..{}{}]", from, if from_end { "-" } else { "" }, to)
            }
            ProjectionElem::Downcast(name, idx) => match name {
                Some(n) => format!("@{}", n),
                None => format!("@#{}", idx.as_usize()),
            },
            ProjectionElem::OpaqueCast(_) => "~opaque".to_string(),
            ProjectionElem::UnwrapUnsafeBinder(_) => "~unbind".to_string(),
        };
        j.str(&s);
        pty = pty.projection_ty(tcx, elem);
    }
    j.arr_end();
}

fn const_json<'tcx>(tcx: TyCtxt<'tcx>, env: TypingEnv<'tcx>, c: &mir::ConstOperand<'tcx>, j: &mut J) {
    j.obj_begin();
    let cty = c.const_.ty();
    j.key("ty");
    j.str(&ty_str(cty));
    match cty.kind() {
        ty::FnDef(did, args) => {
            j.key("fn");
            j.str(&path_of(tcx, *did));
            j.key("gargs");
            j.str(&gargs_str(args));
        }
        _ => {
            let pretty = fix_crate(with_crate_prefix!(with_no_trimmed_paths!(format!("{}", c.const_))));
            j.key("c");
            j.str(&pretty);
            // named constants
            if let mir::Const::Unevaluated(u, _) = c.const_ {
                j.key("def");
                j.str(&path_of(tcx, u.def));
                if u.promoted.is_some() {
                    j.key("promoted");
                    j.bool(true);
                    // what the promoted body is built from: named constants and aggregate variants
                    if let Some(ld) = u.def.as_local() {
                        let r = std::panic::catch_unwind(std::panic::AssertUnwindSafe(|| {
                            let pm = tcx.promoted_mir(ld.to_def_id());
                            let mut names: Vec<String> = Vec::new();
                            if let Some(pb) = pm.get(u.promoted.unwrap()) {
                                for bbd in pb.basic_blocks.iter() {
                                    for st in bbd.statements.iter() {
                                        if let StatementKind::Assign(b) = &st.kind {
                                            let (_, rv) = &**b;
                                            match rv {
                                                Rvalue::Use(Operand::Constant(k), ..) => {
                                                    if let mir::Const::Unevaluated(uu, _) = k.const_ {
                                                        if uu.promoted.is_none() {
                                                            names.push(path_of(tcx, uu.def));
                                                        }
                                                    } else {
                                                        names.push(fix_crate(with_crate_prefix!(with_no_trimmed_paths!(format!("{}", k.const_)))));
                                                    }
                                                }
                                                Rvalue::Aggregate(kind, _) => {
                                                    if let AggregateKind::Adt(did, vidx, _, _, _) = &**kind {
                                                        let adt = tcx.adt_def(*did);
                                                        names.push(format!("{}::{}", path_of(tcx, *did), adt.variant(*vidx).name));
                                                    }
                                                }
                                                _ => {}
                                            }
                                        }
                                    }
                                }
                            }
                            names
                        }));
                        if let Ok(names) = r {
                            if !names.is_empty() {
                                j.key("pbody");
                                j.arr_begin();
                                for n in names.iter().take(8) {
                                    let mut n2 = n.clone();
                                    if n2.len() > 160 {
                                        let mut cut = 160;
                                        while !n2.is_char_boundary(cut) {
                                            cut -= 1;
                                        }
                                        n2.truncate(cut);
                                    }
                                    j.str(&n2);
                                }
                                j.arr_end();
                            }
                        }
                    }
                    // evaluated value of the promoted constant (e.g. `&0_u8`)
                    let r = std::panic::catch_unwind(std::panic::AssertUnwindSafe(|| {
                        c.const_.eval(tcx, env, rustc_span::DUMMY_SP)
                    }));
                    if let Ok(Ok(v)) = r {
                        let pv = mir::Const::Val(v, cty);
                        let mut sv = fix_crate(with_crate_prefix!(with_no_trimmed_paths!(format!("{}", pv))));
                        if sv.len() > 200 {
                            let mut cut = 200;
                            while !sv.is_char_boundary(cut) {
                                cut -= 1;
                            }
                            sv.truncate(cut);
                        }
                        j.key("pval");
                        j.str(&sv);
                        // `&<int>` promoted: the pointee value
                        if let ty::Ref(_, inner, _) = cty.kind() {
                            if inner.is_integral() || inner.is_bool() {
                                if let mir::ConstValue::Scalar(mir::interpret::Scalar::Ptr(ptr, _)) = v {
                                    let (prov, off) = ptr.prov_and_relative_offset();
                                    if let Some(ga) = tcx.try_get_global_alloc(prov.alloc_id()) {
                                        if let mir::interpret::GlobalAlloc::Memory(a) = ga {
                                            let te = TypingEnv::fully_monomorphized();
                                            if let Ok(l) = tcx.layout_of(te.as_query_input(*inner)) {
                                                let n = l.size.bytes() as usize;
                                                let o = off.bytes() as usize;
                                                let bytes = a.inner().inspect_with_uninit_and_ptr_outside_interpreter(o..o + n);
                                                let mut val: u128 = 0;
                                                for (i, b) in bytes.iter().enumerate() {
                                                    val |= (*b as u128) << (8 * i);
                                                }
                                                j.key("deref_int");
                                                if inner.is_signed() {
                                                    let shift = 128 - 8 * n as u32;
                                                    j.str(&format!("{}", ((val << shift) as i128) >> shift));
                                                } else {
                                                    j.str(&format!("{}", val));
                                                }
                                            }
                                        }
                                    }
                                }
                            }
                        }
                    }
                }
            }
            if cty.is_integral() || cty.is_bool() || cty.is_char() {
                if let Some(s) = c.const_.try_eval_scalar_int(tcx, env) {
                    let size = s.size();
                    let v: i128 = if cty.is_signed() {
                        s.to_int(size)
                    } else {
                        let u = s.to_uint(size);
                        if u > i128::MAX as u128 {
                            -1 // marker; also written as string
                        } else {
                            u as i128
                        }
                    };
                    j.key("int");
                    if cty.is_signed() {
                        j.str(&format!("{}", v));
                    } else {
                        j.str(&format!("{}", s.to_uint(size)));
                    }
                }
            }
        }
    }
    j.obj_end();
}

fn operand_json<'tcx>(
    tcx: TyCtxt<'tcx>,
    env: TypingEnv<'tcx>,
    body: &mir::Body<'tcx>,
    op: &Operand<'tcx>,
    j: &mut J,
) {
    match op {
        Operand::Copy(p) | Operand::Move(p) => place_json(tcx, body, p, j),
        Operand::Constant(c) => const_json(tcx, env, c, j),
        #[allow(unreachable_patterns)]
        _ => {
            j.obj_begin();
            j.key("c");
            j.str(&format!("{:?}", op));
            j.obj_end();
        }
    }
}

fn rvalue_json<'tcx>(
    tcx: TyCtxt<'tcx>,
    env: TypingEnv<'tcx>,
    body: &mir::Body<'tcx>,
    rv: &Rvalue<'tcx>,
    j: &mut J,
) {
    j.arr_begin();
    match rv {
        Rvalue::Use(op, ..) => {
            j.str("use");
            operand_json(tcx, env, body, op, j);
        }
        Rvalue::Repeat(op, n) => {
            j.str("repeat");
            operand_json(tcx, env, body, op, j);
            j.str(&format!("{}", n));
        }
        Rvalue::Ref(_, bk, p) => {
            j.str("ref");
            j.str(match bk {
                BorrowKind::Shared => "shared",
                BorrowKind::Fake(_) => "fake",
                BorrowKind::Mut { .. } => "mut",
            });
            place_json(tcx, body, p, j);
        }
        Rvalue::ThreadLocalRef(d) => {
            j.str("tls");
            j.str(&path_of(tcx, *d));
        }
        Rvalue::RawPtr(k, p) => {
            j.str("rawptr");
            j.str(&format!("{:?}", k));
            place_json(tcx, body, p, j);
        }
        Rvalue::Cast(kind, op, ty) => {
            j.str("cast");
            j.str(&format!("{:?}", kind));
            operand_json(tcx, env, body, op, j);
            j.str(&ty_str(*ty));
            j.str(&ty_str(op.ty(body, tcx)));
        }
        Rvalue::BinaryOp(op, ab) => {
            j.str("bin");
            j.str(&format!("{:?}", op));
            operand_json(tcx, env, body, &ab.0, j);
            operand_json(tcx, env, body, &ab.1, j);
            j.str(&ty_str(ab.0.ty(body, tcx)));
        }
        Rvalue::UnaryOp(op, a) => {
            j.str("un");
            j.str(&format!("{:?}", op));
            operand_json(tcx, env, body, a, j);
        }
        Rvalue::Discriminant(p) => {
            j.str("discr");
            place_json(tcx, body, p, j);
            let pty = p.ty(body, tcx).ty;
            match pty.kind() {
                ty::Adt(adt, _) => j.str(&path_of(tcx, adt.did())),
                _ => j.str(&ty_str(pty)),
            }
        }
        Rvalue::Aggregate(kind, ops) => {
            j.str("agg");
            match &**kind {
                AggregateKind::Array(_) => {
                    j.str("array");
                    j.null();
                    j.null();
                }
                AggregateKind::Tuple => {
                    j.str("tuple");
                    j.null();
                    j.null();
                }
                AggregateKind::Adt(did, vidx, _, _, _) => {
                    j.str("adt");
                    j.str(&path_of(tcx, *did));
                    let adt = tcx.adt_def(*did);
                    let v = adt.variant(*vidx);
                    j.arr_begin();
                    j.str(v.name.as_str());
                    for f in v.fields.iter() {
                        j.str(f.name.as_str());
                    }
                    j.arr_end();
                }
                AggregateKind::Closure(did, _)
                | AggregateKind::Coroutine(did, _)
                | AggregateKind::CoroutineClosure(did, _) => {
                    j.str("closure");
                    j.str(&path_of(tcx, *did));
                    j.arr_begin();
                    if let Some(ld) = did.as_local() {
                        for c in tcx.closure_captures(ld) {
                            j.str(&c.to_symbol().to_string());
                        }
                    }
                    j.arr_end();
                }
                AggregateKind::RawPtr(..) => {
                    j.str("rawptr");
                    j.null();
                    j.null();
                }
            }
            j.arr_begin();
            for o in ops.iter() {
                operand_json(tcx, env, body, o, j);
            }
            j.arr_end();
        }
        Rvalue::CopyForDeref(p) => {
            j.str("use");
            place_json(tcx, body, p, j);
        }
        Rvalue::WrapUnsafeBinder(op, _) => {
            j.str("use");
            operand_json(tcx, env, body, op, j);
        }
        #[allow(unreachable_patterns)]
        _ => {
            j.str("other");
            j.str(&format!("{:?}", rv));
        }
    }
    j.arr_end();
}

fn unwind_json(u: &UnwindAction, j: &mut J) {
    match u {
        UnwindAction::Cleanup(bb) => j.int(bb.as_usize() as i128),
        _ => j.null(),
    }
}

fn body_json<'tcx>(tcx: TyCtxt<'tcx>, def: LocalDefId, body: &mir::Body<'tcx>, j: &mut J) {
    let env = TypingEnv::post_analysis(tcx, def);
    j.key("arg_count");
    j.int(body.arg_count as i128);
    // locals
    let mut names: Vec<Option<String>> = vec![None; body.local_decls.len()];
    for vdi in body.var_debug_info.iter() {
        if let mir::VarDebugInfoContents::Place(p) = vdi.value {
            if p.projection.is_empty() && names[p.local.as_usize()].is_none() {
                names[p.local.as_usize()] = Some(vdi.name.to_string());
            }
        }
    }
    j.key("locals");
    j.arr_begin();
    for (i, d) in body.local_decls.iter().enumerate() {
        j.arr_begin();
        j.str(&ty_str(d.ty));
        match &names[i] {
            Some(n) => j.str(n),
            None => j.null(),
        }
        j.arr_end();
    }
    j.arr_end();
    // debug info for projected places (closure upvars etc.)
    j.key("dbg");
    j.arr_begin();
    for vdi in body.var_debug_info.iter() {
        if let mir::VarDebugInfoContents::Place(p) = vdi.value {
            if !p.projection.is_empty() {
                j.arr_begin();
                j.str(vdi.name.as_str());
                place_json(tcx, body, &p, j);
                j.arr_end();
            }
        }
    }
    j.arr_end();
    j.key("blocks");
    j.arr_begin();
    for (_bb, data) in body.basic_blocks.iter_enumerated() {
        j.obj_begin();
        if data.is_cleanup {
            j.key("cleanup");
            j.bool(true);
        }
        j.key("s");
        j.arr_begin();
        for st in data.statements.iter() {
            match &st.kind {
                StatementKind::Assign(b) => {
                    let (p, rv) = &**b;
                    let si = span_info(tcx, st.source_info.span);
                    j.arr_begin();
                    j.str("=");
                    place_json(tcx, body, p, j);
                    rvalue_json(tcx, env, body, rv, j);
                    j.int(si.line as i128);
                    if si.exp {
                        j.arr_begin();
                        for m in macro_chain(st.source_info.span) {
                            j.str(&m);
                        }
                        j.arr_end();
                    }
                    j.arr_end();
                }
                StatementKind::SetDiscriminant { place, variant_index } => {
                    let si = span_info(tcx, st.source_info.span);
                    j.arr_begin();
                    j.str("setdiscr");
                    place_json(tcx, body, place, j);
                    j.int(variant_index.as_usize() as i128);
                    j.int(si.line as i128);
                    j.arr_end();
                }
                StatementKind::Intrinsic(i) => {
                    j.arr_begin();
                    j.str("intrinsic");
                    j.str(&format!("{:?}", i));
                    j.arr_end();
                }
                _ => {}
            }
        }
        j.arr_end();
        j.key("t");
        let term = data.terminator();
        let si = span_info(tcx, term.source_info.span);
        j.arr_begin();
        match &term.kind {
            TerminatorKind::Goto { target } => {
                j.str("goto");
                j.int(target.as_usize() as i128);
            }
            TerminatorKind::SwitchInt { discr, targets } => {
                j.str("switch");
                operand_json(tcx, env, body, discr, j);
                j.arr_begin();
                for (v, t) in targets.iter() {
                    j.arr_begin();
                    j.str(&format!("{}", v));
                    j.int(t.as_usize() as i128);
                    j.arr_end();
                }
                j.arr_end();
                j.int(targets.otherwise().as_usize() as i128);
                j.str(&ty_str(discr.ty(body, tcx)));
            }
            TerminatorKind::UnwindResume => j.str("resume"),
            TerminatorKind::UnwindTerminate(_) => j.str("terminate"),
            TerminatorKind::Return => j.str("ret"),
            TerminatorKind::Unreachable => j.str("unreachable"),
            TerminatorKind::Drop { place, target, unwind, .. } => {
                j.str("drop");
                place_json(tcx, body, place, j);
                j.int(target.as_usize() as i128);
                unwind_json(unwind, j);
            }
            TerminatorKind::Call { func, args, destination, target, unwind, fn_span, .. } => {
                j.str("call");
                j.obj_begin();
                let fty = func.ty(body, tcx);
                match fty.kind() {
                    ty::FnDef(did, gargs) => {
                        j.key("callee");
                        j.str(&path_of(tcx, *did));
                        if !did.is_local() {
                            let rp = real_path_of(tcx, *did);
                            if rp != path_of(tcx, *did) {
                                j.key("callee_def");
                                j.str(&rp);
                            }
                        }
                        j.key("gargs");
                        j.str(&gargs_str(gargs));
                        // self type of trait/inherent call
                        if let Some(first) = gargs.types().next() {
                            j.key("self_ty");
                            j.str(&ty_str(first));
                        }
                        let dk = tcx.def_kind(*did);
                        if matches!(dk, DefKind::Fn | DefKind::AssocFn) {
                            if let Some(tr) = tcx.trait_of_assoc(*did) {
                                j.key("trait");
                                j.str(&path_of(tcx, tr));
                            }
                            let r = std::panic::catch_unwind(std::panic::AssertUnwindSafe(|| {
                                Instance::try_resolve(tcx, env, *did, gargs)
                            }));
                            if let Ok(Ok(Some(inst))) = r {
                                let rd = inst.def_id();
                                if rd != *did {
                                    j.key("resolved");
                                    j.str(&path_of(tcx, rd));
                                    if !rd.is_local() {
                                        let rp = real_path_of(tcx, rd);
                                        if rp != path_of(tcx, rd) {
                                            j.key("resolved_def");
                                            j.str(&rp);
                                        }
                                    }
                                }
                                if let ty::InstanceKind::Virtual(..) = inst.def {
                                    j.key("virtual");
                                    j.bool(true);
                                }
                            }
                        }
                    }
                    _ => {
                        j.key("indirect");
                        operand_json(tcx, env, body, func, j);
                        j.key("fty");
                        j.str(&ty_str(fty));
                    }
                }
                j.key("args");
                j.arr_begin();
                for a in args.iter() {
                    operand_json(tcx, env, body, &a.node, j);
                }
                j.arr_end();
                j.key("dest");
                place_json(tcx, body, destination, j);
                j.key("target");
                match target {
                    Some(t) => j.int(t.as_usize() as i128),
                    None => j.null(),
                }
                j.key("unwind");
                unwind_json(unwind, j);
                let fsi = span_info(tcx, *fn_span);
                j.key("fline");
                j.int(fsi.line as i128);
                j.obj_end();
            }
            TerminatorKind::TailCall { .. } => {
                j.str("tailcall");
            }
            TerminatorKind::Assert { cond, expected, msg, target, unwind } => {
                j.str("assert");
                operand_json(tcx, env, body, cond, j);
                j.bool(*expected);
                let mut m = format!("{:?}", msg);
                m.truncate(120);
                // keep only the kind name
                let kind = m.split(|c: char| c == '(' || c == ' ' || c == '{').next().unwrap_or("").to_string();
                j.str(&kind);
                j.int(target.as_usize() as i128);
                unwind_json(unwind, j);
            }
            TerminatorKind::Yield { resume, drop, .. } => {
                j.str("yield");
                j.int(resume.as_usize() as i128);
                match drop {
                    Some(d) => j.int(d.as_usize() as i128),
                    None => j.null(),
                }
            }
            TerminatorKind::CoroutineDrop => j.str("coroutine_drop"),
            TerminatorKind::FalseEdge { real_target, .. } => {
                j.str("goto");
                j.int(real_target.as_usize() as i128);
            }
            TerminatorKind::FalseUnwind { real_target, .. } => {
                j.str("goto");
                j.int(real_target.as_usize() as i128);
            }
            TerminatorKind::InlineAsm { .. } => j.str("asm"),
        }
        j.arr_end();
        j.key("line");
        j.int(si.line as i128);
        if si.exp {
            j.key("mac");
            j.arr_begin();
            for m in macro_chain(term.source_info.span) {
                j.str(&m);
            }
            j.arr_end();
        }
        j.obj_end();
    }
    j.arr_end();
}

fn skip_path(p: &str) -> bool {
    p.contains("__client_accounts_") || p.contains("__cpi_client_accounts_")
}

fn dump<'tcx>(tcx: TyCtxt<'tcx>, dir: &str) {
    let crate_name = tcx.crate_name(rustc_span::def_id::LOCAL_CRATE).to_string();
    CRATE_NAME.with(|c| *c.borrow_mut() = crate_name.clone());
    let is_test = tcx.sess.opts.test;
    let ctypes = tcx.crate_types();
    let kind = if is_test {
        "test"
    } else if ctypes.iter().any(|c| matches!(c, rustc_session::config::CrateType::Executable)) {
        "bin"
    } else if ctypes.iter().any(|c| matches!(c, rustc_session::config::CrateType::ProcMacro)) {
        "procmacro"
    } else {
        "lib"
    };
    if crate_name.starts_with("build_script") {
        return;
    }
    let only = std::env::var("GMXSA_ONLY").ok();
    if let Some(o) = &only {
        if !o.split(',').any(|c| c == crate_name) {
            return;
        }
    }
    let mut j = J::new();
    j.obj_begin();
    j.key("crate");
    j.str(&crate_name);
    j.key("kind");
    j.str(kind);
    j.key("schema");
    j.int(1);

    // ---------------- functions with MIR ----------------
    j.key("fns");
    j.arr_begin();
    let mut n_fns = 0usize;
    for &ld in tcx.mir_keys(()).iter() {
        let did = ld.to_def_id();
        let dk = tcx.def_kind(did);
        let is_fn_like = matches!(
            dk,
            DefKind::Fn | DefKind::AssocFn | DefKind::Closure | DefKind::SyntheticCoroutineBody
        );
        if !is_fn_like {
            continue;
        }
        let path = path_of(tcx, did);
        if skip_path(&path) {
            continue;
        }
        let span = tcx.def_span(did);
        let si = span_info(tcx, span);
        if si.mac_kind == "derive" {
            continue;
        }
        // constructors (tuple struct ctors) have no real body
        if !tcx.is_mir_available(did) {
            continue;
        }
        // const fns: optimized_mir asserts non-const context; use mir_for_ctfe? skip const fn check
        let body: &mir::Body<'tcx> = if tcx.is_const_fn(did) {
            // const fn still has optimized_mir
            tcx.optimized_mir(did)
        } else {
            tcx.optimized_mir(did)
        };
        n_fns += 1;
        j.obj_begin();
        j.key("id");
        j.str(&path);
        j.key("name");
        j.str(&tcx.opt_item_name(did).map(|s| s.to_string()).unwrap_or_default());
        j.key("kind");
        j.str(&format!("{:?}", dk));
        j.key("file");
        j.str(&si.file);
        j.key("line");
        j.int(si.line as i128);
        if si.exp {
            j.key("mac");
            j.arr_begin();
            for m in macro_chain(span) {
                j.str(&m);
            }
            j.arr_end();
            j.key("mac_kind");
            j.str(si.mac_kind);
            let _ = &si.mac;
        }
        // parent
        let parent = tcx.parent(did);
        j.key("parent");
        j.str(&path_of(tcx, parent));
        if matches!(dk, DefKind::Fn | DefKind::AssocFn) {
            j.key("vis");
            j.str(&format!("{:?}", tcx.visibility(did)));
            let sig = tcx.fn_sig(did).instantiate_identity().skip_norm_wip();
            let sig = sig.skip_binder();
            j.key("inputs");
            j.arr_begin();
            for t in sig.inputs() {
                j.str(&ty_str(*t));
            }
            j.arr_end();
            j.key("ret");
            j.str(&ty_str(sig.output()));
            let hir_id = tcx.local_def_id_to_hir_id(ld);
            let (attrs, docs) = attrs_of(tcx, hir_id);
            j.key("attrs");
            j.arr_begin();
            for a in &attrs {
                j.str(a);
            }
            j.arr_end();
            if !docs.is_empty() {
                j.key("docs");
                j.str(&docs);
            }
        }
        if dk == DefKind::AssocFn {
            let pk = tcx.def_kind(parent);
            if let DefKind::Impl { of_trait } = pk {
                j.key("impl");
                j.obj_begin();
                let self_ty = tcx.type_of(parent).instantiate_identity().skip_norm_wip();
                j.key("self");
                j.str(&ty_str(self_ty));
                if let ty::Adt(adt, _) = self_ty.kind() {
                    j.key("self_adt");
                    j.str(&path_of(tcx, adt.did()));
                }
                if of_trait {
                    let tr = tcx.impl_trait_ref(parent).instantiate_identity().skip_norm_wip();
                    j.key("trait");
                    j.str(&path_of(tcx, tr.def_id));
                    j.key("trait_ref");
                    j.str(&fix_crate(with_crate_prefix!(with_no_trimmed_paths!(format!("{}", tr)))));
                }
                j.obj_end();
                let ai = tcx.associated_item(did);
                if let Some(ti) = ai.trait_item_def_id() {
                    j.key("trait_item");
                    j.str(&path_of(tcx, ti));
                }
            } else if pk == DefKind::Trait {
                j.key("trait_default_of");
                j.str(&path_of(tcx, parent));
            }
        }
        body_json(tcx, ld, body, &mut j);
        j.obj_end();
    }
    j.arr_end();

    // ---------------- ADTs ----------------
    j.key("adts");
    j.arr_begin();
    let items = tcx.hir_crate_items(());
    for ld in items.definitions() {
        let did = ld.to_def_id();
        let dk = tcx.def_kind(did);
        if !matches!(dk, DefKind::Struct | DefKind::Enum | DefKind::Union) {
            continue;
        }
        let path = path_of(tcx, did);
        if skip_path(&path) {
            continue;
        }
        let adt = tcx.adt_def(did);
        let span = tcx.def_span(did);
        let si = span_info(tcx, span);
        j.obj_begin();
        j.key("id");
        j.str(&path);
        j.key("kind");
        j.str(&format!("{:?}", dk));
        j.key("file");
        j.str(&si.file);
        j.key("line");
        j.int(si.line as i128);
        if si.exp {
            j.key("mac");
            j.arr_begin();
            for m in macro_chain(span) {
                j.str(&m);
            }
            j.arr_end();
        }
        j.key("repr");
        j.str(&format!("{:?}", adt.repr()));
        let hir_id = tcx.local_def_id_to_hir_id(ld);
        let (attrs, docs) = attrs_of(tcx, hir_id);
        j.key("attrs");
        j.arr_begin();
        for a in &attrs {
            j.str(a);
        }
        j.arr_end();
        if !docs.is_empty() {
            j.key("docs");
            j.str(&docs);
        }
        let generics = tcx.generics_of(did);
        let n_ty_params = generics.own_params.iter().filter(|p| !matches!(p.kind, ty::GenericParamDefKind::Lifetime)).count();
        j.key("generic");
        j.bool(n_ty_params > 0);
        j.key("variants");
        j.arr_begin();
        for (vidx, v) in adt.variants().iter_enumerated() {
            j.obj_begin();
            j.key("name");
            j.str(v.name.as_str());
            if adt.is_enum() {
                let d = adt.discriminant_for_variant(tcx, vidx);
                j.key("discr");
                j.str(&format!("{}", d.val));
            }
            j.key("fields");
            j.arr_begin();
            let mut prev_hi = if adt.is_enum() { tcx.def_span(v.def_id).hi() } else { span.hi() };
            for f in v.fields.iter() {
                j.obj_begin();
                j.key("name");
                j.str(f.name.as_str());
                // Raw attribute/doc tokens written in front of the field: derive helper attributes
                // such as `#[account(..)]` are not kept in HIR, so the source between the end of the
                // previous field and the start of this one (compiler spans) is recorded.
                if let Some(fl) = f.did.as_local() {
                    if let rustc_hir::Node::Field(fd) = tcx.hir_node_by_def_id(fl) {
                        let fs = fd.span;
                        let lo = fs.lo();
                        let gap_ok = prev_hi <= lo && (lo.0 - prev_hi.0) < 4000;
                        if gap_ok {
                            let pre = Span::with_root_ctxt(prev_hi, lo);
                            let txt = snippet(tcx, pre);
                            if txt.contains("#[") {
                                j.key("pre");
                                j.str(&txt);
                            }
                        } else {
                            // first field of a struct re-emitted by an attribute macro (`#[event_cpi]`):
                            // the header span is the macro call site; record a window, cut in Python
                            // at the struct's opening brace.
                            let sm = tcx.sess.source_map();
                            let f = sm.lookup_source_file(lo);
                            let start = std::cmp::max(f.start_pos.0, lo.0.saturating_sub(1500));
                            let pre = Span::with_root_ctxt(rustc_span::BytePos(start), lo);
                            let txt = snippet(tcx, pre);
                            if txt.contains("#[") {
                                j.key("pre_window");
                                j.str(&txt);
                            }
                        }
                        prev_hi = fs.hi();
                    }
                }
                let fty = tcx.type_of(f.did).instantiate_identity().skip_norm_wip();
                j.key("ty");
                j.str(&ty_str(fty));
                j.key("vis");
                j.str(&format!("{:?}", f.vis));
                if let Some(fl) = f.did.as_local() {
                    let fh = tcx.local_def_id_to_hir_id(fl);
                    let (fa, fd) = attrs_of(tcx, fh);
                    if !fa.is_empty() {
                        j.key("attrs");
                        j.arr_begin();
                        for a in &fa {
                            j.str(a);
                        }
                        j.arr_end();
                    }
                    if !fd.is_empty() {
                        j.key("docs");
                        j.str(&fd);
                    }
                    let fsi = span_info(tcx, tcx.def_span(f.did));
                    j.key("line");
                    j.int(fsi.line as i128);
                }
                j.obj_end();
            }
            j.arr_end();
            j.obj_end();
        }
        j.arr_end();
        // layout
        if n_ty_params == 0 && generics.parent.is_none() {
            let ty = tcx.type_of(did).instantiate_identity().skip_norm_wip();
            let env = TypingEnv::fully_monomorphized();
            if let Ok(layout) = tcx.layout_of(env.as_query_input(ty)) {
                j.key("layout");
                j.obj_begin();
                j.key("size");
                j.int(layout.size.bytes() as i128);
                j.key("align");
                j.int(layout.align.abi.bytes() as i128);
                if adt.is_struct() {
                    j.key("offsets");
                    j.arr_begin();
                    let n = adt.non_enum_variant().fields.len();
                    for i in 0..n {
                        j.int(layout.fields.offset(i).bytes() as i128);
                    }
                    j.arr_end();
                }
                j.obj_end();
            }
        }
        j.obj_end();
    }
    j.arr_end();

    // ---------------- constants ----------------
    j.key("consts");
    j.arr_begin();
    for ld in items.definitions() {
        let did = ld.to_def_id();
        let dk = tcx.def_kind(did);
        if !matches!(dk, DefKind::Const { .. } | DefKind::AssocConst { .. }) {
            continue;
        }
        let path = path_of(tcx, did);
        if skip_path(&path) {
            continue;
        }
        let generics = tcx.generics_of(did);
        if generics.count() > 0 {
            continue;
        }
        // skip trait-declared assoc consts without value
        if let DefKind::AssocConst { .. } = dk {
            if tcx.def_kind(tcx.parent(did)) == DefKind::Trait {
                continue;
            }
        }
        let span = tcx.def_span(did);
        let si = span_info(tcx, span);
        if si.mac_kind == "derive" {
            continue;
        }
        let ty = tcx.type_of(did).instantiate_identity().skip_norm_wip();
        let val = std::panic::catch_unwind(std::panic::AssertUnwindSafe(|| tcx.const_eval_poly(did)));
        j.obj_begin();
        j.key("id");
        j.str(&path);
        j.key("ty");
        j.str(&ty_str(ty));
        j.key("file");
        j.str(&si.file);
        j.key("line");
        j.int(si.line as i128);
        if let Ok(Ok(v)) = val {
            let c = mir::Const::Val(v, ty);
            let mut s = fix_crate(with_crate_prefix!(with_no_trimmed_paths!(format!("{}", c))));
            if s.len() > 400 {
                s.truncate(400);
            }
            j.key("val");
            j.str(&s);
            if ty.is_integral() || ty.is_bool() {
                if let Some(sc) = v.try_to_scalar_int() {
                    let size = sc.size();
                    j.key("int");
                    if ty.is_signed() {
                        j.str(&format!("{}", sc.to_int(size)));
                    } else {
                        j.str(&format!("{}", sc.to_uint(size)));
                    }
                }
            }
        }
        let hir_id = tcx.local_def_id_to_hir_id(ld);
        let (_attrs, docs) = attrs_of(tcx, hir_id);
        if !docs.is_empty() {
            j.key("docs");
            j.str(&docs);
        }
        j.obj_end();
    }
    j.arr_end();

    // ---------------- traits (method lists) ----------------
    j.key("traits");
    j.arr_begin();
    for ld in items.definitions() {
        let did = ld.to_def_id();
        if tcx.def_kind(did) != DefKind::Trait {
            continue;
        }
        j.obj_begin();
        j.key("id");
        j.str(&path_of(tcx, did));
        j.key("methods");
        j.arr_begin();
        for ai in tcx.associated_items(did).in_definition_order() {
            if ai.is_fn() {
                j.arr_begin();
                j.str(ai.name().as_str());
                j.bool(ai.defaultness(tcx).has_value());
                j.arr_end();
            }
        }
        j.arr_end();
        j.obj_end();
    }
    j.arr_end();

    // ---------------- impls ----------------
    j.key("impls");
    j.arr_begin();
    for ld in items.definitions() {
        let did = ld.to_def_id();
        if let DefKind::Impl { of_trait } = tcx.def_kind(did) {
            let path = path_of(tcx, did);
            if skip_path(&path) {
                continue;
            }
            let si = span_info(tcx, tcx.def_span(did));
            if si.mac_kind == "derive" {
                continue;
            }
            j.obj_begin();
            j.key("id");
            j.str(&path);
            let self_ty = tcx.type_of(did).instantiate_identity().skip_norm_wip();
            j.key("self");
            j.str(&ty_str(self_ty));
            if of_trait {
                let tr = tcx.impl_trait_ref(did).instantiate_identity().skip_norm_wip();
                j.key("trait");
                j.str(&path_of(tcx, tr.def_id));
            }
            j.key("file");
            j.str(&si.file);
            j.key("line");
            j.int(si.line as i128);
            j.key("items");
            j.arr_begin();
            for ai in tcx.associated_items(did).in_definition_order() {
                if let Some(n) = ai.opt_name() {
                    j.str(n.as_str());
                }
            }
            j.arr_end();
            j.obj_end();
        }
    }
    j.arr_end();

    j.key("n_fns");
    j.int(n_fns as i128);
    j.obj_end();

    let _ = std::fs::create_dir_all(dir);
    let fname = format!("{}/{}.{}.json", dir, crate_name, kind);
    let tmp = format!("{}.tmp{}", fname, std::process::id());
    std::fs::write(&tmp, j.finish()).expect("write facts");
    std::fs::rename(&tmp, &fname).expect("rename facts");
}
