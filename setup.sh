#!/bin/bash
# Build the fact-extraction driver and warm the nightly dependency cache (offline).
set -e
cd "$(dirname "$0")"
export CARGO_NET_OFFLINE=true
python3 - <<'PY'
import sys
sys.path.insert(0, ".")
from gmxsa import facts
facts.ensure()
print("setup ok")
PY
