"""Fact extraction orchestration: digest of /repo, locking, running the rustc_private driver.

Checks must decide from /repo's *current* working tree: the digest of every source file is
compared with the digest stored next to the facts; when it differs (or anything is missing)
the workspace members' cargo fingerprints are purged and the driver is re-run on the whole
workspace, so stale facts can never be used.
"""
import fcntl
import hashlib
import json
import os
import shutil
import subprocess
import sys
import time

VERIF = os.path.dirname(os.path.dirname(os.path.abspath(__file__)))
REPO = os.environ.get("GMXSA_REPO", "/repo")
CACHE = os.environ.get("GMXSA_CACHE", os.path.join(VERIF, ".cache"))
DRIVER_SRC = os.path.join(VERIF, "driver")
DRIVER_TARGET = os.path.join(CACHE, "driver-target")
DRIVER_BIN = os.path.join(DRIVER_TARGET, "release", "gmxsa-driver")
TARGET = os.path.join(CACHE, "target")
# one facts directory per analysed tree (scratch worktrees used for positive controls get their own)
FACTS = os.environ.get("GMXSA_FACTS") or (
    os.path.join(CACHE, "facts") if os.path.realpath(REPO) == "/repo"
    else os.path.join(CACHE, "facts-" + hashlib.sha1(os.path.realpath(REPO).encode()).hexdigest()[:10]))
STAMP = os.path.join(FACTS, "STAMP.json")

EXPECTED_CRATES = [
    "gmsol_callback", "gmsol_chainlink_datastreams", "gmsol_competition", "gmsol_decode",
    "gmsol_gt_incentive", "gmsol_liquidity_provider", "gmsol_mock_chainlink_verifier",
    "gmsol_model", "gmsol_programs", "gmsol_sdk", "gmsol_solana_utils", "gmsol_store",
    "gmsol_timelock", "gmsol_treasury", "gmsol_utils",
]


def _env():
    env = dict(os.environ)
    env["CARGO_NET_OFFLINE"] = "true"
    env.pop("RUSTFLAGS", None)
    env.pop("RUSTC_WRAPPER", None)
    return env


def sysroot():
    return subprocess.check_output(["rustc", "+nightly", "--print", "sysroot"], env=_env(), text=True).strip()


def repo_digest(repo=REPO):
    h = hashlib.sha256()
    n = 0
    for root, dirs, files in os.walk(repo):
        dirs[:] = sorted(d for d in dirs if d not in ("target", ".git", "node_modules"))
        for f in sorted(files):
            if f.endswith((".rs", ".toml", ".lock", ".json")):
                p = os.path.join(root, f)
                try:
                    with open(p, "rb") as fh:
                        data = fh.read()
                except OSError:
                    continue
                h.update(os.path.relpath(p, repo).encode())
                h.update(b"\0")
                h.update(hashlib.sha256(data).digest())
                n += 1
    return h.hexdigest(), n


def driver_digest():
    h = hashlib.sha256()
    for f in ("src/main.rs", "src/json.rs", "Cargo.toml"):
        with open(os.path.join(DRIVER_SRC, f), "rb") as fh:
            h.update(fh.read())
    return h.hexdigest()


def build_driver(log=sys.stderr):
    env = _env()
    env["CARGO_TARGET_DIR"] = DRIVER_TARGET
    stamp = os.path.join(DRIVER_TARGET, "driver.digest")
    dd = driver_digest()
    if os.path.exists(DRIVER_BIN) and os.path.exists(stamp) and open(stamp).read() == dd:
        return
    print("[gmxsa] building driver", file=log)
    r = subprocess.run(["cargo", "build", "--release", "--offline"], cwd=DRIVER_SRC, env=env,
                       stdout=subprocess.PIPE, stderr=subprocess.STDOUT, text=True)
    if r.returncode != 0:
        print(r.stdout[-4000:], file=log)
        raise SystemExit("gmxsa: driver build failed")
    with open(stamp, "w") as fh:
        fh.write(dd)


def _members(repo):
    out = subprocess.check_output(["cargo", "+nightly", "metadata", "--offline", "--no-deps", "--format-version", "1"],
                                  cwd=repo, env=_env(), text=True, stderr=subprocess.DEVNULL)
    return [p["name"] for p in json.loads(out)["packages"]]


def _purge_fingerprints(repo):
    fp = os.path.join(TARGET, "debug", ".fingerprint")
    if not os.path.isdir(fp):
        return
    names = set(_members(repo))
    for d in os.listdir(fp):
        base = d.rsplit("-", 1)[0]
        if base in names:
            shutil.rmtree(os.path.join(fp, d), ignore_errors=True)


def run_driver(repo=REPO, log=sys.stderr, extra_args=("--workspace", "--lib"), facts_dir=FACTS):
    env = _env()
    env["CARGO_TARGET_DIR"] = TARGET
    env["LD_LIBRARY_PATH"] = os.path.join(sysroot(), "lib") + ":" + env.get("LD_LIBRARY_PATH", "")
    env["RUSTC_WORKSPACE_WRAPPER"] = DRIVER_BIN
    env["GMXSA_FACTS_DIR"] = facts_dir
    cmd = ["cargo", "+nightly", "check", "--offline"] + list(extra_args)
    t = time.time()
    r = subprocess.run(cmd, cwd=repo, env=env, stdout=subprocess.PIPE, stderr=subprocess.STDOUT, text=True)
    if r.returncode != 0:
        errs = [l for l in r.stdout.splitlines() if l.startswith("error") or "panicked" in l]
        print("\n".join(errs[:40]) or r.stdout[-3000:], file=log)
        raise SystemExit("gmxsa: `cargo +nightly check` with the fact driver failed — the tree does not "
                         "type-check or the driver crashed (fail closed)")
    print("[gmxsa] facts extracted in %.1fs" % (time.time() - t), file=log)


def _stamp_ok(stamp_path, want, facts_dir):
    if not os.path.exists(stamp_path):
        return None
    try:
        have = json.load(open(stamp_path))
    except Exception:
        return None
    if all(have.get(k) == v for k, v in want.items()) and all(
            os.path.exists(os.path.join(facts_dir, c + ".lib.json")) for c in EXPECTED_CRATES):
        return have
    return None


def ensure(log=sys.stderr, repo=None, facts_dir=None):
    """Make sure the facts directory corresponds to the current tree of `repo`. Returns the stamp dict.

    Fast path (no lock): the digest of the tree equals the one stored with the facts. Otherwise the
    extraction runs under an exclusive lock (the cargo target dir is shared) into a temporary directory
    that replaces the facts directory atomically, so concurrent readers never see partial facts."""
    repo = repo or REPO
    facts_dir = facts_dir or FACTS
    stamp_path = os.path.join(facts_dir, "STAMP.json")
    os.makedirs(CACHE, exist_ok=True)
    digest, nfiles = repo_digest(repo)
    want = {"repo_digest": digest, "driver_digest": driver_digest(), "repo": repo}
    have = _stamp_ok(stamp_path, want, facts_dir)
    if have is not None and os.path.exists(DRIVER_BIN):
        return have
    lock = open(os.path.join(CACHE, "lock"), "w")
    fcntl.flock(lock, fcntl.LOCK_EX)
    try:
        build_driver(log)
        digest, nfiles = repo_digest(repo)
        want = {"repo_digest": digest, "driver_digest": driver_digest(), "repo": repo}
        have = _stamp_ok(stamp_path, want, facts_dir)
        if have is not None:
            return have
        print("[gmxsa] facts stale or missing — re-extracting from %s (%d source files)" % (repo, nfiles), file=log)
        tmp = facts_dir.rstrip("/") + ".tmp%d" % os.getpid()
        shutil.rmtree(tmp, ignore_errors=True)
        os.makedirs(tmp, exist_ok=True)
        _purge_fingerprints(repo)
        run_driver(repo, log, facts_dir=tmp)
        missing = [c for c in EXPECTED_CRATES if not os.path.exists(os.path.join(tmp, c + ".lib.json"))]
        if missing:
            shutil.rmtree(tmp, ignore_errors=True)
            raise SystemExit("gmxsa: no facts produced for crates %s (fail closed)" % missing)
        digest2, _ = repo_digest(repo)
        if digest2 != digest:
            shutil.rmtree(tmp, ignore_errors=True)
            raise SystemExit("gmxsa: %s changed during extraction; re-run" % repo)
        want["n_source_files"] = nfiles
        want["extracted_at"] = time.time()
        with open(os.path.join(tmp, "STAMP.json"), "w") as fh:
            json.dump(want, fh)
        old = facts_dir.rstrip("/") + ".old%d" % os.getpid()
        if os.path.exists(facts_dir):
            os.rename(facts_dir, old)
        os.rename(tmp, facts_dir)
        shutil.rmtree(old, ignore_errors=True)
        return want
    finally:
        fcntl.flock(lock, fcntl.LOCK_UN)
        lock.close()


def facts_path(crate):
    return os.path.join(FACTS, crate + ".lib.json")


if __name__ == "__main__":
    print(ensure())
