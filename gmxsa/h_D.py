"""Helpers of rule group D (C18, C20, C23, C24, C25, C29, C33, C44) — built on model.py / analyses.py only.

 ok_edge / err_edge       — continuation blocks of a `?`-propagated call
 guarded                  — is a block under the given edge of a boolean condition (dominating branch)?
 discr_guarded            — is a block under the given variant edge of a `match`/`if let` discriminant?
 mutations / atomic       — A3(b): state mutation sites of a function and fallible exits reachable behind them
 must_pass                — A2: removing `through` blocks disconnects `frm` from every block of `to`
 path_table               — A10: finite-case table of a small function (atoms x result kind)
 ok_exits / exit_kinds    — classified exits
"""
import re

from . import analyses as A
from . import anchor
from .model import short_path

TRIV = {"Try::branch", "FromResidual::from_residual"}


def sx(e, n=260):
    s = str(e)
    return s if len(s) <= n else s[:n] + "…"


def try_edges(fn, cs):
    """(switch_bb, continue_bb, break_bb) of the `?` applied to call `cs`, or None."""
    return anchor.try_switch_of(fn, cs)


def ok_edge(fn, cs):
    """Block where control continues when `cs` succeeded (`?` Continue edge) — or the plain return target."""
    ts = try_edges(fn, cs)
    if ts and ts[1] is not None:
        return ts[1]
    return cs.target


def propagated(fn, cs):
    """Is the result of `cs` consumed by `?` (Err edge leaves through from_residual)?"""
    ts = try_edges(fn, cs)
    return bool(ts and ts[1] is not None and ts[2] is not None)


def guarded(fn, bb, cond_re, truth):
    """Some boolean branch dominating `bb` has a condition matching cond_re and `bb` lies on its `truth` edge only."""
    for c, t in fn.bool_guards(bb):
        if t == truth and re.search(cond_re, str(c)):
            return True
    return False


def guard_list(fn, bb, n=6, w=160):
    return [[sx(c, w), t] for c, t in fn.bool_guards(bb)][:n]


def discr_guarded(fn, bb, scrut_re, labels, universe=(0, 1)):
    """`bb` is reachable only through edges for the variant values `labels` of a switch on discr(<scrut_re>).
    The `otherwise` edge stands for the variants of `universe` (default: a two-variant Option/Result) that the switch
    does not list explicitly, so `match x {Some(..) => A, _ => B}` and `match x {None => B, Some(..) => A}` are the same."""
    labels = set(labels)
    for s, cond, allowed, all_labels in fn.guards(bb):
        if cond.k != "discr" or not re.search(scrut_re, str(cond.a[0])):
            continue
        explicit = {l for l in all_labels if isinstance(l, int)}
        vals = {l for l in allowed if isinstance(l, int)}
        if "otherwise" in allowed:
            vals |= set(universe) - explicit
        if "otherwise" in labels:
            labels_ = labels | (set(universe) - explicit)
        else:
            labels_ = labels
        if vals and vals <= labels_:
            return True
    return False


def must_pass(fn, frm, to_blocks, through_blocks):
    """A2: every path frm -> any of to_blocks passes through one of through_blocks."""
    r = fn.reachable_from(frm, avoid_blocks=tuple(through_blocks))
    return not any(b in r for b in to_blocks)


def ret_blocks(fn):
    return [i for i, b in enumerate(fn.blocks) if b["t"][0] == "ret"]


def exit_kinds(fn):
    return [(bb, k, e) for bb, k, e in fn.exits()]


def ok_exits(fn):
    return [(bb, e) for bb, k, e in fn.exits() if k == "ok"]


# ----------------------------------------------------------------------------- mutations (A3)

ACCESSOR_RE = re.compile(r"(::get_mut|::as_mut|::load_mut|::deref_mut|::iter_mut|::entries_mut|::borrow_mut|"
                         r"::as_deref_mut|::get_or_insert|DerefMut::deref_mut|AsMut::as_mut)$")


def _borrows_bare_local(fn, n, seen=()):
    """Is local n (a `&mut T`) always a borrow of a whole non-parameter local (i.e. of a value owned by this frame)?"""
    ds = [d for d in fn.defs().get(n, []) if d[2] == ()]
    if not ds or n in seen:
        return False
    for (_bb, _si, _p, rv) in ds:
        if isinstance(rv, list) and rv[0] == "ref" and rv[1] in ("mut", "Mut"):
            pl = rv[2]
            if len(pl) == 1 and pl[0] > fn.arg_count:
                continue
            # reborrow `&mut *_x` of another local reference
            if len(pl) == 2 and pl[1] == "*" and pl[0] > fn.arg_count and _borrows_bare_local(fn, pl[0], seen + (n,)):
                continue
            return False
        if isinstance(rv, list) and rv[0] == "use" and isinstance(rv[1], list) and len(rv[1]) == 1 \
                and rv[1][0] > fn.arg_count and _borrows_bare_local(fn, rv[1][0], seen + (n,)):
            continue
        return False
    return True


def mutations(fn, root_re=r"\bself\b", accessor_re=ACCESSOR_RE, ignore_call_re=None):
    """State mutation sites of `fn`: stores through a place rooted in root_re, and calls that receive a `&mut`
    to such state (accessors that merely hand out a reference are not mutations; borrows of frame-local values
    are not state). Returns list of dict(bb, kind='store'|'call', desc, after=[blocks where control continues],
    cs=CallSite|None)."""
    out = []
    for w in state_stores(fn, root_re):
        out.append({"bb": w["bb"], "kind": "store", "desc": w["path"], "after": [w["bb"]], "cs": None, "rv": w["rv"]})
    for cs in fn.calls:
        if cs.short in TRIV:
            continue
        if accessor_re.search(cs.name or "") or accessor_re.search(cs.callee or ""):
            continue
        if ignore_call_re and (re.search(ignore_call_re, cs.name or "") or re.search(ignore_call_re, cs.short)):
            continue
        hit = None
        for a in cs.args:
            if not isinstance(a, list):
                continue
            ty = fn.locals[a[0]][0]
            if not ty.startswith("&mut"):
                continue
            if len(a) == 1 and _borrows_bare_local(fn, a[0]):
                continue
            s = str(fn.expr(a))
            if re.search(root_re, s):
                hit = s
                break
        if hit is None:
            continue
        nxt = ok_edge(fn, cs)
        out.append({"bb": cs.bb, "kind": "call", "desc": "%s(&mut %s ..)" % (cs.rshort, sx(hit, 80)),
                    "after": [nxt] if nxt is not None else [], "cs": cs, "rv": None})
    return out


def state_stores(fn, root_re=r"\bself\b"):
    """Stores (assignments, call destinations) through a reference: the place dereferences something or is rooted
    in a parameter, and its rendered path matches root_re. Frame-local aggregates being built are not state."""
    out = []

    def is_state(pl):
        return len(pl) > 1 and ("*" in pl[1:] or 0 < pl[0] <= fn.arg_count)

    for bb, si, s in fn.statements():
        if s[0] not in ("=", "setdiscr"):
            continue
        pl = s[1]
        if not is_state(pl):
            continue
        path = A._place_path(fn, pl)
        if re.search(root_re, path):
            out.append({"bb": bb, "si": si, "path": path, "line": fn.stmt_line(s),
                        "rv": fn._rvalue_expr(s[2], 0, ()) if s[0] == "=" else None})
    for cs in fn.calls:
        if is_state(cs.dest):
            path = A._place_path(fn, cs.dest)
            if re.search(root_re, path):
                out.append({"bb": cs.target if cs.target is not None else cs.bb, "si": -1, "path": path, "line": cs.line,
                            "rv": fn._call_expr(cs, 0, ())})
    return out


def err_after(fn, blocks):
    """Err/None-constructing exit blocks reachable from `blocks` (inclusive)."""
    errs = fn.err_exit_blocks()
    out = set()
    for b in blocks:
        r = fn.reachable_from(b)
        out |= {x for x in errs if x in r}
    return sorted(out)


def atomic(ctx, key, fn, root_re=r"\bself\b", floor=1, **kw):
    """A3(b) obligation: no Err exit is reachable behind any state mutation of fn (a call's own `?` Err edge is the
    callee's responsibility: it is checked from the Ok edge)."""
    ms = mutations(fn, root_re, **kw)
    bad = []
    for m in ms:
        e = err_after(fn, m["after"])
        if m["kind"] == "store":
            e = [x for x in e if x != m["bb"]]
        if e:
            bad.append("%s at bb%d is followed by fallible exit(s) %s" % (m["desc"], m["bb"], e))
    ctx.ob(key, not bad and len(ms) >= floor,
           "%s: %d state mutation site(s) [%s]; %s" % (
               fn.short, len(ms), "; ".join(sorted(set(m["desc"] for m in ms)))[:300],
               "no fallible exit is reachable behind any of them" if not bad else "NOT ATOMIC: " + " | ".join(bad)),
           where=fn.where(), detail={"mutations": [[m["kind"], m["desc"][:120], m["bb"]] for m in ms]})
    return ms


# ----------------------------------------------------------------------------- finite case tables (A10)


def _lab_truth(lab):
    if isinstance(lab, tuple):
        return True if tuple(lab[1]) == (0,) else ("otherwise", tuple(lab[1]))
    return False if lab == 0 else (True if lab == 1 else lab)


def path_table(fn, atoms, classify, max_paths=4000):
    """Finite-case table. atoms: list of (name, regex on the branch condition). For every feasible, non-diverging
    path: (tuple of atom values (True/False/None=not tested on the path), classify(ret E, path)).
    `?` Break edges are reported with result 'err?'. Returns set of rows."""
    rows = set()
    for p in A.decision_table(fn, max_paths=max_paths):
        if p["diverges"] or not A.feasible(p) or not _const_feasible(p):
            continue
        vals = {n: None for n, _ in atoms}
        brk = False
        for cond, lab, ty in p["conds"]:
            s = str(cond)
            if cond.k == "discr" and cond.a[0].k == "trybranch":
                if lab == 1:
                    brk = True
                continue
            for n, rx in atoms:
                if re.search(rx, s):
                    t = _lab_truth(lab)
                    vals[n] = t
        res = "err?" if brk else classify(p["ret"], p)
        rows.add((tuple(vals[n] for n, _ in atoms), res))
    return rows


def fmt_rows(rows):
    return sorted("%s=>%s" % (",".join("-" if v is None else ("T" if v is True else "F" if v is False else str(v)) for v in r[0]), r[1])
                  for r in rows)


def classify_bool_result(e):
    """Result<bool>-ish E -> 'true'|'false'|'err'|str"""
    if e is None:
        return "none"
    s = str(e)
    if re.match(r"^Result::Ok\{0: true\}$", s):
        return "true"
    if re.match(r"^Result::Ok\{0: false\}$", s):
        return "false"
    if s.startswith("Result::Err{") or s.startswith("FromResidual::from_residual("):
        return "err"
    return s


def callers_within(prog, fn, allowed_re):
    """(all callers, offending callers) of fn — callers' def paths must match allowed_re."""
    cs = prog.callers_of(fn.id)
    bad = [c for c in cs if not re.search(allowed_re, c.fn.id)]
    return cs, bad


# ----------------------------------------------------------------------------- branch edges (A2, edge form)


def bool_switches(fn, cond_re):
    """Switches on a boolean whose condition matches cond_re -> list of dict(bb, true, false, cond)."""
    out = []
    for i, b in enumerate(fn.blocks):
        t = b["t"]
        if t[0] != "switch" or t[4] != "bool":
            continue
        c = fn.expr(t[1])
        neg = False
        inner = c
        while inner.k == "un" and inner.a[0] == "Not":
            inner = inner.a[1]
            neg = not neg
        if not re.search(cond_re, str(inner)):
            continue
        f_t = None
        for v, tgt in t[2]:
            if int(v) == 0:
                f_t = tgt
        t_t = t[3]
        if f_t is None:
            continue
        if neg:
            t_t, f_t = f_t, t_t
        out.append({"bb": i, "true": t_t, "false": f_t, "cond": inner})
    return out


def discr_switches(fn, scrut_re):
    """Switches on discr(<expr matching scrut_re>) -> list of dict(bb, edges={val: tgt}, otherwise=tgt, vals)."""
    out = []
    for i, b in enumerate(fn.blocks):
        t = b["t"]
        if t[0] != "switch":
            continue
        c = fn.expr(t[1])
        if c.k != "discr" or not re.search(scrut_re, str(c.a[0])):
            continue
        out.append({"bb": i, "edges": {int(v): tgt for v, tgt in t[2]}, "otherwise": t[3], "scrut": c.a[0]})
    return out


def variant_target(fn, sw, val):
    """Target block of a discriminant switch for variant value `val` (explicit arm, else the otherwise arm unless it
    is the `unreachable` block)."""
    if val in sw["edges"]:
        return sw["edges"][val]
    return sw["otherwise"]


def reach_avoiding_edges(fn, src, edges):
    """Blocks reachable from src when the (from_bb, to_bb) pairs in `edges` are deleted."""
    return fn.reachable_from(src, avoid_edges=set(edges))


def entry_roots(prog, fn, is_entry=lambda f: False, limit=20000):
    """Upward closure over callers: the set of functions with no callers, or satisfying is_entry, from which `fn` is
    reachable. -> (roots, all_fns_on_the_way)"""
    seen = {}
    roots = {}
    stack = [fn]
    while stack and len(seen) < limit:
        f = stack.pop()
        if f.id in seen:
            continue
        seen[f.id] = f
        if is_entry(f):
            roots[f.id] = f
            continue
        cs = prog.callers_of(f.id)
        # a closure body is "called" by its creator
        if not cs:
            roots[f.id] = f
        for c in cs:
            if c.fn.id not in seen:
                stack.append(c.fn)
    return roots, seen


def call_of_expr(e):
    """CallSite object carried by a `call` expression node (or None)."""
    if e is not None and e.k == "call" and len(e.a) > 2:
        return e.a[2]
    return None


def result_edges(fn, cs, through=("Result::map_err", "Result::map", "Option::ok_or_else", "Option::ok_or")):
    """Like try_edges, but follows the call's result through error-mapping adaptors (`.map_err(..)?`).
    -> (switch_bb, continue_bb, break_bb) or None"""
    cur = cs
    for _ in range(4):
        ts = anchor.try_switch_of(fn, cur)
        if ts and ts[1] is not None:
            return ts
        nxt = None
        for c in fn.calls:
            if c.short in through and c.args and isinstance(c.args[0], list) and c.args[0][0] == cur.dest[0] and len(cur.dest) == 1:
                nxt = c
                break
        if nxt is None:
            return None
        cur = nxt
    return None


def ok_edge2(fn, cs):
    ts = result_edges(fn, cs)
    return ts[1] if ts else None


# ----------------------------------------------------------------------------- semantic (shape-independent) helpers


class S:
    """String-valued stand-in for an E (operand of a fact imported from a callee after parameter substitution)."""
    k = "str"

    def __init__(self, s):
        self._s = s
        self.a = ()

    def __str__(self):
        return self._s

    __repr__ = __str__


def _subst(s, mapping):
    for name, val in mapping:
        s = re.sub(r"(?<![\.\w\^])%s\b" % re.escape(name), lambda m: val, s)
    return s


def ok_facts_of(fn):
    """Comparison/boolean facts that hold at EVERY Ok exit of fn (intersection), as (op, a, b) with E operands."""
    oks = [bb for bb, k, e in fn.exits() if k == "ok"]
    if not oks:
        return []
    sets = []
    for bb in oks:
        sets.append({(op, str(a), str(b) if b is not None else None): (op, a, b) for op, a, b in A.cmp_facts(fn, bb)})
    keys = set(sets[0])
    for s_ in sets[1:]:
        keys &= set(s_)
    return [sets[0][k] for k in keys]


def facts_at(fn, bb, prog=None, depth=1):
    """A.cmp_facts(fn, bb) plus — one level through the call graph — the facts guaranteed by every local callee whose
    result is `?`-propagated and whose Ok edge dominates bb (facts holding at all Ok exits of the callee, with the
    callee's parameters replaced by the call's argument expressions). A precondition check extracted into a private
    helper therefore yields the same facts as the inlined checks."""
    out = list(A.cmp_facts(fn, bb))
    prog = prog or fn.prog
    if depth <= 0 or prog is None:
        return out
    for cs in fn.calls:
        if cs.short in TRIV:
            continue
        tgts = prog.callees(cs)
        if len(tgts) != 1 or tgts[0].crate != fn.crate or tgts[0].id == fn.id:
            continue
        g = tgts[0]
        if g.arg_count != len(cs.args):
            continue
        ts = result_edges(fn, cs)
        if not ts or ts[1] is None or not fn.dominates(ts[1], bb):
            continue
        inner = ok_facts_of(g)
        if not inner:
            continue
        mapping = [(g.locals[i + 1][1], str(cs.arg_expr(i))) for i in range(g.arg_count) if g.locals[i + 1][1]]
        # substitute longest names first
        mapping.sort(key=lambda m: -len(m[0]))
        # use placeholders so that substituted text is not substituted again
        ph = [(n, "\x00%d\x00" % i) for i, (n, v) in enumerate(mapping)]
        back = [("\x00%d\x00" % i, v) for i, (n, v) in enumerate(mapping)]

        def sub(x):
            if x is None:
                return None
            s = str(x)
            s2 = _subst(s, ph)
            if s2 == s:
                return x
            for p_, v in back:
                s2 = s2.replace(p_, v)
            return S(s2)

        for op, a, b in inner:
            out.append((op, sub(a), sub(b)))
    return out


def _const_feasible(path):
    """A branch on a value that is a boolean constant on this path must take the matching edge."""
    for cond, lab, _ty in path["conds"]:
        c = cond
        neg = False
        while c.k == "un" and c.a[0] == "Not":
            c = c.a[1]
            neg = not neg
        if c.k == "const" and str(c) in ("true", "false"):
            val = (str(c) == "true") != neg
            t = _lab_truth(lab)
            if t in (True, False) and t != val:
                return False
    return True


def cmp_switches(fn, op, a_re, b_re):
    """Branches whose condition decides the relation `a op b` (modulo operand swap and negation).
    -> list of dict(bb, holds=<target where `a op b` holds>, fails=<target where it does not>, cond)"""
    out = []
    for i, b in enumerate(fn.blocks):
        t = b["t"]
        if t[0] != "switch" or t[4] != "bool":
            continue
        c = A.as_cmp(fn.expr(t[1]))
        if not c:
            continue
        f_t = [tgt for v, tgt in t[2] if int(v) == 0]
        if not f_t:
            continue
        true_t, false_t = t[3], f_t[0]
        o, x, y = c
        sx_, sy_ = str(x), str(y)
        for (oo, xx, yy) in ((o, sx_, sy_), (A.FLIP[o], sy_, sx_)):
            if re.search(a_re, xx) and re.search(b_re, yy):
                if oo == op:
                    out.append({"bb": i, "holds": true_t, "fails": false_t, "cond": fn.expr(t[1])})
                    break
                if A.NEG[oo] == op:
                    out.append({"bb": i, "holds": false_t, "fails": true_t, "cond": fn.expr(t[1])})
                    break
    return out


def _field_stores_on_path(fn, field_path, blocks):
    """(index in path, operand) of the stores into `field_path` executed on the block path, in order."""
    out = []
    for i, bb in enumerate(blocks):
        for si, s in enumerate(fn.blocks[bb]["s"]):
            if s[0] == "=" and len(s[1]) > 1 and A._place_path(fn, s[1]) == field_path and s[2][0] == "use":
                out.append((i, s[2][1]))
    return out


def extremum_update(fn, field_path, arg, kind):
    """Does fn leave `field := min/max(old field, arg)` on every acyclic path? Accepts the std call
    (Ord::min / Ord::max / cmp::min / cmp::max, either argument order) as well as the equivalent
    compare-and-assign / compare-and-select shapes. kind in ('min', 'max'). -> (ok, description)"""
    call_re = r"^(Ord|cmp)::%s\((%s, %s|%s, %s)\)$" % (kind, re.escape(field_path), re.escape(arg), re.escape(arg), re.escape(field_path))
    take = "<" if kind == "min" else ">"          # arg replaces the field when `arg take field`
    shapes = set()
    n = 0
    for p in A.decision_table(fn):
        if p["diverges"] or not A.feasible(p) or not _const_feasible(p):
            continue
        n += 1
        blocks = p["blocks"]
        stores = _field_stores_on_path(fn, field_path, blocks)
        # relations between arg and the OLD field value established on the path before the (last) store
        limit = stores[-1][0] if stores else len(blocks)
        rel = set()
        # the k-th recorded condition belongs to the k-th (non drop-flag) switch block of the path
        sw_pos = [i for i, b in enumerate(blocks) if fn.blocks[b]["t"][0] == "switch" and not A._is_drop_flag(fn, fn.blocks[b]["t"][1])]
        for ci, (cond, lab, _ty) in enumerate(p["conds"]):
            if ci < len(sw_pos) and sw_pos[ci] >= limit and stores:
                continue            # tested after the store: compares with the new value, says nothing about the old one
            c = A.as_cmp(cond)
            if not c:
                continue
            t = _lab_truth(lab)
            if t not in (True, False):
                continue
            o, x, y = c
            if not t:
                o = A.NEG[o]
            sx_, sy_ = str(x), str(y)
            if sx_ == arg and sy_ == field_path:
                rel.add(o)
            elif sx_ == field_path and sy_ == arg:
                rel.add(A.FLIP[o])
        if not stores:
            val = field_path
        else:
            idx, op_ = stores[-1]
            val = str(fn.expr_on_path(op_, blocks, idx))
        if re.match(call_re, val):
            shapes.add("std-call")
            continue
        keep_ok = {">=", ">"} if kind == "min" else {"<=", "<"}     # arg vs field relations under which keeping is right
        take_ok = {"<", "<="} if kind == "min" else {">", ">="}
        if val == arg and rel & take_ok:
            shapes.add("assign-if-%s" % take)
            continue
        if val == field_path and rel & keep_ok:
            shapes.add("keep-otherwise")
            continue
        if val == arg and not rel and False:
            pass
        return (False, "on a path the field ends as `%s` under relations %s of (%s ? %s)" % (sx(val, 80), sorted(rel), arg, field_path))
    return (n > 0, "%d path(s): %s" % (n, sorted(shapes)))
