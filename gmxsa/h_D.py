"""Helpers of rule group D (C18, C20, C23, C24, C25, C29, C33, C44) — built on model.py / analyses.py only.

 ok_edge / err_edge       — continuation blocks of a `?`-propagated call
 guarded                  — is a block under the given edge of a boolean condition (dominating branch)?
 discr_guarded            — is a block under the given variant edge of a `match`/`if let` discriminant?
 mutations / atomic       — A3(b): state mutation sites of a function and fallible exits reachable behind them
 must_pass                — A2: removing `through` blocks disconnects `frm` from every block of `to`
 path_table               — A10: finite-case table of a small function (atoms x result kind)
 ok_exits / exit_kinds    — classified exits
"""
import re

from . import analyses as A
from . import anchor
from .model import short_path

TRIV = {"Try::branch", "FromResidual::from_residual"}


def sx(e, n=260):
    s = str(e)
    return s if len(s) <= n else s[:n] + "…"


def try_edges(fn, cs):
    """(switch_bb, continue_bb, break_bb) of the `?` applied to call `cs`, or None."""
    return anchor.try_switch_of(fn, cs)


def ok_edge(fn, cs):
    """Block where control continues when `cs` succeeded (`?` Continue edge) — or the plain return target."""
    ts = try_edges(fn, cs)
    if ts and ts[1] is not None:
        return ts[1]
    return cs.target


def propagated(fn, cs):
    """Is the result of `cs` consumed by `?` (Err edge leaves through from_residual)?"""
    ts = try_edges(fn, cs)
    return bool(ts and ts[1] is not None and ts[2] is not None)


def guarded(fn, bb, cond_re, truth):
    """Some boolean branch dominating `bb` has a condition matching cond_re and `bb` lies on its `truth` edge only."""
    for c, t in fn.bool_guards(bb):
        if t == truth and re.search(cond_re, str(c)):
            return True
    return False


def guard_list(fn, bb, n=6, w=160):
    return [[sx(c, w), t] for c, t in fn.bool_guards(bb)][:n]


def discr_guarded(fn, bb, scrut_re, labels):
    """`bb` is reachable only through edges `labels` (set of ints / 'otherwise') of a switch on discr(<scrut_re>)."""
    labels = frozenset(labels)
    for s, cond, allowed, all_labels in fn.guards(bb):
        if cond.k == "discr" and re.search(scrut_re, str(cond.a[0])) and allowed <= labels:
            return True
    return False


def must_pass(fn, frm, to_blocks, through_blocks):
    """A2: every path frm -> any of to_blocks passes through one of through_blocks."""
    r = fn.reachable_from(frm, avoid_blocks=tuple(through_blocks))
    return not any(b in r for b in to_blocks)


def ret_blocks(fn):
    return [i for i, b in enumerate(fn.blocks) if b["t"][0] == "ret"]


def exit_kinds(fn):
    return [(bb, k, e) for bb, k, e in fn.exits()]


def ok_exits(fn):
    return [(bb, e) for bb, k, e in fn.exits() if k == "ok"]


# ----------------------------------------------------------------------------- mutations (A3)

ACCESSOR_RE = re.compile(r"(::get_mut|::as_mut|::load_mut|::deref_mut|::iter_mut|::entries_mut|::borrow_mut|"
                         r"::as_deref_mut|::get_or_insert|DerefMut::deref_mut|AsMut::as_mut)$")


def _borrows_bare_local(fn, n, seen=()):
    """Is local n (a `&mut T`) always a borrow of a whole non-parameter local (i.e. of a value owned by this frame)?"""
    ds = [d for d in fn.defs().get(n, []) if d[2] == ()]
    if not ds or n in seen:
        return False
    for (_bb, _si, _p, rv) in ds:
        if isinstance(rv, list) and rv[0] == "ref" and rv[1] in ("mut", "Mut"):
            pl = rv[2]
            if len(pl) == 1 and pl[0] > fn.arg_count:
                continue
            # reborrow `&mut *_x` of another local reference
            if len(pl) == 2 and pl[1] == "*" and pl[0] > fn.arg_count and _borrows_bare_local(fn, pl[0], seen + (n,)):
                continue
            return False
        if isinstance(rv, list) and rv[0] == "use" and isinstance(rv[1], list) and len(rv[1]) == 1 \
                and rv[1][0] > fn.arg_count and _borrows_bare_local(fn, rv[1][0], seen + (n,)):
            continue
        return False
    return True


def mutations(fn, root_re=r"\bself\b", accessor_re=ACCESSOR_RE, ignore_call_re=None):
    """State mutation sites of `fn`: stores through a place rooted in root_re, and calls that receive a `&mut`
    to such state (accessors that merely hand out a reference are not mutations; borrows of frame-local values
    are not state). Returns list of dict(bb, kind='store'|'call', desc, after=[blocks where control continues],
    cs=CallSite|None)."""
    out = []
    for w in state_stores(fn, root_re):
        out.append({"bb": w["bb"], "kind": "store", "desc": w["path"], "after": [w["bb"]], "cs": None, "rv": w["rv"]})
    for cs in fn.calls:
        if cs.short in TRIV:
            continue
        if accessor_re.search(cs.name or "") or accessor_re.search(cs.callee or ""):
            continue
        if ignore_call_re and (re.search(ignore_call_re, cs.name or "") or re.search(ignore_call_re, cs.short)):
            continue
        hit = None
        for a in cs.args:
            if not isinstance(a, list):
                continue
            ty = fn.locals[a[0]][0]
            if not ty.startswith("&mut"):
                continue
            if len(a) == 1 and _borrows_bare_local(fn, a[0]):
                continue
            s = str(fn.expr(a))
            if re.search(root_re, s):
                hit = s
                break
        if hit is None:
            continue
        nxt = ok_edge(fn, cs)
        out.append({"bb": cs.bb, "kind": "call", "desc": "%s(&mut %s ..)" % (cs.rshort, sx(hit, 80)),
                    "after": [nxt] if nxt is not None else [], "cs": cs, "rv": None})
    return out


def state_stores(fn, root_re=r"\bself\b"):
    """Stores (assignments, call destinations) through a reference: the place dereferences something or is rooted
    in a parameter, and its rendered path matches root_re. Frame-local aggregates being built are not state."""
    out = []

    def is_state(pl):
        return len(pl) > 1 and ("*" in pl[1:] or 0 < pl[0] <= fn.arg_count)

    for bb, si, s in fn.statements():
        if s[0] not in ("=", "setdiscr"):
            continue
        pl = s[1]
        if not is_state(pl):
            continue
        path = A._place_path(fn, pl)
        if re.search(root_re, path):
            out.append({"bb": bb, "si": si, "path": path, "line": fn.stmt_line(s),
                        "rv": fn._rvalue_expr(s[2], 0, ()) if s[0] == "=" else None})
    for cs in fn.calls:
        if is_state(cs.dest):
            path = A._place_path(fn, cs.dest)
            if re.search(root_re, path):
                out.append({"bb": cs.target if cs.target is not None else cs.bb, "si": -1, "path": path, "line": cs.line,
                            "rv": fn._call_expr(cs, 0, ())})
    return out


def err_after(fn, blocks):
    """Err/None-constructing exit blocks reachable from `blocks` (inclusive)."""
    errs = fn.err_exit_blocks()
    out = set()
    for b in blocks:
        r = fn.reachable_from(b)
        out |= {x for x in errs if x in r}
    return sorted(out)


def atomic(ctx, key, fn, root_re=r"\bself\b", floor=1, **kw):
    """A3(b) obligation: no Err exit is reachable behind any state mutation of fn (a call's own `?` Err edge is the
    callee's responsibility: it is checked from the Ok edge)."""
    ms = mutations(fn, root_re, **kw)
    bad = []
    for m in ms:
        e = err_after(fn, m["after"])
        if m["kind"] == "store":
            e = [x for x in e if x != m["bb"]]
        if e:
            bad.append("%s at bb%d is followed by fallible exit(s) %s" % (m["desc"], m["bb"], e))
    ctx.ob(key, not bad and len(ms) >= floor,
           "%s: %d state mutation site(s) [%s]; %s" % (
               fn.short, len(ms), "; ".join(sorted(set(m["desc"] for m in ms)))[:300],
               "no fallible exit is reachable behind any of them" if not bad else "NOT ATOMIC: " + " | ".join(bad)),
           where=fn.where(), detail={"mutations": [[m["kind"], m["desc"][:120], m["bb"]] for m in ms]})
    return ms


# ----------------------------------------------------------------------------- finite case tables (A10)


def _lab_truth(lab):
    if isinstance(lab, tuple):
        return True if tuple(lab[1]) == (0,) else ("otherwise", tuple(lab[1]))
    return False if lab == 0 else (True if lab == 1 else lab)


def path_table(fn, atoms, classify, max_paths=4000):
    """Finite-case table. atoms: list of (name, regex on the branch condition). For every feasible, non-diverging
    path: (tuple of atom values (True/False/None=not tested on the path), classify(ret E, path)).
    `?` Break edges are reported with result 'err?'. Returns set of rows."""
    rows = set()
    for p in A.decision_table(fn, max_paths=max_paths):
        if p["diverges"] or not A.feasible(p):
            continue
        vals = {n: None for n, _ in atoms}
        brk = False
        for cond, lab, ty in p["conds"]:
            s = str(cond)
            if cond.k == "discr" and cond.a[0].k == "trybranch":
                if lab == 1:
                    brk = True
                continue
            for n, rx in atoms:
                if re.search(rx, s):
                    t = _lab_truth(lab)
                    vals[n] = t
        res = "err?" if brk else classify(p["ret"], p)
        rows.add((tuple(vals[n] for n, _ in atoms), res))
    return rows


def fmt_rows(rows):
    return sorted("%s=>%s" % (",".join("-" if v is None else ("T" if v is True else "F" if v is False else str(v)) for v in r[0]), r[1])
                  for r in rows)


def classify_bool_result(e):
    """Result<bool>-ish E -> 'true'|'false'|'err'|str"""
    if e is None:
        return "none"
    s = str(e)
    if re.match(r"^Result::Ok\{0: true\}$", s):
        return "true"
    if re.match(r"^Result::Ok\{0: false\}$", s):
        return "false"
    if s.startswith("Result::Err{") or s.startswith("FromResidual::from_residual("):
        return "err"
    return s


def callers_within(prog, fn, allowed_re):
    """(all callers, offending callers) of fn — callers' def paths must match allowed_re."""
    cs = prog.callers_of(fn.id)
    bad = [c for c in cs if not re.search(allowed_re, c.fn.id)]
    return cs, bad


# ----------------------------------------------------------------------------- branch edges (A2, edge form)


def bool_switches(fn, cond_re):
    """Switches on a boolean whose condition matches cond_re -> list of dict(bb, true, false, cond)."""
    out = []
    for i, b in enumerate(fn.blocks):
        t = b["t"]
        if t[0] != "switch" or t[4] != "bool":
            continue
        c = fn.expr(t[1])
        neg = False
        inner = c
        while inner.k == "un" and inner.a[0] == "Not":
            inner = inner.a[1]
            neg = not neg
        if not re.search(cond_re, str(inner)):
            continue
        f_t = None
        for v, tgt in t[2]:
            if int(v) == 0:
                f_t = tgt
        t_t = t[3]
        if f_t is None:
            continue
        if neg:
            t_t, f_t = f_t, t_t
        out.append({"bb": i, "true": t_t, "false": f_t, "cond": inner})
    return out


def discr_switches(fn, scrut_re):
    """Switches on discr(<expr matching scrut_re>) -> list of dict(bb, edges={val: tgt}, otherwise=tgt, vals)."""
    out = []
    for i, b in enumerate(fn.blocks):
        t = b["t"]
        if t[0] != "switch":
            continue
        c = fn.expr(t[1])
        if c.k != "discr" or not re.search(scrut_re, str(c.a[0])):
            continue
        out.append({"bb": i, "edges": {int(v): tgt for v, tgt in t[2]}, "otherwise": t[3], "scrut": c.a[0]})
    return out


def variant_target(fn, sw, val):
    """Target block of a discriminant switch for variant value `val` (explicit arm, else the otherwise arm unless it
    is the `unreachable` block)."""
    if val in sw["edges"]:
        return sw["edges"][val]
    return sw["otherwise"]


def reach_avoiding_edges(fn, src, edges):
    """Blocks reachable from src when the (from_bb, to_bb) pairs in `edges` are deleted."""
    return fn.reachable_from(src, avoid_edges=set(edges))


def entry_roots(prog, fn, is_entry=lambda f: False, limit=20000):
    """Upward closure over callers: the set of functions with no callers, or satisfying is_entry, from which `fn` is
    reachable. -> (roots, all_fns_on_the_way)"""
    seen = {}
    roots = {}
    stack = [fn]
    while stack and len(seen) < limit:
        f = stack.pop()
        if f.id in seen:
            continue
        seen[f.id] = f
        if is_entry(f):
            roots[f.id] = f
            continue
        cs = prog.callers_of(f.id)
        # a closure body is "called" by its creator
        if not cs:
            roots[f.id] = f
        for c in cs:
            if c.fn.id not in seen:
                stack.append(c.fn)
    return roots, seen


def call_of_expr(e):
    """CallSite object carried by a `call` expression node (or None)."""
    if e is not None and e.k == "call" and len(e.a) > 2:
        return e.a[2]
    return None


def result_edges(fn, cs, through=("Result::map_err", "Result::map", "Option::ok_or_else", "Option::ok_or")):
    """Like try_edges, but follows the call's result through error-mapping adaptors (`.map_err(..)?`).
    -> (switch_bb, continue_bb, break_bb) or None"""
    cur = cs
    for _ in range(4):
        ts = anchor.try_switch_of(fn, cur)
        if ts and ts[1] is not None:
            return ts
        nxt = None
        for c in fn.calls:
            if c.short in through and c.args and isinstance(c.args[0], list) and c.args[0][0] == cur.dest[0] and len(cur.dest) == 1:
                nxt = c
                break
        if nxt is None:
            return None
        cur = nxt
    return None


def ok_edge2(fn, cs):
    ts = result_edges(fn, cs)
    return ts[1] if ts else None
