"""A5 side polarity: at every branch on a long/short *side flag*, the true arm must work on the
long-side entities and the false arm on the short-side entities (resp. max/min for `maximize`).

For a boolean switch whose condition is (a negation of) a side source, the entities referenced
exclusively in the true region and exclusively in the false region are collected from the MIR
(callee names, projected field names, constants, enum variants). A site is

  pure      true arm mentions only `long` words, false arm only `short` words           -> OK
  inverted  true arm only `short`, false arm only `long`                                -> VIOLATION
  neutral   no side words in the exclusive regions                                       -> nothing to decide
  mixed     anything else (both words in an arm, e.g. token-in/token-out reassignment)  -> tabled individually
"""
import re

SIDE_SRC = re.compile(
    r"^(?:self\.|[a-z_]+\.)*(is_long|is_long_token|is_long_collateral|is_token_in_long|is_collateral_token_long|"
    r"for_long|longs_pay_shorts|is_long_side|is_output_token_long|is_pnl_token_long|is_long_token_in|"
    r"is_collateral_long|is_long_market|long)$")
SIDE_CALL = re.compile(r"^[A-Za-z_:]+::(is_long|is_collateral_token_long|is_long_collateral|is_pnl_token_long|is_output_token_long|"
                       r"longs_pay_shorts|is_token_in_long)\((self|[a-z_\.]+)\)\??$")
MAX_SRC = re.compile(r"^(?:self\.|[a-z_]+\.)*(maximize|maximize_value|is_max)$")

WORD = re.compile(r"[A-Za-z][A-Za-z0-9]*")


def _tokens(name):
    """split snake/camel identifiers into lowercase words"""
    out = []
    for part in re.split(r"[^A-Za-z0-9]+", name):
        for w in re.findall(r"[A-Z]+(?![a-z])|[A-Z]?[a-z0-9]+", part):
            out.append(w.lower())
    return out


def side_of_cond(e):
    """-> (kind, positive) for a recognised side condition: kind in 'side'|'max'; positive False if negated."""
    pos = True
    while e.k == "un" and e.a[0] == "Not":
        e = e.a[1]
        pos = not pos
    s = str(e)
    if SIDE_SRC.match(s) or SIDE_CALL.match(s):
        return ("side", pos, s)
    if MAX_SRC.match(s):
        return ("max", pos, s)
    return None


def _region_entities(fn, blocks):
    names = []
    for b in blocks:
        blk = fn.blocks[b]
        if blk.get("cleanup"):
            continue
        for s in blk["s"]:
            if s[0] != "=":
                continue
            for pl in _places_of_stmt(s):
                for p in pl[1:]:
                    if p.startswith(".") and not p[1:].isdigit():
                        names.append(p[1:].lstrip("^"))
                    elif p.startswith("@"):
                        names.append(p[1:])
            rv = s[2]
            if rv[0] == "agg" and rv[1] == "adt" and rv[3]:
                names.append(rv[3][0])
            for o in _operands_of_rvalue(rv):
                if isinstance(o, dict):
                    d = o.get("def") or o.get("fn")
                    if d:
                        names.append(d.rsplit("::", 1)[-1])
        t = blk["t"]
        if t[0] == "call":
            c = t[1]
            nm = c.get("callee")
            if nm:
                names.append(nm.rsplit("::", 1)[-1])
            for a in c["args"]:
                if isinstance(a, dict):
                    d = a.get("def")
                    if d:
                        names.append(d.rsplit("::", 1)[-1])
                else:
                    for p in a[1:]:
                        if p.startswith(".") and not p[1:].isdigit():
                            names.append(p[1:].lstrip("^"))
    return names


def _places_of_stmt(s):
    out = [s[1]]
    for o in _operands_of_rvalue(s[2]):
        if isinstance(o, list):
            out.append(o)
    return out


def _operands_of_rvalue(rv):
    k = rv[0]
    if k in ("use",):
        return [rv[1]]
    if k in ("ref", "rawptr"):
        return [rv[2]]
    if k == "bin":
        return [rv[2], rv[3]]
    if k in ("un", "cast"):
        return [rv[2]]
    if k in ("discr", "len"):
        return [rv[1]]
    if k == "agg":
        return list(rv[4])
    if k == "repeat":
        return [rv[1]]
    return []


def classify(words_true, words_false, pair=("long", "short")):
    a, b = pair

    def side(words):
        la = sum(1 for w in words if a in _tokens(w) and b not in _tokens(w))
        lb = sum(1 for w in words if b in _tokens(w) and a not in _tokens(w))
        return la, lb

    ta, tb = side(words_true)
    fa, fb = side(words_false)
    if ta + tb + fa + fb == 0:
        return "neutral"
    if tb == 0 and fa == 0 and (ta > 0 or fb > 0):
        return "pure"
    if ta == 0 and fb == 0 and (tb > 0 or fa > 0):
        return "inverted"
    return "mixed"


def sites(fn):
    """All side-conditioned boolean switches of fn with their exclusive-region entity words."""
    out = []
    ordinal = {}
    for b in range(len(fn.blocks)):
        t = fn.blocks[b]["t"]
        if t[0] != "switch" or t[4] != "bool" or fn.blocks[b].get("cleanup"):
            continue
        sc = side_of_cond(fn.expr(t[1]))
        if sc is None:
            continue
        kind, positive, src = sc
        f_tgt = None
        t_tgt = t[3]
        for v, tgt in t[2]:
            if int(v) == 0:
                f_tgt = tgt
        if f_tgt is None or f_tgt == t_tgt:
            continue
        rt = fn.reachable_from(t_tgt, avoid_blocks=(b,))
        rf = fn.reachable_from(f_tgt, avoid_blocks=(b,))
        only_t = rt - rf
        only_f = rf - rt
        wt = _region_entities(fn, only_t)
        wf = _region_entities(fn, only_f)
        if not positive:
            wt, wf = wf, wt
        pair = ("long", "short") if kind == "side" else ("max", "min")
        n = ordinal.get(src, 0)
        ordinal[src] = n + 1
        out.append({"fn": fn, "bb": b, "src": src, "kind": kind, "ordinal": n,
                    "true_words": sorted(set(w for w in wt if any(x in _tokens(w) for x in pair))),
                    "false_words": sorted(set(w for w in wf if any(x in _tokens(w) for x in pair))),
                    "class": classify(wt, wf, pair), "line": fn.blocks[b].get("line", 0)})
    return out


def rule(ctx, prog, rid, fn_pred, floor, tabled_mixed=None, text=None):
    """Arm the side-polarity rule on every function accepted by fn_pred(fn).
    pure/neutral sites pass; an inverted site is a violation; a mixed site passes only when tabled
    (key `<fn.short>:<src>:<ordinal>` -> reason) because a dedicated rule decides it."""
    tabled_mixed = tabled_mixed or {}
    ctx.rule(rid, text or "at every branch on a long/short side flag the true arm references long-side entities only and "
             "the false arm short-side entities only (negations interpreted); mixed sites are tabled and decided by a dedicated rule")
    n = 0
    classes = {}
    for f in prog.fns.values():
        if not fn_pred(f):
            continue
        for s in sites(f):
            key = "%s:%s:%d" % (f.short, s["src"], s["ordinal"])
            classes[s["class"]] = classes.get(s["class"], 0) + 1
            ctx.analysed_fns.add(f.id)
            if s["class"] == "neutral":
                continue
            n += 1
            if s["class"] == "pure":
                ctx.ob("%s:%s" % (rid, key), True, "%s: true arm -> %s ; false arm -> %s" % (key, s["true_words"][:4], s["false_words"][:4]),
                       where=f.where(s["line"]))
            elif s["class"] == "inverted":
                ctx.ob("%s:%s" % (rid, key), False,
                       "side polarity inverted in %s: the `%s` arm references %s and the other arm %s" % (
                           f.short, s["src"], s["true_words"][:6], s["false_words"][:6]), where=f.where(s["line"]),
                       detail={"true": s["true_words"], "false": s["false_words"]})
            else:
                ok = key in tabled_mixed
                ctx.ob("%s:%s" % (rid, key), ok,
                       "mixed side site %s (true arm %s / false arm %s)%s" % (
                           key, s["true_words"][:6], s["false_words"][:6],
                           " — tabled: " + tabled_mixed[key] if ok else " is not tabled: a long/short word appeared in the opposite arm"),
                       where=f.where(s["line"]), detail={"true": s["true_words"], "false": s["false_words"]})
    ctx.floor(rid, n, floor)
    return classes
