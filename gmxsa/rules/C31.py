"""C31 Order fee discounts are valid fractions combining rank and referral.

Decided:
 * factors-capped : GtState::set_order_fee_discount_factors copies `factors` into order_fee_discount_factors[0..len] only
                    when len == max_rank + 1 and all(|f| f <= MARKET_USD_UNIT) hold; nobody else writes that array;
 * rank-bound     : GtState::order_fee_discount_factor(rank) returns Ok(factors[rank]) only under max_rank >= rank
                    (ranks above the maximum are rejected; the index bounds check is dominated by the guard);
 * formula        : Store::order_fee_discount_factor: unreferred arm returns the rank factor A; referred arm returns
                    checked_add(B, apply_factor(A, checked_sub(UNIT, B))) with every None propagated as Err, where
                    B = the OrderFeeDiscountForReferredUser factor (key -> field resolved through Factors::get);
 * sdk-agrees     : the SDK copy (gmsol_programs::utils::store) has the same normalised result tree per arm, the same
                    rank guard (exact comparison operator) and reads the same fields.
"""
import re

from .. import analyses as A
from .. import h_F as H

GTS = r"gmsol_store::states::gt::GtState::"
UNIT = "constants::MARKET_USD_UNIT"


def _closure_result(prog, ce):
    """closure E -> (Fn, {upvar name: parent expr})"""
    f = prog.fns.get(ce.a[0])
    env = {}
    if len(ce.a) > 2:
        for nm, v in zip(ce.a[2], ce.a[1]):
            env[str(nm).lstrip("^")] = v
    return f, env


def norm(prog, e, env, atoms, depth=0):
    """Normalise a discount expression to a nested tuple over atoms A / B / UNIT."""
    e = H.peel(e)
    s = str(e)
    for name, pats in atoms.items():
        if any(re.search(p, s) for p in pats):
            return name
    if e.k == "const" and s.endswith("MARKET_USD_UNIT"):
        return "UNIT"
    if e.k == "upvar" and e.a[0] in env:
        return norm(prog, env[e.a[0]], {}, atoms, depth + 1)
    if e.k == "call":
        nm = e.a[0]
        c = H.checked_op(e)
        if c is not None:
            return ("%s_%s" % (c[0], c[1]), norm(prog, c[2], env, atoms, depth + 1), norm(prog, c[3], env, atoms, depth + 1))
        if nm == "utils::apply_factor":
            return ("apply_factor", norm(prog, e.a[1][0], env, atoms, depth + 1), norm(prog, e.a[1][1], env, atoms, depth + 1))
        if nm in ("Option::and_then", "Option::map") and len(e.a[1]) == 2 and e.a[1][1].k == "closure":
            cf, cenv = _closure_result(prog, e.a[1][1])
            if cf is not None and cf.arg_count == 2:
                exits = cf.exits()
                if len(exits) == 1:
                    arg = cf.locals[2][1]
                    inner = norm(prog, e.a[1][0], env, atoms, depth + 1)
                    r = norm(prog, exits[0][2], cenv, dict(atoms, **{"$arg": [r"^%s$" % re.escape(arg)]}), depth + 1)
                    return _subst(r, "$arg", inner)
    return "?<%s>" % s[:80]


def _subst(t, name, val):
    if t == name:
        return val
    if isinstance(t, tuple):
        return tuple(_subst(x, name, val) for x in t)
    return t


def _guard_op(facts, left_re, right_re):
    """exact operator of the fact relating left and right (oriented left op right), or None"""
    for (o, a, b) in facts:
        if b is None:
            continue
        if re.search(left_re, str(a)) and re.search(right_re, str(b)):
            return o
        if re.search(left_re, str(b)) and re.search(right_re, str(a)):
            return A.FLIP[o]
    return None


def run(ctx):
    prog = ctx.prog(["gmsol_store", "gmsol_programs", "gmsol_utils"])
    ctx.explanation = (
        "The rank discount table is written by one function, only under `len == max_rank+1` and `every factor <= 100%` "
        "(branch facts dominating the copy); the rank lookup returns Ok only under max_rank >= rank; the combined discount "
        "is, per arm of `is_referred`, the expression B + A*(1-B) built from checked primitives whose None is an error "
        "(so a referred-user factor above 100% yields an error, never an invalid discount); the SDK copy is compared as a "
        "normalised expression tree, guard and field by field.")
    ctx.not_decided = (
        "The numeric bound `B + A(1-B) <= 100%` and `>= A` (arithmetic, follows from A,B <= 100% and floor rounding but is "
        "not computed here); the rounding error of the product; that the referred-user factor itself is range-checked on "
        "write (it is not: unchecked_insert_factor stores any value — the complement's checked_sub is where it is enforced).")
    ctx.rule("factors-capped", "order_fee_discount_factors is written only by its setter, under len == max_rank+1 and all(f <= UNIT)")
    ctx.rule("rank-bound", "rank lookup returns Ok(factors[rank]) only under max_rank >= rank")
    ctx.rule("formula", "unreferred -> A; referred -> checked_add(B, apply_factor(A, checked_sub(UNIT, B))), None => Err")
    ctx.rule("sdk-agrees", "SDK order_fee_discount_factor: same tree per arm, same guard operator, same fields")

    # ------------------------------------------------------------ factors-capped
    setter = ctx.fn(GTS + "set_order_fee_discount_factors")
    if setter:
        cps = [c for c in setter.calls if re.search(r"copy_from_slice$|clone_from_slice$", c.short)]
        ws = [w for w in A.field_writes(setter, r"order_fee_discount_factors")]
        ok_shape = len(cps) == 1 and bool(ws)
        ctx.ob("factors-capped:copy", ok_shape and re.match(
            r"^IndexMut::index_mut\(self\.order_fee_discount_factors, Range\{start: 0, end: \[T\]::len\(factors\)\}\)$", str(cps[0].arg_expr(0))) is not None
            and str(cps[0].arg_expr(1)) == "factors",
            "the table is filled by copy_from_slice(order_fee_discount_factors[0..factors.len()], factors): %s" % (
                [str(cps[0].arg_expr(i)) for i in range(2)] if cps else None), where=setter.where())
        sites = sorted(set([w["bb"] for w in ws] + [c.bb for c in cps]))
        len_ok = all(_guard_op(A.cmp_facts(setter, bb), r"^\[T\]::len\(factors\)$",
                               r"^\(\(self\.max_rank (AddWithOverflow|Add) 1\)(\.0)? as usize\)$") == "==" for bb in sites)
        ctx.ob("factors-capped:len", bool(sites) and len_ok, "every write site is under factors.len() == max_rank + 1", where=setter.where())
        all_ok = all(A.has_bool_fact(A.cmp_facts(setter, bb), True, r"^Iterator::all\(\[T\]::iter\(factors\), closure<") for bb in sites)
        ctx.ob("factors-capped:all-le-unit", bool(sites) and all_ok, "every write site is under factors.iter().all(<closure>) == true", where=setter.where())
        cl = prog.closures_of(setter)
        cmp_ok = False
        desc = []
        for c in cl:
            ex = c.exits()
            desc = [str(e) for _, _, e in ex]
            if len(ex) == 1:
                cm = A.as_cmp(ex[0][2])
                if cm:
                    op, a, b = cm
                    if str(a).endswith("MARKET_USD_UNIT"):
                        op, a, b = A.FLIP[op], b, a
                    cmp_ok = op == "<=" and str(a) == c.locals[2][1] and str(b).endswith("MARKET_USD_UNIT")
        ctx.ob("factors-capped:closure", len(cl) == 1 and cmp_ok, "the predicate is `factor <= MARKET_USD_UNIT`: %s" % desc, where=setter.where())
        H.atomic_update(ctx, "factors-capped:atomic", setter)
    ws = H.field_writers(prog, ["gmsol_store"], "states::gt::GtState", "order_fee_discount_factors")
    who = sorted(set(w["fn"].short for w in ws))
    ctx.ob("factors-capped:writers", who == ["GtState::set_order_fee_discount_factors"],
           "GtState.order_fee_discount_factors is written by %s" % who, where=setter.where() if setter else "")
    unit = ctx.const(r"^gmsol_store::constants::MARKET_USD_UNIT")
    dec = ctx.const(r"^gmsol_store::constants::MARKET_DECIMALS")
    if unit and dec:
        try:
            ok = int(unit.get("int") or unit.get("val")) == 10 ** int(dec.get("int") or dec.get("val"))
        except Exception:
            ok = False
        ctx.ob("factors-capped:unit", ok, "MARKET_USD_UNIT == 10^MARKET_DECIMALS (%s, %s)" % (unit.get("int") or unit.get("val"), dec.get("int") or dec.get("val")),
               where="programs/store/src/constants")

    # ------------------------------------------------------------ rank-bound (program)
    look = ctx.fn(GTS + "order_fee_discount_factor")
    prog_guard = None
    if look:
        oks = [(bb, e) for bb, k, e in look.exits() if k == "ok"]
        res = [str(H.peel(e.a[1][0][1])) for bb, e in oks if e.k == "agg"]
        ctx.ob("rank-bound:result", res == ["self.order_fee_discount_factors[(rank as usize)]"], "lookup returns %s" % res, where=look.where())
        ops = [_guard_op(A.cmp_facts(look, bb), r"^self\.max_rank$", r"^\(rank as u64\)$") for bb, e in oks]
        prog_guard = ops[0] if ops else None
        ctx.ob("rank-bound:guard", bool(ops) and all(o == ">=" for o in ops), "Ok only under max_rank %s rank" % ops, where=look.where())
        bsites = [s for s in A.panic_sites(look) if s["kind"] == "assert:BoundsCheck"]
        ok = bool(bsites) and all(_guard_op(A.cmp_facts(look, s["bb"]), r"^self\.max_rank$", r"^\(rank as u64\)$") == ">=" for s in bsites)
        ctx.ob("rank-bound:index-guarded", ok, "the index bounds check (%d site) is dominated by the rank guard" % len(bsites), where=look.where())

    # ------------------------------------------------------------ formula (program)
    want_ref = ("checked_add", "B", ("apply_factor", "A", ("checked_sub", "UNIT", "B")))
    sf = ctx.fn(r"gmsol_store::states::store::Store::order_fee_discount_factor")
    gfk = ctx.fn(r"gmsol_store::states::store::Store::get_factor_by_key")
    fget = ctx.fn(r"gmsol_store::states::store::Factors::get")
    fk = ctx.adt(r"gmsol_utils::config::FactorKey")
    b_field = None
    if gfk and fget and fk:
        ex = [str(e) for _, _, e in gfk.exits()]
        fwd = ex == ["Factors::get(self.factor, key)"]
        mt = A.match_table(fget, prog, r"^key$", fk)
        got = [str(x) for x in mt.get("OrderFeeDiscountForReferredUser", [])]
        b_field = "order_fee_discount_for_referred_user" if got == ["Option::Some{0: self.order_fee_discount_for_referred_user}"] else None
        ctx.ob("formula:B-source", fwd and b_field is not None,
               "get_factor_by_key forwards to Factors::get(self.factor, key) and OrderFeeDiscountForReferredUser -> %s" % got, where=fget.where())
    prog_arms = {}
    if sf:
        atoms = {"A": [r"^GtState::order_fee_discount_factor\(Store::gt\(self\), rank\)$"],
                 "B": [r"^Store::get_factor_by_key\(self, FactorKey::OrderFeeDiscountForReferredUser\{\}\)$"]}
        prog_arms = _arms(ctx, prog, sf, atoms, "formula")
        ctx.floor("formula-arms", len(prog_arms), 2)
        ctx.ob("formula:unreferred", prog_arms.get(False) == ["A"], "is_referred == false returns %s" % prog_arms.get(False), where=sf.where())
        ctx.ob("formula:referred", prog_arms.get(True) == [want_ref], "is_referred == true returns %s" % prog_arms.get(True), where=sf.where())
        # Store::gt(self) is the stored GT state
        g = ctx.fn(r"gmsol_store::states::store::Store::gt")
        if g:
            ctx.ob("formula:gt-accessor", [str(e) for _, _, e in g.exits()] == ["self.gt"], "Store::gt() returns self.gt", where=g.where())
        # no panic on the normal path other than the debug assertion
        ps = [s for s in A.panic_sites(sf) if not any(m.startswith("debug_assert") for m in s.get("mac", []))]
        ctx.ob("formula:no-unchecked-arith", not A.arith_sites(sf) and not ps,
               "no raw arithmetic / panic site outside debug_assert in Store::order_fee_discount_factor (%d, %d)" % (len(A.arith_sites(sf)), len(ps)), where=sf.where())

    # ------------------------------------------------------------ SDK
    sdk = ctx.fn(r"gmsol_programs::utils::store::<impl gmsol_programs::gmsol_store::accounts::Store>::order_fee_discount_factor")
    if sdk:
        atoms = {"A": [r"^self\.gt\.order_fee_discount_factors\[\(rank as usize\)\]$"],
                 "B": [r"^self\.factor\.%s$" % (b_field or "order_fee_discount_for_referred_user")]}
        sdk_arms = _arms(ctx, prog, sdk, atoms, "sdk-agrees")
        ctx.floor("sdk-arms", len(sdk_arms), 2)
        ctx.ob("sdk-agrees:unreferred", sdk_arms.get(False) == prog_arms.get(False) == ["A"],
               "SDK unreferred arm %s vs program %s" % (sdk_arms.get(False), prog_arms.get(False)), where=sdk.where())
        ctx.ob("sdk-agrees:referred", sdk_arms.get(True) == prog_arms.get(True) == [want_ref],
               "SDK referred arm %s vs program %s" % (sdk_arms.get(True), prog_arms.get(True)), where=sdk.where())
        oks = [bb for bb, k, e in sdk.exits() if k == "ok"]
        ops = [_guard_op(A.cmp_facts(sdk, bb), r"^self\.gt\.max_rank$", r"^\(rank as u64\)$") for bb in oks]
        ctx.ob("sdk-agrees:rank-guard", len(ops) == 2 and all(o == prog_guard == ">=" for o in ops),
               "SDK returns Ok only under max_rank %s rank; program: %s" % (ops, prog_guard), where=sdk.where())
        # the SDK type reads the same account fields (same names and offsets as the program's zero-copy structs)
        for pa, sa in ((r"gmsol_store::states::gt::GtState", r"gmsol_programs::gmsol_store::types::GtState"),
                       (r"gmsol_store::states::store::Factors", r"gmsol_programs::gmsol_store::types::Factors")):
            a1, a2 = ctx.adt(pa), ctx.adt(sa)
            if a1 and a2:
                o1, o2 = a1.field_offsets(), a2.field_offsets()
                flds = ["max_rank", "order_fee_discount_factors"] if pa.endswith("GtState") else ["order_fee_discount_for_referred_user"]
                ok = o1 is not None and o2 is not None and all(f in o1 and f in o2 and o1[f][0] == o2[f][0] for f in flds)
                ctx.ob("sdk-agrees:layout:" + a1.short, ok, "fields %s sit at the same offsets in program and SDK types: %s" % (
                    flds, [(f, o1.get(f), o2.get(f)) for f in flds] if o1 and o2 else "no layout"), where="%s:%d" % (a2.file, a2.line))


def _arms(ctx, prog, f, atoms, fam):
    """{is_referred truth: [normalised Ok results]}; Ok exits not under an is_referred guard are reported."""
    out = {}
    for bb, k, e in f.exits():
        if k != "ok":
            continue
        t = None
        for (o, a, b) in A.cmp_facts(f, bb):
            if b is None and str(a) == "is_referred":
                t = o == "true"
        if t is None:
            ctx.ob("%s:arm-unclassified" % fam, False, "an Ok exit of %s is not under a branch on is_referred" % f.short, where=f.where())
            continue
        inner = e.a[1][0][1] if e.k == "agg" and e.a[1] else e
        out.setdefault(t, []).append(norm(prog, inner, {}, atoms))
        # every `?` feeding the result propagates an Err (None -> error): no unwrap_or / default
        bad = [c.a[0] for c in inner.walk() if c.k == "call" and re.search(r"unwrap_or|unwrap_or_default|saturating|wrapping", c.a[0])]
        if bad:
            ctx.ob("%s:no-defaulting" % fam, False, "%s result uses %s" % (f.short, bad), where=f.where())
    return out
