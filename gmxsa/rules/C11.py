"""C11 Position profit and loss moves with the price in the right direction.

Decided (A10 finite cases, A5 sign arms, A6 constant flags, A7 rounding, reaching-definition forms):

 * price-pick   : `Price::pick_price_for_pnl(is_long, maximize)` over the 4 cases = min iff is_long xor maximize;
                  `pick_price(maximize)` = max / min.
 * pnl-sign     : `PositionExt::pnl_value`: position value = size_in_tokens * index.pick_price_for_pnl(is_long, maximize=false);
                  long: value - size_in_usd, short: size_in_usd - value (checked_sub, arm under is_long()).
                  `BaseMarketExt::pnl`: open interest value = OI tokens(is_long) * pick_price_for_pnl(is_long, maximize);
                  long: value - OI, short: OI - value.   (This sign structure is what makes pnl monotone in the price.)
 * cap-pnl      : `MarketUtils::cap_pnl` over orderings of (pnl, max_pnl) x is_positive(pnl): result == pnl when not positive,
                  else min(pnl, max_pnl); max_pnl = apply_factor(pool_value, pnl_factor_config(kind, is_long)).
 * trader-cap   : in `pnl_value` the cap is consulted only for positive total pnl, with pool value (is_long, maximize=false), pool
                  pnl (is_long, maximize=true), kind MaxForTrader; total pnl is replaced only under
                  capped != pool_pnl && !capped.is_negative() && pool_pnl.is_positive(), by |capped| * total / |pool_pnl|.
 * realised     : pnl_usd = size_delta_in_tokens * total_pnl / size_in_tokens (floor of magnitude) with total_pnl either the
                  uncapped or the capped-scaled value; uncapped_pnl_usd uses only the uncapped one; tuple order.
"""
import re

from .. import analyses as A
from .. import h_A as H


def _s(cs, i):
    return str(H.arg_at(cs, i)) if i < len(cs.args) else "<no-arg>"


def _g(f, bb):
    return [(str(c), t) for c, t in H.bool_guards_at(f, bb)]


def run(ctx):
    prog = ctx.prog(["gmsol_model"])
    ctx.explanation = (
        "The sign structure of pnl: which index price is picked per side and direction (exhaustive over the four flag cases), "
        "long = value - size and short = size - value in both the position and the pool pnl, the pnl cap never raises a pnl "
        "(exhaustive over orderings), the trader cap is applied only to positive pnl as the ratio |capped|/|pool pnl| <= 1 "
        "of the same pool pnl, and the realised share is the floor mul-div on size_delta_in_tokens over size_in_tokens.")
    ctx.not_decided = (
        "Monotonicity in the price as a numeric statement (follows from this sign structure plus monotone checked_mul, not shown); "
        "proportionality of a partial close up to rounding (value reasoning about the two nested floors).")
    ctx.rule("price-pick", "pick_price_for_pnl = min iff is_long xor maximize; pick_price polarity")
    ctx.rule("pnl-sign", "long: value - size, short: size - value; value at pick_price_for_pnl(is_long, flag)")
    ctx.rule("cap-pnl", "cap_pnl(pnl) = pnl if not positive else min(pnl, max_pnl)")
    ctx.rule("trader-cap", "trader cap only on positive pnl, ratio |capped| / |pool pnl| of the same pool pnl, MaxForTrader")
    ctx.rule("realised", "realised pnl = delta tokens * total / size tokens, floor of magnitude; uncapped twin")

    _pick(ctx)
    _pnl_sign(ctx)
    _cap(ctx)
    _pnl_value(ctx)


def _pick(ctx):
    f = ctx.fn(r"gmsol_model::price::Price::<T>::pick_price_for_pnl")
    if f is not None:
        def atomize(x):
            return {"is_long": "is_long", "maximize": "maximize"}.get(str(x))
        cases, bad = 0, []
        try:
            for _r, b, sel in H.finite_eval(f, atomize, [], ["is_long", "maximize"]):
                cases += 1
                want = "self.min" if (b["is_long"] != b["maximize"]) else "self.max"
                got = sorted(set(str(p.ret) for p in sel))
                if got != [want]:
                    bad.append("is_long=%s maximize=%s -> %s (want %s)" % (b["is_long"], b["maximize"], got, want))
        except H.OutOfFragment as ex:
            bad.append("no longer finitely evaluable: %s" % ex)
        ctx.ob("price-pick:pick_price_for_pnl", not bad, "pick_price_for_pnl over %d flag cases: long&max->max, long&min->min, short&max->min, short&min->max%s" % (
            cases, "; VIOLATED: %s" % bad if bad else ""), where=f.where(), detail={"exhaustive": True, "cases": cases})
        ctx.floor("price-pick", cases, 4)
    g = ctx.fn(r"gmsol_model::price::Price::<T>::pick_price")
    if g is not None:
        tab = {}
        for p in H.value_paths(g):
            t = True if p.holds(r"^maximize$", True) else (False if p.holds(r"^maximize$", False) else None)
            tab.setdefault(t, set()).add(str(p.ret))
        ctx.ob("price-pick:pick_price", tab == {True: {"self.max"}, False: {"self.min"}}, "pick_price: maximize -> %s" % {k: sorted(v) for k, v in tab.items()}, where=g.where())


def _pnl_sign(ctx):
    f = ctx.fn(r"gmsol_model::market::base::BaseMarketExt::pnl")
    if f is not None:
        OI = "BalanceExt::amount(BaseMarketExt::open_interest(self)?, is_long)?"
        OIT = "BalanceExt::amount(BaseMarketExt::open_interest_in_tokens(self)?, is_long)?"

        def atom(y):
            y0 = H.peel(y, calls=("Option::ok_or",))
            if str(y0) == "BalanceExt::amount(BaseMarketExt::open_interest(self)?, is_long)":
                return "OI"
            if H.is_call(y0, r"^CheckedMul::checked_mul$"):
                a = sorted(str(H.peel(z)) for z in H.call_args(y0))
                if a == sorted(["BalanceExt::amount(BaseMarketExt::open_interest_in_tokens(self)?, is_long)", "Price::pick_price_for_pnl(index_token_price, is_long, maximize)"]):
                    return "VALUE"
            return None
        tab = {}
        for p in H.value_paths(f):
            t = True if p.holds(r"^is_long$", True) else (False if p.holds(r"^is_long$", False) else None)
            if t is None:
                z = str(H.peel(p.ret))
                tab.setdefault("empty", set()).add(z)
                continue
            try:
                tab.setdefault(t, set()).add(tuple(sorted(H.linform(p.ret, atom).items())))
            except H.NotLinear:
                tab.setdefault(t, set()).add(("nonlinear",))
        want = {True: {(("OI", -1), ("VALUE", 1))}, False: {(("OI", 1), ("VALUE", -1))}, "empty": {"Zero::zero()"}}
        ctx.ob("pnl-sign:market-pnl", tab == want,
               "BaseMarketExt::pnl: long -> VALUE - OI, short -> OI - VALUE, VALUE = OI tokens(is_long) * pick_price_for_pnl(index, is_long, maximize); empty side -> 0: %s" % {
                   str(k): sorted(map(str, v)) for k, v in tab.items()}, where=f.where())
    f = ctx.fn(r"gmsol_model::position::PositionExt::pnl_value")
    if f is None:
        return
    VALUE = "CheckedMul::checked_mul(PositionState::size_in_tokens(self), Price::pick_price_for_pnl(prices.index_token_price, Position::is_long(self), false))"

    def atom(y):
        y0 = H.peel(y, calls=("Option::ok_or",))
        if str(y0) == VALUE:
            return "VALUE"
        if str(y0) == "PositionState::size_in_usd(self)":
            return "SIZE"
        return None
    subs = [c for c in f.calls if c.short == "CheckedSub::checked_sub"]
    tab = {}
    for c in subs:
        gl = [t for s, t in _g(f, c.bb) if s == "Position::is_long(self)"]
        try:
            lf = H._comb(H.linform(H.arg_at(c, 0), atom), H.linform(H.arg_at(c, 1), atom), -1)
        except H.NotLinear:
            lf = {"nonlinear": 1}
        tab[gl[0] if gl else None] = {k: v for k, v in lf.items() if v}
    ctx.ob("pnl-sign:position-pnl", tab == {True: {"VALUE": 1, "SIZE": -1}, False: {"SIZE": 1, "VALUE": -1}},
           "pnl_value: long -> VALUE - size_in_usd, short -> size_in_usd - VALUE, VALUE = size_in_tokens * index.pick_price_for_pnl(is_long(), false): %s" % tab, where=f.where())
    pk = [c for c in f.calls if c.short == "Price::pick_price_for_pnl"]
    ctx.ob("pnl-sign:position-price", [[_s(c, i) for i in (0, 1, 2)] for c in pk] == [["prices.index_token_price", "Position::is_long(self)", "false"]],
           "pnl_value picks the execution price once: pick_price_for_pnl(%s)" % [[_s(c, i) for i in (0, 1, 2)] for c in pk], where=f.where())


def _cap(ctx):
    f = ctx.fn(r"gmsol_model::market::utils::MarketUtils::cap_pnl")
    if f is None:
        return
    MAX = "Unsigned::to_signed(Option::ok_or(utils::apply_factor(pool_value, BaseMarket::pnl_factor_config(self, kind, is_long)?), "

    def atomize(x):
        s = str(H.peel(x))
        if s == "pnl":
            return "pnl"
        if s.startswith(MAX):
            return "max"
        if s == "Signed::is_positive(pnl)":
            return "positive"
        return None
    cases, bad = 0, []
    try:
        for ranks, b, sel in H.finite_eval(f, atomize, ["pnl", "max"], ["positive"], ignore=r"trybranch"):
            cases += 1
            vals = [p for p in sel if H.retkind(p.ret) == "value"]
            if not vals:
                bad.append("%s %s: no value path" % (ranks, b))
            for p in vals:
                r = atomize(H.peel(p.ret))
                if r is None:
                    bad.append("result is neither pnl nor max_pnl: %s" % str(p.ret)[:100])
                    continue
                want = ranks["pnl"] if not b["positive"] else min(ranks["pnl"], ranks["max"])
                if ranks[r] != want:
                    bad.append("pnl %s max, positive=%s: returns %s" % ("<=>"[(ranks["pnl"] > ranks["max"]) - (ranks["pnl"] < ranks["max"]) + 1], b["positive"], r))
    except H.OutOfFragment as ex:
        bad.append("no longer finitely evaluable: %s" % ex)
    ctx.ob("cap-pnl:table", not bad, "cap_pnl over %d cases: not positive -> pnl; positive -> min(pnl, apply_factor(pool_value, pnl_factor_config(kind, is_long)))%s" % (
        cases, "; VIOLATED: %s" % sorted(set(bad)) if bad else ""), where=f.where(), detail={"exhaustive": True, "cases": cases})
    ctx.floor("cap-pnl", cases, 6)
    cfg = [c for c in f.calls if c.short == "BaseMarket::pnl_factor_config"]
    ctx.ob("cap-pnl:config", [[_s(c, 1), _s(c, 2)] for c in cfg] == [["kind", "is_long"]], "max pnl factor = pnl_factor_config(kind, is_long): %s" % [[_s(c, 1), _s(c, 2)] for c in cfg],
           where=f.where())


def _pnl_value(ctx):
    f = ctx.fn(r"gmsol_model::position::PositionExt::pnl_value")
    if f is None:
        return
    LONG = "Position::is_long(self)"
    POOL_PNL = "BaseMarketExt::pnl(Position::market(self), prices.index_token_price, %s, true)?" % LONG
    POOL_VAL = "BaseMarketExt::pool_value_without_pnl_for_one_side(Position::market(self), prices, %s, false)?" % LONG
    CAPPED = "MarketUtils::cap_pnl(Position::market(self), %s, %s, %s, PnlFactorKind::MaxForTrader{})?" % (LONG, POOL_PNL, POOL_VAL)
    cap = [c for c in f.calls if c.short == "MarketUtils::cap_pnl"]
    row = [[_s(c, i) for i in (1, 2, 3, 4)] for c in cap]
    ok = row == [[LONG, POOL_PNL, POOL_VAL, "PnlFactorKind::MaxForTrader{}"]]
    gpos = bool(cap) and any(t and re.match(r"^Signed::is_positive\(", s) and "cap_pnl" not in s for s, t in _g(f, cap[0].bb))
    ctx.ob("trader-cap:inputs", ok and gpos,
           "cap_pnl(is_long(), pnl(index, is_long(), maximize=true), pool_value_without_pnl_for_one_side(prices, is_long(), maximize=false), MaxForTrader), consulted only "
           "under is_positive(total_pnl)=%s: %s" % (gpos, row), where=f.where())
    # the total pnl guard is on the UNCAPPED total
    if cap:
        gs = [s for s, t in _g(f, cap[0].bb) if t and s.startswith("Signed::is_positive(")]
        ctx.ob("trader-cap:positive-only", len(gs) == 1 and "CheckedSub::checked_sub" in gs[0] and "checked_mul_div_with_signed_numerator" not in gs[0],
               "the positivity test is on the freshly computed (uncapped) total pnl", where=f.where())
    scale = [c for c in f.calls if c.short == "MulDiv::checked_mul_div_with_signed_numerator" and "cap_pnl" in _s(c, 0)]
    ok = len(scale) == 1
    if ok:
        c = scale[0]
        a0, a1, a2 = _s(c, 0), H.arg_at(c, 1), _s(c, 2)
        gs = _g(f, c.bb)
        want_g = {("PartialEq::ne(%s, %s)" % (CAPPED, POOL_PNL), True), ("Signed::is_negative(%s)" % CAPPED, False), ("Signed::is_positive(%s)" % POOL_PNL, True)}
        total_is_uncapped = "CheckedSub::checked_sub" in str(a1) and "checked_mul_div_with_signed_numerator" not in str(a1)
        ok = a0 == "UnsignedAbs::unsigned_abs(%s)" % CAPPED and a2 == "UnsignedAbs::unsigned_abs(%s)" % POOL_PNL and total_is_uncapped and want_g <= set(gs)
        msg = "|capped| * total / |pool pnl| with guards %s" % sorted((s[:40], t) for s, t in gs)
    else:
        msg = "%d scaling sites" % len(scale)
    ctx.ob("trader-cap:scaling", ok,
           "total pnl is replaced by |cap_pnl(..)| * uncapped total / |pool pnl| only under capped != pool_pnl && !capped.is_negative() && pool_pnl.is_positive(): %s" % msg, where=f.where())
    # realised share
    oks = [(bb, e) for bb, k, e in f.exits() if k == "ok"]
    good, msg = False, "no single Ok exit"
    if len(oks) == 1:
        e = H.peel(H.ret_at(f, oks[0][0]))
        if e.k == "agg" and len(e.a[1]) == 3:
            pnl_usd, unc, sdt = [H.peel(x[1], calls=("Option::ok_or",)) for x in e.a[1]]
            SDT = "PositionExt::size_delta_in_tokens(self, size_delta_usd)?"
            okk = str(sdt) == SDT.rstrip("?") or str(sdt) == SDT

            def share(x):
                if not H.is_call(x, r"^MulDiv::checked_mul_div_with_signed_numerator$"):
                    return None
                a = H.call_args(x)
                if not (str(a[0]) == SDT and str(a[2]) == "PositionState::size_in_tokens(self)"):
                    return None
                kinds = set()
                for alt in H.peel(a[1], calls=("Option::ok_or",)).alts():
                    alt = H.peel(alt, calls=("Option::ok_or",))
                    if H.is_call(alt, r"^CheckedSub::checked_sub$"):
                        kinds.add("uncapped")
                    elif H.is_call(alt, r"^MulDiv::checked_mul_div_with_signed_numerator$") and "cap_pnl" in str(H.call_args(alt)[0]):
                        kinds.add("capped")
                    elif alt.k == "phi":
                        for z in alt.alts():
                            kinds.add("uncapped" if H.is_call(H.peel(z, calls=("Option::ok_or",)), r"^CheckedSub::checked_sub$") else "other")
                    else:
                        kinds.add("other")
                return kinds
            k1, k2 = share(pnl_usd), share(unc)
            good = okk and k1 == {"uncapped", "capped"} and k2 == {"uncapped"}
            msg = "pnl_usd total in %s, uncapped_pnl_usd total in %s, third component size_delta_in_tokens=%s" % (k1, k2, okk)
    ctx.ob("realised:share", good,
           "(pnl_usd, uncapped_pnl_usd, size_delta_in_tokens): each pnl = size_delta_in_tokens * total / size_in_tokens with the signed floor mul-div — %s" % msg, where=f.where())
    prims = sorted(set(c.short for c in f.calls if H.prim_class(c.callee)))
    ctx.ob("realised:floor-only", prims == ["MulDiv::checked_mul_div_with_signed_numerator"], "rounding primitives called in pnl_value: %s" % prims, where=f.where())
