"""C09 Positions are left healthy, and only unhealthy ones can be liquidated.

Decided (structural, necessary):
 * IncreasePosition::execute: every success path runs validate(position, params.prices, true, true)? and behind it
   nothing writes the position or the market except the on_increased callback;
 * DecreasePosition::execute: every success path that reports `should_remove = false` runs validate(position,
   params.prices, ..)? after the last size/collateral store; check_liquidation()? dominates process_collateral;
 * check_liquidation: for a liquidation order it calls check_liquidatable(position, params.prices, true,
   for_liquidation = true) and succeeds only on `Some(reason)` (None -> Err(NotLiquidatable));
   validate calls check_liquidatable(.., for_liquidation = false) and succeeds only on `None`;
 * check_liquidatable: for_liquidation selects min_collateral_factor_for_liquidation / min_collateral_factor, and only
   CheckCollateralResult::Sufficient maps to None; check_collateral returns Sufficient only when every test passed;
 * store, execute_decrease_position (all paths to the event update): is_liquidation_order passed to the model is true
   exactly for SecondaryOrderType::Liquidation and then `size_delta_usd >= position.size_in_usd()` was required for the
   very operands handed to `decrease`; DecreasePositionFlags::init caps or rejects a larger size (=> whole position);
   for AutoDeleveraging, pnl_factor_exceeded(ForAdl) returned Some before the decrease, and afterwards
   before > after and after >= pnl_factor_config(MinAfterAdl) were required with these provenances.
"""
import json
import os
import re

from .. import analyses as A
from .. import h_B as H
from .. import anchor
from ..model import short_path

_T = json.load(open(os.path.join(os.path.dirname(os.path.dirname(os.path.dirname(os.path.abspath(__file__)))), "tables", "C09.json")))
STATE_CALLS = re.compile(r"(_mut$|apply_delta|update_open_interest|update_total_borrowing|process_collateral|::swap|::on_[a-z_]+$|::execute$)")


def _post_validate(ctx, key, fn, paths, allowed, only_if=None):
    """No market/position state write between the health validation and the Ok return, except the tabled calls."""
    bad = []
    seen = set()
    n = 0
    for p in paths:
        if only_if is not None and not only_if(p):
            continue
        ev = p["ev"]
        vs = H.path_calls(p, r"PositionExt::validate$")
        if len(vs) != 1:
            bad.append("validate called %d times" % len(vs))
            continue
        n += 1
        pos = ev.pos[vs[0].bb]
        for c in p["calls"]:
            if ev.pos[c.bb] > pos and STATE_CALLS.search(c.short):
                seen.add(c.short)
                if c.short not in allowed:
                    bad.append("%s runs behind validate" % c.short)
        st = [s for s in H.stores_on_path(fn, p, r"^(self\.position|[\w:]+\((PositionMut::market_mut\()?self\.position)") if s["pos"] > pos]
        if st:
            bad.append("store into %s behind validate" % str(st[0]["dest"])[:80])
    ctx.ob(key, not bad and n > 0,
           "%s: on %d success paths nothing that can write market/position state runs between validate and Ok except the tabled %s%s" % (
               fn.short, n, sorted(seen), "; VIOLATED: %s" % sorted(set(bad))[:3] if bad else ""), where=fn.where())


WRITE_CALLS = re.compile(r"(_mut$|apply_delta|update_open_interest|update_total_borrowing|::swap$|process_collateral$)")


def run(ctx):
    prog = ctx.prog(["gmsol_model", "gmsol_store"])
    ctx.explanation = (
        "Must-pass-through on every success path (validate before Ok and nothing but the callback behind it; "
        "check_liquidation before any collateral processing), constant-argument provenance of the for_liquidation flags, "
        "result tables of check_liquidation / validate / check_liquidatable / check_collateral read off the MIR paths, and "
        "for the store's execute_decrease_position the comparison facts required on every path that reaches the decrease "
        "call (liquidation: size_delta_usd >= size_in_usd) and the event update (ADL: exceeded before; before > after; "
        "after >= MinAfterAdl), with the provenance of each operand.")
    ctx.not_decided = (
        "Numerical correctness of the remaining-collateral computation in check_liquidatable. Observation: after a decrease "
        "the model validates with (should_validate_min_position_size, should_validate_min_collateral_usd) = (false, false) "
        "as GMX does, whereas liquidation tests with min collateral usd enabled; the rule demands the validate call and its "
        "prices, not these two flags. That the pnl factor really decreases is the store's runtime check (shown present), "
        "not a static fact.")
    for rid, txt in (
            ("inc-validate", "IncreasePosition::execute: validate(position, params.prices, true, true)? on every success path; only on_increased behind it"),
            ("dec-validate", "DecreasePosition::execute: validate(position, params.prices, ..)? on every success path that keeps the position, after the last store"),
            ("post-validate", "no market/position state write between the health validation and the Ok return except the tabled callbacks (tables/C09.json)"),
            ("liq-order", "check_liquidation()? dominates process_collateral"),
            ("liq-check", "check_liquidation succeeds for a liquidation order only on Some(reason) of check_liquidatable(.., true, true); validate only on None of (.., false)"),
            ("liq-factor", "check_liquidatable: for_liquidation selects the liquidation factor; only Sufficient -> None"),
            ("collateral-table", "check_collateral returns Sufficient only if non-negative, >= min value (if any), non-zero (unless allowed) and >= leverage minimum"),
            ("store-liquidation", "execute_decrease_position: Liquidation <=> is_liquidation_order; then size_delta_usd >= size_in_usd required for the operands of decrease"),
            ("store-adl", "execute_decrease_position: ADL requires pnl_factor_exceeded(ForAdl)=Some before, before > after and after >= MinAfterAdl after"),
            ("full-close", "DecreasePositionFlags::init caps size_delta_usd to size_in_usd or rejects")):
        ctx.rule(rid, txt)
    _increase(ctx, prog)
    _decrease(ctx, prog)
    _checks(ctx, prog)
    _store(ctx, prog)


def _is_none(lab):
    """label of a switch on an Option discriminant that means `None`."""
    return lab == 0 or (isinstance(lab, tuple) and 1 in lab[1] and 0 not in lab[1])


def _validate_args(ev, c):
    return [str(x) for x in ev.call_args(c)]


def _increase(ctx, prog):
    inc = ctx.fn(r"IncreasePosition<P, DECIMALS> as gmsol_model::action::MarketAction>::execute")
    if inc is None:
        return
    ps = H.success_paths(inc)
    ctx.floor("inc-validate:paths", len(ps), 4)
    bad = []
    behind = set()
    for p in ps:
        vs = H.path_calls(p, r"PositionExt::validate$")
        if len(vs) != 1:
            bad.append("validate called %d times on a success path" % len(vs))
            continue
        a = _validate_args(p["ev"], vs[0])
        if a != ["self.position", "self.params.prices", "true", "true"]:
            bad.append("validate args %s" % a)
        pos = p["ev"].pos[vs[0].bb]
        ts = anchor.try_switch_of(inc, vs[0])
        if ts is None:
            bad.append("validate result is not propagated with `?`")
        for c in p["calls"]:
            if p["ev"].pos[c.bb] > pos and c.short not in ("Try::branch", "FromResidual::from_residual"):
                behind.add(c.short)
                if WRITE_CALLS.search(c.short):
                    bad.append("%s runs after validate" % c.short)
        st = [s for s in H.stores_on_path(inc, p, r"self\.position") if s["pos"] > pos]
        if st:
            bad.append("store into the position after validate")
    ctx.ob("inc-validate:every-success-path", not bad,
           "all %d success paths pass validate(position, params.prices, true, true)?; behind it only %s%s" % (
               len(ps), sorted(behind), "; VIOLATED: %s" % bad[:3] if bad else ""), where=inc.where())
    _post_validate(ctx, "post-validate:increase", inc, ps, set(_T["increase"]))
    ctx.ob("inc-validate:callback-only", behind <= {"PositionMut::on_increased", "IncreasePositionReport::new"} | {b for b in behind if not WRITE_CALLS.search(b)},
           "calls behind validate: %s" % sorted(behind), where=inc.where(), nontrivial=False)


def _decrease(ctx, prog):
    dec = ctx.fn(r"DecreasePosition<P, DECIMALS> as gmsol_model::action::MarketAction>::execute")
    if dec is None:
        return
    ps = H.success_paths(dec)
    ctx.floor("dec-validate:paths", len(ps), 20)
    bad = []
    kept = 0
    removed_with_validate = 0
    flags_seen = set()
    for p in ps:
        ev = p["ev"]
        rn = [c for c in p["calls"] if c.short.endswith("DecreasePositionReport::new")]
        if len(rn) != 1:
            bad.append("report constructed %d times" % len(rn))
            continue
        fe = ev.call_args(rn[0])[4]
        flag = A.const_bool(fe)
        if flag is None:
            for cond, lab, ty in p["conds"]:
                if ty == "bool" and str(cond) == str(fe):
                    flag = isinstance(lab, tuple) or lab != 0
        vs = H.path_calls(p, r"PositionExt::validate$")
        if flag is None:
            bad.append("cannot resolve should_remove on a path")
            continue
        if flag:
            removed_with_validate += len(vs)
            continue
        kept += 1
        if len(vs) != 1:
            bad.append("a keeping path calls validate %d times" % len(vs))
            continue
        a = _validate_args(ev, vs[0])
        flags_seen.add((a[2], a[3]))
        if a[:2] != ["self.position", "self.params.prices"]:
            bad.append("validate args %s" % a)
        if anchor.try_switch_of(dec, vs[0]) is None:
            bad.append("validate result is not propagated with `?`")
        pos = ev.pos[vs[0].bb]
        st = [s for s in H.stores_on_path(dec, p, r"^PositionStateMut::(size_in_usd|size_in_tokens|collateral_amount)_mut\(self\.position\)$")
              if s["pos"] > pos]
        if st:
            bad.append("size/collateral store after validate")
        late = [c.short for c in p["calls"] if ev.pos[c.bb] > pos and re.search(r"(update_open_interest|update_total_borrowing|process_collateral)$", c.short)]
        if late:
            bad.append("%s after validate" % late)
    ctx.ob("dec-validate:keeping-paths", not bad and kept > 0,
           "all %d success paths that keep the position pass validate(position, params.prices, %s)? after the last size/collateral store%s" % (
               kept, sorted(flags_seen), "; VIOLATED: %s" % bad[:3] if bad else ""), where=dec.where())
    def _keeps(p):
        rn = [c for c in p["calls"] if c.short.endswith("DecreasePositionReport::new")]
        if len(rn) != 1:
            return True
        fe = p["ev"].call_args(rn[0])[4]
        fl = A.const_bool(fe)
        if fl is None:
            for cond, lab, ty in p["conds"]:
                if ty == "bool" and str(cond) == str(fe):
                    fl = isinstance(lab, tuple) or lab != 0
        return fl is not True
    _post_validate(ctx, "post-validate:decrease", dec, ps, set(_T["decrease"]), only_if=_keeps)
    cl = dec.calls_to(r"DecreasePosition::<P, DECIMALS>::check_liquidation$")
    pc = dec.calls_to(r"DecreasePosition::<P, DECIMALS>::process_collateral$")
    ok = len(cl) == 1 and len(pc) == 1
    if ok:
        ts = anchor.try_switch_of(dec, cl[0])
        ok = ts is not None and dec.dominates(ts[1], pc[0].bb)
    ctx.ob("liq-order:check-before-collateral", ok, "check_liquidation()? Ok edge dominates process_collateral (calls: %d, %d)" % (len(cl), len(pc)), where=dec.where())


def _checks(ctx, prog):
    cl = ctx.fn(r"DecreasePosition::<P, DECIMALS>::check_liquidation")
    if cl is not None:
        ps = H.success_paths(cl)
        tab = {}
        bad = []
        for p in ps:
            liq = H.path_truth(p, r"^DecreasePositionParams::is_liquidation_order\(self\.params\)$")
            cs = H.path_calls(p, r"PositionExt::check_liquidatable$")
            if liq:
                if len(cs) != 1:
                    bad.append("liquidation path without check_liquidatable")
                    continue
                a = [str(x) for x in p["ev"].call_args(cs[0])]
                if a != ["self.position", "self.params.prices", "true", "true"]:
                    bad.append("check_liquidatable args %s" % a)
                d = [lab for cond, lab, ty in p["conds"] if re.match(r"^discr\(PositionExt::check_liquidatable\(.*\)\?\)$", str(cond))]
                tab.setdefault(True, set()).update("Some" if x == 1 else "None/other" for x in d)
                if not d:
                    bad.append("success without testing the result")
            else:
                tab.setdefault(liq, set()).add("no check" if not cs else "checked")
        good = not bad and tab.get(True) == {"Some"} and tab.get(False) == {"no check"}
        ctx.ob("liq-check:check_liquidation", good,
               "check_liquidation: liquidation order -> Ok only when check_liquidatable(position, params.prices, true, true) is %s; other orders: %s%s" % (
                   sorted(tab.get(True, [])), sorted(tab.get(False, [])), "; %s" % bad[:2] if bad else ""), where=cl.where())
        errs = [str(e) for _, k, e in cl.exits() if k == "err" and "NotLiquidatable" in str(e)]
        ctx.ob("liq-check:not-liquidatable-error", len(errs) == 1, "the None arm returns Err(NotLiquidatable)", where=cl.where())
    va = ctx.fn(r"gmsol_model::position::PositionExt::validate")
    if va is not None:
        ps = H.success_paths(va)
        bad = []
        for p in ps:
            cs = H.path_calls(p, r"PositionExt::check_liquidatable$")
            if len(cs) != 1:
                bad.append("success path with %d check_liquidatable calls" % len(cs))
                continue
            a = [str(x) for x in p["ev"].call_args(cs[0])]
            if a != ["self", "prices", "should_validate_min_collateral_usd", "false"]:
                bad.append("args %s" % a)
            d = [lab for cond, lab, ty in p["conds"] if re.match(r"^discr\(PositionExt::check_liquidatable\(.*\)\?\)$", str(cond))]
            if len(d) != 1 or not _is_none(d[0]):
                bad.append("Ok although result discriminant is %s" % d)
            zs = [(str(c), l) for c, l, ty in p["conds"] if re.match(r"^Zero::is_zero\(PositionState::size_in_(usd|tokens)\(self\)\)$", str(c))]
            if len(zs) != 2 or any(l != 0 for _, l in zs):
                bad.append("zero-size test missing on a success path: %s" % zs)
        ctx.ob("liq-check:validate", not bad and len(ps) >= 1,
               "validate returns Ok only when sizes are non-zero and check_liquidatable(self, prices, should_validate_min_collateral_usd, false) is None "
               "(%d success paths)%s" % (len(ps), "; %s" % bad[:2] if bad else ""), where=va.where())
    lq = ctx.fn(r"gmsol_model::position::PositionExt::check_liquidatable")
    if lq is not None:
        ps = H.success_paths(lq)
        ctx.floor("liq-factor:paths", len(ps), 10)
        ccadt = ctx.adt(r"gmsol_model::position::CheckCollateralResult")
        dm = ccadt.discr_map() if ccadt else {}
        ftab = {}
        rtab = {}
        bad = []
        for p in ps:
            fl = H.path_truth(p, r"^for_liquidation$")
            cc = H.path_calls(p, r"position::check_collateral$")
            if fl is None or len(cc) != 1:
                bad.append("path without for_liquidation branch / check_collateral call")
                continue
            a = p["ev"].call_args(cc[0])
            ftab.setdefault(fl, set()).add(short_path(str(a[1]).split("(")[0]))
            if str(a[0]) != "PositionState::size_in_usd(self)" or str(a[3]) != "false":
                bad.append("check_collateral(size=%s, allow_zero=%s)" % (a[0], a[3]))
            for cond, lab, ty in p["conds"]:
                if re.match(r"^discr\(position::check_collateral\(.*\)\?\)$", str(cond)):
                    v = dm.get(lab, "_") if not isinstance(lab, tuple) else "_"
                    r = dict(p["ret"].a[1])["0"]
                    rtab.setdefault(v, set()).add("None" if str(r).startswith("Option::None") else str(r))
        okf = ftab == {True: {"PositionParams::min_collateral_factor_for_liquidation"}, False: {"PositionParams::min_collateral_factor"}}
        ctx.ob("liq-factor:selection", okf and not bad, "for_liquidation -> collateral factor: %s%s" % (
            {k: sorted(v) for k, v in ftab.items()}, "; %s" % bad[:2] if bad else ""), where=lq.where())
        none_from = sorted(k for k, v in rtab.items() if "None" in v)
        all_some = all(all(x.startswith("Option::Some{0: LiquidatableReason::") for x in v) for k, v in rtab.items() if k != "Sufficient")
        ctx.ob("liq-factor:result-map", none_from == ["Sufficient"] and rtab.get("Sufficient") == {"None"} and all_some and
               set(rtab) >= set(dm.values()) - {"_"} and len(dm) == 5,
               "check_collateral result -> check_liquidatable result: %s" % {k: sorted(v) for k, v in sorted(rtab.items())}, where=lq.where())
    cc = ctx.fn(r"gmsol_model::position::check_collateral")
    if cc is not None:
        ps = H.success_paths(cc)
        suff = [p for p in ps if str(dict(p["ret"].a[1])["0"]).startswith("CheckCollateralResult::Sufficient")]
        bad = []
        for p in suff:
            cs = [(str(c), (isinstance(l, tuple) or l != 0) if ty == "bool" else l) for c, l, ty in p["conds"]]
            d = dict(cs)
            if d.get("Signed::is_negative(collateral_value)") is not False:
                bad.append("Sufficient without is_negative == false")
            lev = [k for k, v in cs if re.match(r"^PartialOrd::lt\(UnsignedAbs::unsigned_abs\(collateral_value\), Option::ok_or\(utils::apply_factor\(size_in_usd, min_collateral_factor\), .*\)\?\)$", k)]
            if len(lev) != 1 or d[lev[0]] is not False:
                bad.append("Sufficient without collateral >= size*factor")
            some = d.get("discr(min_collateral_value)")
            mv = [k for k, v in cs if re.match(r"^PartialOrd::lt\(UnsignedAbs::unsigned_abs\(collateral_value\), min_collateral_value@Some\.0\)$", k)]
            if some == 1 and (len(mv) != 1 or d[mv[0]] is not False):
                bad.append("Sufficient with Some(min) but without collateral >= min")
            if some is None:
                bad.append("no test of min_collateral_value")
            z = d.get("Zero::is_zero(UnsignedAbs::unsigned_abs(collateral_value))")
            az = d.get("allow_zero_collateral")
            if not (az is True or z is False):
                bad.append("Sufficient although zero collateral not excluded (allow_zero=%s, is_zero=%s)" % (az, z))
        ctx.ob("collateral-table:sufficient", not bad and len(suff) >= 2,
               "check_collateral returns Sufficient on %d of %d success paths, each with: not negative, >= min value when given, non-zero unless allowed, "
               ">= apply_factor(size_in_usd, factor)%s" % (len(suff), len(ps), "; %s" % bad[:2] if bad else ""), where=cc.where())
        neg = [p for p in ps if H.path_truth(p, r"^Signed::is_negative\(collateral_value\)$") is True]
        vals = set(str(dict(p["ret"].a[1])["0"]) for p in neg)
        ctx.ob("collateral-table:negative", bool(neg) and all(re.match(r"^CheckCollateralResult::(MinCollateral|Negative)\{\}$", v) for v in vals),
               "negative collateral value -> %s" % sorted(vals), where=cc.where())
    fi = ctx.fn(r"gmsol_model::action::decrease_position::DecreasePositionFlags::init")
    if fi is not None:
        ps = H.success_paths(fi)
        bad = []
        n = 0
        for p in ps:
            gt = H.path_truth(p, r"^PartialOrd::gt\(size_delta_usd, size_in_usd\)$")
            st = [s for s in H.stores_on_path(fi, p, r"^size_delta_usd$")]
            if gt is None:
                bad.append("success path without the size comparison")
            elif gt:
                n += 1
                if len(st) != 1 or str(st[0]["value"]) != "size_in_usd":
                    bad.append("larger size accepted without capping to size_in_usd")
            elif st:
                bad.append("size_delta_usd rewritten although not larger")
        ctx.ob("full-close:flags-init", not bad and n >= 1,
               "DecreasePositionFlags::init: size_delta_usd > size_in_usd -> capped to size_in_usd (when allowed) or Err; otherwise untouched%s" % (
                   "; %s" % bad[:2] if bad else ""), where=fi.where())
        tn = ctx.fn(r"DecreasePosition::<P, DECIMALS>::try_new")
        if tn is not None:
            cs = tn.calls_to(r"DecreasePositionFlags::init$")
            ok = len(cs) == 1 and [str(cs[0].arg_expr(i)) for i in (1, 2)] == ["PositionState::size_in_usd(position)", "size_delta_usd"] and \
                anchor.try_switch_of(tn, cs[0]) is not None
            ctx.ob("full-close:try_new", ok, "DecreasePosition::try_new runs flags.init(position.size_in_usd(), &mut size_delta_usd)?", where=tn.where())


def _store(ctx, prog):
    f = ctx.fn(r"gmsol_store::ops::order::execute_decrease_position")
    sot = ctx.adt(r"SecondaryOrderType")
    if f is None or sot is None:
        return
    dm = {v: k for k, v in sot.discr_map().items()}
    tg = [c.bb for c in f.calls if c.matches(r"update_with_decrease_report$")]
    if len(tg) != 1:
        ctx.ob("store-adl:anchor", False, "update_with_decrease_report call sites: %d" % len(tg), where=f.where())
        return
    ps = H.success_paths(f, targets=tg)
    ctx.floor("store:paths", len(ps), 4)
    seen = {"Liquidation": 0, "AutoDeleveraging": 0, "other": 0}
    bad_l, bad_a = [], []
    for p in ps:
        ev = p["ev"]
        kind = "other"
        some = [lab for c, lab, ty in p["conds"] if str(c) == "discr(secondary_order_type)"]
        inner = [lab for c, lab, ty in p["conds"] if str(c) == "discr(secondary_order_type@Some.0)" and not isinstance(lab, tuple)]
        if some and all(x == 1 for x in some) and inner:
            vs = set(inner)
            if vs == {dm["Liquidation"]}:
                kind = "Liquidation"
            elif vs == {dm["AutoDeleveraging"]}:
                kind = "AutoDeleveraging"
        seen[kind] += 1
        dc = [c for c in p["calls"] if c.short == "PositionMutExt::decrease"]
        if len(dc) != 1:
            bad_l.append("decrease called %d times" % len(dc))
            continue
        a = ev.call_args(dc[0])
        fl = dict(a[5].a[1]) if a[5].k == "agg" else {}
        liq_flag = A.const_bool(fl["is_liquidation_order"]) if "is_liquidation_order" in fl else None
        if liq_flag is None or liq_flag != (kind == "Liquidation"):
            bad_l.append("is_liquidation_order=%s on a %s path" % (liq_flag, kind))
        dpos = ev.pos[dc[0].bb]
        if kind == "Liquidation":
            want = "(%s Lt PositionState::size_in_usd(%s))" % (a[2], a[0])
            hit = [(lab, i) for i, (c, lab, ty) in enumerate(p["conds"]) if str(c) == want]
            if not hit or any(lab != 0 for lab, _ in hit):
                bad_l.append("liquidation path reaches decrease(size=%s) without requiring %s >= size_in_usd(%s)" % (a[2], a[2], a[0]))
        if kind == "AutoDeleveraging":
            side = r"OrderSide::is_long\(OrderActionParams::side\(order\.params\)\?\)"
            exc = r"BaseMarketExt::pnl_factor_exceeded\(Position::market\(position\), prices, PnlFactorKind::ForAdl\{\}, %s\)" % side
            before_re = r"^\(Option::expect\(Option::Some\{0: Option::map\(Result::map_err\(%s, .*\)\?, closure<.*>\)@Some\.0\}, .*\) Le Result::map_err\(BaseMarketExt::pnl_factor\(Position::market\(position\), prices, %s, true\), .*\)\?\)$" % (exc, side)
            min_re = r"^\(Result::map_err\(BaseMarketExt::pnl_factor\(Position::market\(position\), prices, %s, true\), .*\)\? Lt Result::map_err\(Result::and_then\(BaseMarket::pnl_factor_config\(Position::market\(position\), PnlFactorKind::MinAfterAdl\{\}, %s\), closure<.*>\), .*\)\?\)$" % (side, side)
            some_re = r"^discr\(Option::map\(Result::map_err\(%s, .*\)\?, closure<.*>\)\)$" % exc
            s1 = [lab for c, lab, ty in p["conds"] if re.match(some_re, str(c))]
            b1 = [lab for c, lab, ty in p["conds"] if re.match(before_re, str(c))]
            m1 = [lab for c, lab, ty in p["conds"] if re.match(min_re, str(c))]
            if s1 != [1]:
                bad_a.append("ADL path without pnl_factor_exceeded(ForAdl) == Some (%s)" % s1)
            if b1 != [0]:
                bad_a.append("ADL path without require_gt!(before, after) (%s)" % b1)
            if m1 != [0]:
                bad_a.append("ADL path without require_gte!(after, MinAfterAdl) (%s)" % m1)
            ex = [c for c in p["calls"] if c.short == "BaseMarketExt::pnl_factor_exceeded"]
            af = [c for c in p["calls"] if c.short == "BaseMarketExt::pnl_factor"]
            if len(ex) != 1 or ev.pos[ex[0].bb] > dpos:
                bad_a.append("pnl_factor_exceeded is not evaluated before the decrease")
            if len(af) != 1 or ev.pos[af[0].bb] < dpos:
                bad_a.append("pnl_factor (after) is not evaluated after the decrease")
    ctx.ob("store-liquidation:flag-and-size", not bad_l and seen["Liquidation"] >= 1 and seen["other"] >= 1,
           "paths to the decrease: %s; is_liquidation_order <=> SecondaryOrderType::Liquidation, and every liquidation path required "
           "size_delta_usd >= position.size_in_usd() on the operands of decrease%s" % (seen, "; VIOLATED %s" % bad_l[:2] if bad_l else ""), where=f.where())
    ctx.ob("store-adl:required-and-valid", not bad_a and seen["AutoDeleveraging"] >= 1,
           "every ADL path (%d) has pnl_factor_exceeded(ForAdl)=Some before the decrease, then before > after and after >= pnl_factor_config(MinAfterAdl)%s" % (
               seen["AutoDeleveraging"], "; VIOLATED %s" % bad_a[:2] if bad_a else ""), where=f.where())
    cls = [c for c in prog.closures_of(f) if any(str(e) == "exceeded.pnl_factor" for _, _, e in c.exits())]
    ctx.ob("store-adl:before-is-exceeded-factor", len(cls) == 1, "the `before` value is `exceeded.pnl_factor` of pnl_factor_exceeded (closure found: %d)" % len(cls), where=f.where())
    pe = ctx.fn(r"gmsol_model::market::base::BaseMarketExt::pnl_factor_exceeded")
    if pe is not None:
        ps2 = H.success_paths(pe)
        flags = set()
        for p in ps2:
            r = dict(p["ret"].a[1])["0"]
            if r.k == "call" and r.a[0] == "bool::then":
                flags.add(str(r.a[1][0]))
            else:
                flags.add("?" + str(r)[:60])
        want = {"false", "PartialOrd::gt(UnsignedAbs::unsigned_abs(BaseMarketExt::pnl_factor_with_pool_value(self, prices, is_long, true)?.0), "
                         "BaseMarket::pnl_factor_config(self, kind, is_long)?)"}
        pos_ok = all(H.path_truth(p, r"^Signed::is_positive\(BaseMarketExt::pnl_factor_with_pool_value\(self, prices, is_long, true\)\?\.0\)$") is
                     (str(dict(p["ret"].a[1])["0"].a[1][0]) != "false") for p in ps2 if dict(p["ret"].a[1])["0"].k == "call")
        cl = prog.closures_of(pe)
        cl_ok = len(cl) == 1 and any(re.match(r"^PnlFactorExceeded\{pnl_factor: \^pnl_factor, max_pnl_factor: \^max_pnl_factor, pool_value: \^pool_value\}$", str(e))
                                     for _, _, e in cl[0].exits())
        ctx.ob("store-adl:pnl_factor_exceeded", flags == want and pos_ok and cl_ok,
               "pnl_factor_exceeded(kind) is Some exactly when pnl_factor is positive and |pnl_factor| > pnl_factor_config(kind, is_long); "
               "it reports that pnl_factor (flags: %s; closure ok: %s)" % (sorted(x[:40] for x in flags), cl_ok), where=pe.where())
