"""C06 Liquidity providers cannot profit from a deposit/withdraw round trip.

Decided (A6 constant-argument table, A7 rounding, A10 finite cases, A2 ordering, A11 sign of pool_value terms):

 * deposit-valuation  : `Deposit::execute` prices the pool ONCE with pool_value(prices, MaxAfterDeposit, maximize=true), rejects a
                        negative pool value and hands |pool value| to both execute_deposit calls; `execute_deposit` values the
                        deposited amount at `price.pick_price(false)` (min), positive impact at `opposite_price.pick_price(true)`,
                        subtracts the negative impact amount from the deposited amount before valuing it, and converts through
                        usd_to_market_token_amount(usd, pool_value, total_supply, divisor) (floor).
 * withdraw-valuation : `Withdrawal::output_amounts` prices the pool with pool_value(prices, MaxAfterWithdrawal, maximize=false),
                        rejects negative and zero pool values, converts with market_token_amount_to_usd(amount, |pool|, supply) and
                        pays each side  value*side/total  divided by the MAX token price; every primitive on the way is floor.
 * pool-value-variance: inside `pool_value(maximize)`: both liquidity sides are valued with `maximize`; pnl uses `!maximize`; the
                        position-impact-pool term uses pick_price(!maximize); as a linear form  value = long + short + borrowing
                        - (capped long pnl + capped short pnl) - impact pool value; sides of pnl/cap_pnl agree.
 * first-deposit      : usd_to_market_token_amount over {divisor zero, supply zero, pool zero}: (0 supply, 0 pool) -> usd/divisor
                        (one USD per token), (0 supply, pool>0) -> (pool+usd)/divisor, otherwise supply*usd/pool; floor only.
 * order              : deposit: validate_max_pnl(MaxAfterDeposit x2) precedes everything, `mint` is the last market call and no
                        execute_deposit follows it; withdrawal: validate_reserve(both), validate_max_pnl(MaxAfterWithdrawal x2)
                        precede `burn`, which is the last market call; burn takes params.market_token_amount.
"""
import re

from .. import analyses as A
from .. import h_A as H

DEP = r"<gmsol_model::action::deposit::Deposit<M, DECIMALS> as gmsol_model::action::MarketAction>::execute"
WD = r"<gmsol_model::action::withdraw::Withdrawal<M, DECIMALS> as gmsol_model::action::MarketAction>::execute"


def _s(cs, i):
    return str(H.arg_at(cs, i)) if i < len(cs.args) else "<no-arg>"


def _calls(f, name_re):
    return [c for c in f.calls if re.search(name_re, c.short)]


def _vcalls(prog, f, name_re):
    """Call sites of f and of the private helpers / local closures it enters, in f's vocabulary (see h_A.vcalls)."""
    return [v for v in H.vcalls(prog, f) if re.search(name_re, v.short)]


def _sv(v, i):
    return str(v.arg(i))


def _tried(f, c):
    """The result of call c is consumed by `?` (directly, or after ok_or/map_err)."""
    t = c.target
    for _ in range(4):
        if t is None:
            return False
        nxt = f.call_in_block(t)
        if nxt is None:
            return False
        if nxt.short == "Try::branch":
            return True
        if nxt.short in ("Option::ok_or", "Option::ok_or_else", "Result::map_err"):
            t = nxt.target
            continue
        return False
    return False


def run(ctx):
    prog = ctx.prog(["gmsol_model"])
    ctx.explanation = (
        "Direction table of the LP round trip: a deposit is valued against the MAXIMISED pool (MaxAfterDeposit) with the input at "
        "the MIN price, a withdrawal against the MINIMISED pool (MaxAfterWithdrawal) and paid at the MAX price; all conversions "
        "round down; inside pool_value the added terms follow `maximize` and the subtracted terms `!maximize`; the first deposit "
        "is priced at usd/divisor; validations precede and mint/burn end the action.")
    ctx.not_decided = (
        "The round-trip inequality and 'does not lower the token value for other LPs' themselves (value reasoning over these "
        "directions); the amount that reaches the valuation after `charge_fees(&mut amount)` (mutation through &mut is not tracked; "
        "fee split is C02); pnl / borrowing terms' own arithmetic (C11, C13).")
    ctx.rule("deposit-valuation", "deposit: pool maximised once, input at min price, positive impact at max opposite price, floor conversion")
    ctx.rule("withdraw-valuation", "withdrawal: pool minimised, zero/negative pool rejected, payouts floor at max price")
    ctx.rule("pool-value-variance", "pool_value: added terms take maximize, subtracted terms !maximize; sign of each term")
    ctx.rule("first-deposit", "usd_to_market_token_amount three-way split; floor only")
    ctx.rule("order", "validations first, mint/burn last")

    _deposit(ctx, prog)
    _withdraw(ctx, prog)
    _pool_value(ctx, prog)
    _first(ctx)


# ----------------------------------------------------------------------------------------------- deposit


def _deposit(ctx, prog):
    f = ctx.fn(DEP)
    if f is None:
        return
    pv = _calls(f, r"^LiquidityMarketExt::pool_value$")
    ok = len(pv) == 1 and [_s(pv[0], i) for i in (1, 2, 3)] == ["self.params.prices", "PnlFactorKind::MaxAfterDeposit{}", "true"] and _tried(f, pv[0])
    ctx.ob("deposit-valuation:pool_value", ok, "Deposit::execute values the pool once: pool_value(%s)" % (
        [[_s(c, i) for i in (1, 2, 3)] for c in pv]), where=f.where())
    PV = "UnsignedAbs::unsigned_abs(LiquidityMarketExt::pool_value(self.market, self.params.prices, PnlFactorKind::MaxAfterDeposit{}, true)?)"
    ex = _calls(f, r"^Deposit::execute_deposit$")
    sides = sorted(_s(c, 1) for c in ex)
    ok = sides == ["false", "true"] and all(_s(c, 2) == PV for c in ex) and all(_tried(f, c) for c in ex)
    neg_guard = all(any((not t) and re.match(r"^Signed::is_negative\(LiquidityMarketExt::pool_value\(", str(g)) for g, t in f.bool_guards(c.bb)) for c in ex)
    ctx.ob("deposit-valuation:execute_deposit-args", ok and neg_guard,
           "execute_deposit is called for sides %s with |pool_value(MaxAfterDeposit, true)| and only when that value is not negative (%s)" % (sides, neg_guard), where=f.where())
    # impact share per side: side_usd * impact / (long_usd + short_usd), floor of magnitude
    SHARE = r"^MulDiv::checked_mul_div_with_signed_numerator$"
    shares = _vcalls(prog, f, SHARE)
    got = sorted((_sv(c, 0), _sv(c, 1), str(H.peel(c.arg(2), calls=("Option::ok_or",)))) for c in shares)
    PI = "Deposit::price_impact(self)?"
    tot = "CheckedAdd::checked_add(%s.long_token_usd_value, %s.short_token_usd_value)" % (PI, PI)
    want = sorted([("%s.long_token_usd_value" % PI, "%s.price_impact.value" % PI, tot), ("%s.short_token_usd_value" % PI, "%s.price_impact.value" % PI, tot)])
    ctx.ob("deposit-valuation:impact-share", got == want, "per-side impact = side_usd * impact / (long_usd + short_usd) with the floor mul-div: %s" % got, where=f.where())
    for c in ex:
        side = _s(c, 1)
        v = H.inline_calls(prog, f, H.arg_at(c, 3), SHARE)      # the share may be computed by a private helper
        fl = dict(v.a[1]) if v.k == "agg" else {}
        val = H.peel(fl.get("value"), calls=("Option::ok_or",)) if "value" in fl else None
        want_usd = "%s.%s_token_usd_value" % (PI, "long" if side == "true" else "short")
        ctx.ob("deposit-valuation:impact-share:" + ("long" if side == "true" else "short"),
               val is not None and H.is_call(val, r"checked_mul_div_with_signed_numerator$") and str(H.call_args(val)[0]) == want_usd
               and str(fl.get("balance_change")) == "%s.price_impact.balance_change" % PI,
               "execute_deposit(%s) receives the share computed from %s" % (side, want_usd), where=c.where())
    # order
    vm = _calls(f, r"^BaseMarketExt::validate_max_pnl$")
    okv = len(vm) == 1 and [_s(vm[0], i) for i in (1, 2, 3)] == ["self.params.prices", "PnlFactorKind::MaxAfterDeposit{}", "PnlFactorKind::MaxAfterDeposit{}"] and _tried(f, vm[0])
    market_calls = [c for c in f.calls if c is not (vm[0] if vm else None) and c.args and re.search(r"^self(\.market)?$", str(c.arg_expr(0)))
                    and re.search(r"(pool_value|execute_deposit|price_impact|mint)$", c.short)]
    dom = bool(vm) and all(f.dominates(vm[0].bb, c.bb) and c.bb != vm[0].bb for c in market_calls)
    ctx.ob("order:deposit:validate_max_pnl-first", okv and dom and len(market_calls) >= 5,
           "validate_max_pnl(prices, MaxAfterDeposit, MaxAfterDeposit)? dominates pool_value / price_impact / execute_deposit / mint (%d calls)" % len(market_calls), where=f.where())
    mint = _calls(f, r"^LiquidityMarketMut::mint$")
    okm = len(mint) == 1 and _tried(f, mint[0])
    after = []
    if mint:
        r = f.reachable_from(mint[0].target) if mint[0].target is not None else set()
        after = sorted(set(c.short for c in f.calls if c.bb in r and re.search(r"(execute_deposit|apply_delta|pool_value|usd_to_market_token_amount|mint)$", c.short)))
        minted = str(H.arg_at(mint[0], 1))
        okm = okm and re.match(r"^DepositReport::new\(.*\)\.minted$", minted) is not None
    ctx.ob("order:deposit:mint-last", okm and not after, "mint(report.minted)? is called once, after every execute_deposit; market calls after it: %s" % after, where=f.where())
    g = ctx.fn(r"gmsol_model::action::deposit::DepositReport::<T, <T as gmsol_model::num::Unsigned>::Signed>::new")
    if g is not None:
        vs = H.value_paths(g)
        fl = dict(vs[0].ret.a[1]) if len(vs) == 1 and vs[0].ret.k == "agg" else {}
        ctx.ob("order:deposit:report-minted", str(fl.get("minted")) == "minted", "DepositReport::new stores `minted` in .minted (%s)" % {k: str(v) for k, v in fl.items()}, where=g.where())
    if mint:
        # minted argument of DepositReport::new is the checked sum of the per-side mint amounts
        rep = [c for c in f.calls if c.short == "DepositReport::new"]
        if rep:
            m = H.arg_at(rep[0], 2)
            try:
                forms = H.linforms(m, lambda y: "MINT[%s]" % H.call_args(H.peel(y.a[0]))[1] if y.k == "field" and y.a[1] == "0" and H.is_call(H.peel(y.a[0]), r"^Deposit::execute_deposit$") else None)
            except H.NotLinear as ex:
                forms = {("nonlinear",)}
            want = {(), (("MINT[true]", 1),), (("MINT[false]", 1),), (("MINT[false]", 1), ("MINT[true]", 1))}
            ctx.ob("deposit-valuation:minted-sum", forms <= want and (("MINT[false]", 1), ("MINT[true]", 1)) in forms,
                   "minted = sum of the per-side execute_deposit mint amounts (checked_add): %s" % sorted(map(str, forms)), where=f.where())

    # ---- execute_deposit
    g = ctx.fn(r"gmsol_model::action::deposit::Deposit::<M, DECIMALS>::execute_deposit")
    if g is None:
        return
    RV = "DepositParams::reassign_values(self.params, is_long_token)"
    conv = _calls(g, r"^utils::usd_to_market_token_amount$")
    rows = {}
    for c in conv:
        usd = H.peel(H.arg_at(c, 0), calls=("Option::ok_or",))
        rest = [_s(c, i) for i in (1, 2, 3)]
        pos = any(t and re.match(r"^Signed::is_positive\(", str(x)) for x, t in g.bool_guards(c.bb))
        if not H.is_call(usd, r"^CheckedMul::checked_mul$"):
            rows["?"] = str(usd)[:100]
            continue
        amt, price = H.call_args(usd)
        rows["positive-impact" if pos else "deposit"] = (amt, str(price), rest, _tried(g, c))
    rest_want = ["pool_value", "LiquidityMarket::total_supply(self.market)", "BaseMarket::usd_to_amount_divisor(self.market)"]
    r = rows.get("deposit")
    ok = r is not None and r[1] == "Price::pick_price(%s.price, false)" % RV and r[2] == rest_want and r[3]
    if ok:
        forms = []
        for a in r[0].alts():
            try:
                forms.append(H.linform(a, lambda y: "NEG_IMPACT_AMOUNT" if H.is_call(y, r"apply_swap_impact_value_with_cap$") and
                                       [str(z) for z in H.call_args(y)[1:3]] == ["is_long_token", "%s.price" % RV] else None))
            except H.NotLinear:
                forms.append({"nonlinear": 1})
        ok = all(x in ({"%s.amount" % RV: 1}, {"%s.amount" % RV: 1, "NEG_IMPACT_AMOUNT": -1}) for x in forms) and {"%s.amount" % RV: 1, "NEG_IMPACT_AMOUNT": -1} in forms
        r = (forms, r[1], r[2])
    ctx.ob("deposit-valuation:input-at-min-price", ok,
           "deposited amount [minus negative impact amount of the same side/price] is valued at price.pick_price(false) and converted with (pool_value, total_supply, divisor): %s" % (r,),
           where=g.where())
    r = rows.get("positive-impact")
    ok = r is not None and r[1] == "Price::pick_price(%s.opposite_price, true)" % RV and r[2] == rest_want and r[3]
    if ok:
        a = H.peel(r[0])
        ok = H.is_call(a, r"apply_swap_impact_value_with_cap$") and [str(z) for z in H.call_args(a)[1:3]] == ["Not(is_long_token)", "%s.opposite_price" % RV]
    ctx.ob("deposit-valuation:positive-impact-at-opposite-max", ok,
           "positive impact amount = apply_swap_impact_value_with_cap(!is_long_token, opposite_price, impact) valued at opposite_price.pick_price(true): %s" % (
               ((str(r[0])[:140], r[1]) if r else None),), where=g.where())
    ctx.floor("deposit-valuation:conversions", len(conv), 2)
    # negative impact arm guard; first-deposit positive impact zeroed
    caps = _calls(g, r"apply_swap_impact_value_with_cap$")
    arms = {}
    for c in caps:
        gs = [(re.sub(r"\(.*$", "", str(x)), t) for x, t in g.bool_guards(c.bb)]
        arms[_s(c, 1)] = gs
    ctx.ob("deposit-valuation:impact-arms", arms.get("Not(is_long_token)") == [("Signed::is_positive", True)] and
           sorted(arms.get("is_long_token", [])) == [("Signed::is_negative", True), ("Signed::is_positive", False)],
           "impact pool is touched on the opposite side only under is_positive(impact) and on the deposit side only under is_negative(impact): %s" % arms, where=g.where())
    # zero pool value with supply rejected
    errs = [bb for bb, k, e in g.exits() if k == "err"]
    zg = any(any(t and re.match(r"^Zero::is_zero\(pool_value\)$", str(x)) for x, t in g.bool_guards(bb)) and
             any((not t) and re.match(r"^Zero::is_zero\(LiquidityMarket::total_supply", str(x)) for x, t in g.bool_guards(bb)) for bb in errs)
    ctx.ob("deposit-valuation:zero-pool-with-supply", zg, "pool_value == 0 with non-zero supply is rejected (Err under that guard)", where=g.where())
    h = ctx.fn(r"gmsol_model::action::deposit::DepositParams::<T>::reassign_values")
    if h is not None:
        tab = {}
        for p in H.value_paths(h):
            t = True if p.holds(r"^is_long_token$", True) else (False if p.holds(r"^is_long_token$", False) else None)
            tab[t] = {k: str(v) for k, v in p.ret.a[1]} if p.ret.k == "agg" else str(p.ret)
        want = {True: {"amount": "self.long_token_amount", "price": "DepositParams::long_token_price(self)", "opposite_price": "DepositParams::short_token_price(self)"},
                False: {"amount": "self.short_token_amount", "price": "DepositParams::short_token_price(self)", "opposite_price": "DepositParams::long_token_price(self)"}}
        ctx.ob("deposit-valuation:reassign", tab == want, "DepositParams::reassign_values: %s" % tab, where=h.where())
    for nm in ("long_token_price", "short_token_price"):
        h = ctx.fn(r"gmsol_model::action::deposit::DepositParams::<T>::" + nm)
        if h is not None:
            vs = [str(p.ret) for p in H.value_paths(h)]
            ctx.ob("deposit-valuation:DepositParams::" + nm, vs == ["self.prices.%s" % nm], "DepositParams::%s() = %s" % (nm, vs), where=h.where())


# ----------------------------------------------------------------------------------------------- withdrawal


def _withdraw(ctx, prog):
    f = ctx.fn(r"gmsol_model::action::withdraw::Withdrawal::<M, DECIMALS>::output_amounts")
    if f is not None:
        pv = _calls(f, r"^LiquidityMarketExt::pool_value$")
        ok = len(pv) == 1 and [_s(pv[0], i) for i in (1, 2, 3)] == ["self.params.prices", "PnlFactorKind::MaxAfterWithdrawal{}", "false"] and _tried(f, pv[0])
        ctx.ob("withdraw-valuation:pool_value", ok, "Withdrawal::output_amounts values the pool once: pool_value(%s)" % [[_s(c, i) for i in (1, 2, 3)] for c in pv], where=f.where())
        PV = "LiquidityMarketExt::pool_value(self.market, self.params.prices, PnlFactorKind::MaxAfterWithdrawal{}, false)?"
        conv = _calls(f, r"^utils::market_token_amount_to_usd$")
        ok = len(conv) == 1 and [_s(conv[0], i) for i in (0, 1, 2)] == ["self.params.market_token_amount", "UnsignedAbs::unsigned_abs(%s)" % PV, "LiquidityMarket::total_supply(self.market)"]
        gs = [(re.sub(r"\(.*$", "", str(x)), t) for x, t in f.bool_guards(conv[0].bb)] if conv else []
        ctx.ob("withdraw-valuation:token-value", ok and ("Signed::is_negative", False) in gs and ("Zero::is_zero", False) in gs,
               "market token value = market_token_amount_to_usd(amount, |pool_value(MaxAfterWithdrawal,false)|, total_supply), only for a positive pool value (guards %s)" % gs,
               where=f.where())
        LV = "BalanceExt::long_usd_value(BaseMarket::liquidity_pool(self.market)?, Price::pick_price(WithdrawParams::long_token_price(self.params), true))?"
        SV = "BalanceExt::short_usd_value(BaseMarket::liquidity_pool(self.market)?, Price::pick_price(WithdrawParams::short_token_price(self.params), true))?"
        oks = [(bb, e) for bb, k, e in f.exits() if k == "ok"]
        good, msg = False, "no single Ok exit"
        if len(oks) == 1:
            e = H.peel(H.inline_closures(prog, H.ret_at(f, oks[0][0])))
            if e.k == "agg" and len(e.a[1]) == 2:
                outs = []
                for i, (side_v, price_fn) in enumerate(((LV, "long"), (SV, "short"))):
                    x = H.peel(e.a[1][i][1], calls=("Option::ok_or",))
                    o = False
                    if H.is_call(x, r"^CheckedDiv::checked_div$"):
                        num, den = H.call_args(x)
                        num = H.peel(num)
                        o = str(den) == "Price::pick_price(WithdrawParams::%s_token_price(self.params), true)" % price_fn and H.is_call(num, r"^MulDiv::checked_mul_div$")
                        if o:
                            a = H.call_args(num)
                            a0 = H.peel(a[0], calls=("Option::ok_or",))
                            tot = H.peel(a[2], calls=("Option::ok_or",))
                            o = H.is_call(a0, r"^utils::market_token_amount_to_usd$") and str(a[1]) == side_v and H.is_call(tot, r"^CheckedAdd::checked_add$") \
                                and sorted(str(z) for z in H.call_args(tot)) == sorted([LV, SV])
                    outs.append(o)
                good = outs == [True, True]
                msg = "(long, short) payouts well-formed: %s" % outs
        ctx.ob("withdraw-valuation:payout", good,
               "output_amounts: side payout = floor(floor(token value * side value / (long value + short value)) / side MAX price), sides valued at MAX price — %s" % msg,
               where=f.where())
        prims = sorted(set(c.short for c in f.calls if H.prim_class(c.callee)) | set(c.short for g in prog.closures_of(f) for c in g.calls if H.prim_class(c.callee)))
        ctx.ob("withdraw-valuation:floor-only", prims == ["CheckedDiv::checked_div", "MulDiv::checked_mul_div"], "rounding primitives of output_amounts (incl. closures): %s" % prims, where=f.where())
    for nm in ("long_token_price", "short_token_price"):
        h = ctx.fn(r"gmsol_model::action::withdraw::WithdrawParams::<T>::" + nm)
        if h is not None:
            vs = [str(p.ret) for p in H.value_paths(h)]
            ctx.ob("withdraw-valuation:WithdrawParams::" + nm, vs == ["self.prices.%s" % nm], "WithdrawParams::%s() = %s" % (nm, vs), where=h.where())
    f = ctx.fn(WD)
    if f is None:
        return
    burn = _calls(f, r"^LiquidityMarketMut::burn$")
    vr = _calls(f, r"^BaseMarketExt::validate_reserve$")
    vm = _calls(f, r"^BaseMarketExt::validate_max_pnl$")
    okb = len(burn) == 1 and _s(burn[0], 1) == "self.params.market_token_amount" and _tried(f, burn[0])
    sides = sorted(_s(c, 2) for c in vr)
    okv = sides == ["false", "true"] and all(_tried(f, c) for c in vr) and len(vm) == 1 and _tried(f, vm[0]) and \
        [_s(vm[0], i) for i in (1, 2, 3)] == ["self.params.prices", "PnlFactorKind::MaxAfterWithdrawal{}", "PnlFactorKind::MaxAfterWithdrawal{}"]
    dom = bool(burn) and all(f.dominates(c.bb, burn[0].bb) and c.bb != burn[0].bb for c in vr + vm)
    after = []
    if burn and burn[0].target is not None:
        r = f.reachable_from(burn[0].target)
        after = sorted(set(c.short for c in f.calls if c.bb in r and re.search(r"(apply_delta|apply_delta_amount|output_amounts|charge_fees|burn|validate_\w+)$", c.short)))
    ctx.ob("order:withdraw:validations-before-burn", okb and okv and dom and not after,
           "validate_reserve(true/false)?, validate_max_pnl(MaxAfterWithdrawal x2)? dominate burn(params.market_token_amount)?; market calls after burn: %s" % after, where=f.where())
    oa = _calls(f, r"^Withdrawal::output_amounts$")
    ctx.ob("order:withdraw:amounts-first", len(oa) == 1 and all(f.dominates(oa[0].bb, c.bb) for c in f.calls if re.search(r"(apply_delta|apply_delta_amount|burn)$", c.short)),
           "output_amounts() is evaluated (on the untouched market) before any pool delta or burn", where=f.where())
    deltas = _vcalls(prog, f, r"^BaseMarketMutExt::apply_delta$")
    neg = all(H.is_call(H.peel(c.arg(2)), r"^Unsigned::to_opposite_signed$") for c in deltas)
    ctx.ob("order:withdraw:pool-decrease", sorted(_sv(c, 1) for c in deltas) == ["false", "true"] and neg,
           "both liquidity sides are DEcreased (to_opposite_signed) on withdrawal", where=f.where())


# ----------------------------------------------------------------------------------------------- pool_value


def _pool_value(ctx, prog):
    f = ctx.fn(r"gmsol_model::market::liquidity::LiquidityMarketExt::pool_value")
    if f is None:
        return
    sides = _calls(f, r"pool_value_without_pnl_for_one_side$")
    got = sorted((_s(c, 2), _s(c, 3)) for c in sides)
    ctx.ob("pool-value-variance:sides", got == [("false", "maximize"), ("true", "maximize")], "liquidity sides valued with (is_long, maximize) = %s" % got, where=f.where())
    pnl = _vcalls(prog, f, r"^BaseMarketExt::pnl$")
    got = sorted((_sv(c, 1), _sv(c, 2), _sv(c, 3)) for c in pnl)
    ctx.ob("pool-value-variance:pnl", got == [("prices.index_token_price", "false", "Not(maximize)"), ("prices.index_token_price", "true", "Not(maximize)")],
           "pnl(index price, is_long, maximize) called with %s — the subtracted pnl takes !maximize" % got, where=f.where())
    caps = _vcalls(prog, f, r"^MarketUtils::cap_pnl$")
    okc = len(caps) == 2
    rows = []
    for c in caps:
        side = _sv(c, 1)
        p = H.peel(c.arg(2))
        v = H.peel(c.arg(3))
        rows.append((side, str(p)[:60], str(v)[:80], _sv(c, 4)))
        okc = okc and H.is_call(p, r"^BaseMarketExt::pnl$") and str(H.call_args(p)[2]) == side and H.is_call(v, r"pool_value_without_pnl_for_one_side$") \
            and str(H.call_args(v)[2]) == side and _sv(c, 4) == "pnl_factor"
    ctx.ob("pool-value-variance:cap_pnl", okc and sorted(r[0] for r in rows) == ["false", "true"],
           "cap_pnl(is_long, pnl(is_long), side value(is_long), pnl_factor) — sides agree: %s" % rows, where=f.where())
    ip = [c for c in f.calls if c.short == "Price::pick_price" and re.search(r"index_token_price", _s(c, 0))]
    ctx.ob("pool-value-variance:impact-pool-price", bool(ip) and all(_s(c, 1) == "Not(maximize)" for c in ip),
           "position impact pool is valued at index price pick_price(%s)" % sorted(set(_s(c, 1) for c in ip)), where=f.where())
    oks = [(bb, e) for bb, k, e in f.exits() if k == "ok"]
    lf = None
    if len(oks) == 1:
        def atom(y):
            y0 = H.peel(y, calls=("Option::ok_or",))
            if H.is_call(y0, r"pool_value_without_pnl_for_one_side$"):
                return "SIDE[%s]" % H.call_args(y0)[2]
            if H.is_call(y0, r"^MarketUtils::cap_pnl$"):
                return "PNL[%s]" % H.call_args(y0)[1]
            if H.is_call(y0, r"^CheckedMul::checked_mul$") and re.search(r"pending_position_impact_pool_distribution_amount", str(H.call_args(y0)[0])):
                return "IMPACT_POOL"
            if H.is_call(y0, r"^Option::and_then$") or H.is_call(y0, r"^utils::apply_factor$"):
                return "BORROWING"
            return None
        try:
            lf = H.linform(H.inline_calls(prog, f, H.ret_at(f, oks[0][0]), r"^MarketUtils::cap_pnl$"), atom)
        except H.NotLinear as ex:
            lf = {"nonlinear": str(ex)}
    want = {"SIDE[true]": 1, "SIDE[false]": 1, "BORROWING": 1, "PNL[true]": -1, "PNL[false]": -1, "IMPACT_POOL": -1}
    ctx.ob("pool-value-variance:signs", lf == want, "pool_value = %s (want +long +short +borrowing -pnl(long) -pnl(short) -impact pool)" % lf, where=f.where())
    g = ctx.fn(r"gmsol_model::market::base::BaseMarketExt::pool_value_without_pnl_for_one_side")
    if g is not None:
        tab = {}
        for p in H.value_paths(g):
            t = True if p.holds(r"^is_long$", True) else (False if p.holds(r"^is_long$", False) else None)
            tab[t] = str(H.peel(p.ret))
        want = {True: "BalanceExt::long_usd_value(BaseMarket::liquidity_pool(self)?, Price::pick_price(prices.long_token_price, maximize))",
                False: "BalanceExt::short_usd_value(BaseMarket::liquidity_pool(self)?, Price::pick_price(prices.short_token_price, maximize))"}
        ctx.ob("pool-value-variance:one-side", tab == want, "pool_value_without_pnl_for_one_side: %s" % tab, where=g.where())
    g = ctx.fn(r"gmsol_model::price::Price::<T>::pick_price")
    if g is not None:
        tab = {}
        for p in H.value_paths(g):
            t = True if p.holds(r"^maximize$", True) else (False if p.holds(r"^maximize$", False) else None)
            tab.setdefault(t, set()).add(str(p.ret))
        ctx.ob("pool-value-variance:pick_price", tab == {True: {"self.max"}, False: {"self.min"}}, "Price::pick_price: maximize -> %s" % {k: sorted(v) for k, v in tab.items()},
               where=g.where())


# ----------------------------------------------------------------------------------------------- first deposit


def _first(ctx):
    f = ctx.fn(r"gmsol_model::utils::usd_to_market_token_amount")
    if f is None:
        return

    def atomize(x):
        return {"Zero::is_zero(usd_to_amount_divisor)": "div0", "Zero::is_zero(supply)": "supply0", "Zero::is_zero(pool_value)": "pool0"}.get(str(x))
    cases, bad = 0, []
    try:
        for _r, b, sel in H.finite_eval(f, atomize, [], ["div0", "supply0", "pool0"], ignore=r"trybranch"):
            cases += 1
            vals = [p for p in sel if H.retkind(p.ret) == "value"]
            nones = [p for p in sel if H.retkind(p.ret) == "none"]
            if b["div0"]:
                if vals or not nones:
                    bad.append("zero divisor must give None")
                continue
            if not vals:
                bad.append("%s: no value path" % b)
            for p in vals:
                e = H.peel(p.ret)
                if b["supply0"] and b["pool0"]:
                    ok = H.is_call(e, r"^CheckedDiv::checked_div$") and [str(a) for a in H.call_args(e)] == ["usd_value", "usd_to_amount_divisor"]
                elif b["supply0"]:
                    ok = H.is_call(e, r"^CheckedDiv::checked_div$") and str(H.call_args(e)[1]) == "usd_to_amount_divisor" and \
                        H.linform(H.call_args(e)[0]) == {"pool_value": 1, "usd_value": 1}
                else:
                    ok = H.is_call(e, r"^MulDiv::checked_mul_div$") and sorted(str(a) for a in H.call_args(e)[:2]) == ["supply", "usd_value"] and str(H.call_args(e)[2]) == "pool_value"
                if not ok:
                    bad.append("%s: %s" % (b, e))
    except H.OutOfFragment as ex:
        bad.append("no longer finitely evaluable: %s" % ex)
    ctx.ob("first-deposit:table", not bad,
           "usd_to_market_token_amount over %d cases: empty pool -> usd/divisor; supply 0 & pool>0 -> (pool+usd)/divisor; else floor(supply*usd/pool); zero divisor -> None%s" % (
               cases, "; VIOLATED: %s" % bad if bad else ""), where=f.where(), detail={"exhaustive": True, "cases": cases})
    ctx.floor("first-deposit", cases, 8)
    prims = sorted(set((c.short, H.prim_class(c.callee)) for c in f.calls if H.prim_class(c.callee)))
    ctx.ob("first-deposit:floor-only", bool(prims) and all(k == "floor" for _, k in prims), "rounding primitives: %s" % prims, where=f.where())
    g = ctx.fn(r"gmsol_model::utils::market_token_amount_to_usd")
    if g is not None:
        vs = [str(H.peel(p.ret)) for p in H.value_paths(g)]
        ctx.ob("first-deposit:market_token_amount_to_usd", vs == ["MulDiv::checked_mul_div(pool_value, amount, supply)"], "market_token_amount_to_usd = floor(pool_value*amount/supply): %s" % vs,
               where=g.where())
