"""C29 An adjusted oracle price stays inside the allowed band.

Decided on `try_adjust_price_with_max_deviation_factor` / `try_adjust_price` / their call site:
 * clamp          : `.max` of the adjusted copy is stored only on the true edge of `|max - ref| > dev`, with the value
                    `price.max.with_unit_price(ref.checked_add(dev)?, round_up = false)?`; `.min` only on the true edge
                    of `|min - ref| > dev`, with `price.min.with_unit_price(ref.checked_sub(dev)?, round_up = true)?`
                    (upper bound: add / round down; lower bound: sub / round up — rounding inwards); nothing else is
                    stored; every arithmetic failure propagates None (price is then left unadjusted and still has to
                    pass validation).
 * reference      : ref is `ref_price.to_unit_price()` on the Some edge and `unit_prices.checked_mid()?` on the None
                    edge; dev = apply_factor(ref, factor)?; the copy starts from `*price`.
 * enabled-only   : the adjustment is invoked only under `token_config.is_price_adjustment_allowed()`, with the
                    feed's own `max_deviation_factor()`; `parts.price` is replaced only by a Some result; the two
                    functions have no other caller.
 * revalidated    : the (possibly adjusted) price returned by parse_from_feed_account is what `validate_one`
                    (deviation guards, C24) checks before `PriceMap::set`, and `SmallPrices::from_price` returns Ok only
                    with max >= min — an adjustment that produced an inverted or still-out-of-band price is rejected.
"""
import re

from .. import analyses as A
from .. import h_D as H

OR = r"gmsol_store::states::oracle::"
REF = r"phi\(Decimal::to_unit_price\(ref_price@Some\.0\) \| Price::checked_mid\(price\)\?\)"
DEV = r"utils::apply_factor\(%s, factor\)\?" % REF


def run(ctx):
    prog = ctx.prog(["gmsol_store", "gmsol_utils"])
    ctx.explanation = (
        "The clamp is decided structurally on the MIR of the adjustment function: each of the two stores into the "
        "adjusted copy lies under the true edge of its own out-of-band comparison (dominating guards) and stores "
        "with_unit_price(ref (+|-) dev, round flag) with the side/sign/rounding triple fixed (max: add, round down; "
        "min: sub, round up); reference and deviation are identified by provenance; the call chain shows the "
        "adjustment runs only when enabled and its output is still subject to validate_one and from_price.")
    ctx.not_decided = (
        "That rounding inwards keeps the adjusted bound numerically inside the band for every decimal multiplier "
        "(value reasoning about with_unit_price, C26); the band check itself is validate_one's (C24), whose allowed "
        "deviation is rounded up by less than one price unit.")
    ctx.rule("clamp", "max/min are replaced only on their own out-of-band edge by ref+dev rounded down / ref-dev rounded up")
    ctx.rule("reference", "ref = explicit reference or checked_mid; dev = apply_factor(ref, factor); copy starts from *price")
    ctx.rule("enabled-only", "adjustment only when the token allows it, with the feed's factor; only a Some result replaces the price")
    ctx.rule("revalidated", "the adjusted price is validated by validate_one and from_price before it can be stored")

    f = ctx.fn(OR + "try_adjust_price_with_max_deviation_factor")
    g = ctx.fn(OR + "try_adjust_price")
    if f is None or g is None:
        return
    stores = H.state_stores(f, r".")
    spec = {
        "max": (r"^\(u128::abs_diff\(price\.max, %s\) Gt %s\)$" % (REF, DEV),
                r"^Decimal::with_unit_price\(price\.max, u128::checked_add\(%s, %s\)\?, false\)\?$" % (REF, DEV)),
        "min": (r"^\(u128::abs_diff\(price\.min, %s\) Gt %s\)$" % (REF, DEV),
                r"^Decimal::with_unit_price\(price\.min, u128::checked_sub\(%s, %s\)\?, true\)\?$" % (REF, DEV)),
    }
    seen = {}
    for w in stores:
        m = re.match(r"^Option::get_or_insert\(Option::None\{\}, price\)\.(max|min)$", w["path"])
        side = m.group(1) if m else w["path"]
        seen.setdefault(side, []).append(w)
    for side, (cond_re, val_re) in spec.items():
        ws = seen.get(side, [])
        ok = len(ws) == 1
        msg = "%d store(s) into adjusted.%s" % (len(ws), side)
        if ok:
            w = ws[0]
            gd = H.guarded(f, w["bb"], cond_re, True)
            val = re.match(val_re, str(w["rv"])) is not None
            ok = gd and val
            msg += "; under `|price.%s - ref| > dev` == true: %s; value = with_unit_price(price.%s, ref %s dev, round_up=%s): %s (%s)" % (
                side, gd, side, "+" if side == "max" else "-", "false" if side == "max" else "true", val, H.sx(w["rv"], 150))
        ctx.ob("clamp:" + side, ok, "adjust: " + msg, where=f.where(), detail={"guards": [H.guard_list(f, w["bb"], 3, 200) for w in ws]})
    extra = sorted(k for k in seen if k not in spec)
    ctx.ob("clamp:no-other-store", not extra, "no other store in the adjustment function: %s" % extra, where=f.where())
    # failures propagate None: every fallible step is `?`-propagated (no unwrap_or / default)
    steps = [c for c in f.calls if c.short in ("u128::checked_add", "u128::checked_sub", "Decimal::with_unit_price", "utils::apply_factor", "Price::checked_mid")]
    bad = [c.short for c in steps if not H.propagated(f, c)]
    ctx.ob("clamp:failures-propagate", not bad and len(steps) == 6, "the 6 fallible steps (%s) are all `?`-propagated; not propagated: %s" % (sorted(set(c.short for c in steps)), bad), where=f.where())
    # the comparison is strict and the in-band edge stores nothing
    sws = H.bool_switches(f, r"^\(u128::abs_diff\(price\.(max|min), ")
    ok = len(sws) == 2
    for sw in sws:
        side = re.match(r"^\(u128::abs_diff\(price\.(max|min), ", str(sw["cond"])).group(1)
        own = [w["bb"] for w in seen.get(side, [])]
        # from the false (in band) edge the side's own store is unreachable
        ok = ok and not any(b in f.reachable_from(sw["false"]) for b in own)
    ctx.ob("clamp:in-band-untouched", ok, "an in-band bound is never rewritten (false edge of its comparison does not reach its store): %s" % ok, where=f.where())
    ctx.floor("clamp", 5, 5)

    # reference
    tu = [c for c in f.calls if c.short == "Decimal::to_unit_price"]
    cm = [c for c in f.calls if c.short == "Price::checked_mid"]
    ok = len(tu) == 1 and len(cm) == 1 and str(tu[0].arg_expr(0)) == "ref_price@Some.0" and str(cm[0].arg_expr(0)) == "price" \
        and H.discr_guarded(f, tu[0].bb, r"^ref_price$", {1}) and H.discr_guarded(f, cm[0].bb, r"^ref_price$", {0})
    ctx.ob("reference:explicit-or-mid", ok, "ref = ref_price.to_unit_price() on Some, unit_prices.checked_mid()? on None: %s" % ok, where=f.where())
    af = [c for c in f.calls if c.short == "utils::apply_factor"]
    ok = len(af) == 1 and re.match("^" + REF + "$", str(af[0].arg_expr(0))) is not None and str(af[0].arg_expr(1)) == "factor"
    ctx.ob("reference:deviation", ok, "dev = apply_factor(ref, factor): %s" % [H.sx(c.arg_expr(0), 120) for c in af], where=f.where())
    gi = [c for c in f.calls if c.short == "Option::get_or_insert"]
    ok = len(gi) == 2 and all(str(c.arg_expr(1)) == "price" for c in gi)
    ctx.ob("reference:copy-of-input", ok, "the adjusted value starts as a copy of `*price` (%d get_or_insert sites)" % len(gi), where=f.where())
    ctx.floor("reference", 3, 3)

    # enabled-only
    pf = ctx.fn(OR + "OraclePrice::parse_from_feed_account")
    if pf is not None:
        cs = [c for c in pf.calls if c.short == "oracle::try_adjust_price"]
        ok = len(cs) == 1 and H.guarded(pf, cs[0].bb, r"^TokenConfig::is_price_adjustment_allowed\(token_config\)$", True) and H.propagated(pf, cs[0]) \
            and re.match(r"^Result::map_err\(TokenConfig::get_feed_config\(token_config, .*\), fn:From::from\)\?$", str(cs[0].arg_expr(0))) is not None
        ctx.ob("enabled-only:call-site", ok, "try_adjust_price(feed_config(provider), &mut parts) only under token_config.is_price_adjustment_allowed(): %s" % ok, where=pf.where())
    inner = [c for c in g.calls if c.short == "oracle::try_adjust_price_with_max_deviation_factor"]
    ok = len(inner) == 1 and [str(inner[0].arg_expr(i)) for i in range(3)] == ["FeedConfig::max_deviation_factor(feed_config)@Some.0", "parts.price", "Option::as_ref(parts.ref_price)"]
    ws = H.state_stores(g, r".")
    ok2 = len(ws) == 1 and ws[0]["path"] == "parts.price" and re.match(r"^oracle::try_adjust_price_with_max_deviation_factor\(.*\)@Some\.0$", str(ws[0]["rv"])) is not None \
        and H.discr_guarded(g, ws[0]["bb"], r"^oracle::try_adjust_price_with_max_deviation_factor\(", {1})
    ctx.ob("enabled-only:try_adjust_price", ok and ok2,
           "try_adjust_price uses feed_config.max_deviation_factor() on (parts.price, parts.ref_price) (%s) and replaces parts.price only with a Some result (%s)" % (ok, ok2), where=g.where())
    c1, b1 = H.callers_within(prog, f, OR + r"try_adjust_price$")
    c2, b2 = H.callers_within(prog, g, OR + r"OraclePrice::parse_from_feed_account$")
    ctx.ob("enabled-only:callers", not b1 and not b2 and len(c1) == 1 and len(c2) == 1,
           "callers: adjust <- %s, try_adjust_price <- %s" % ([c.fn.short for c in c1], [c.fn.short for c in c2]), where=g.where())
    tcf = ctx.fn(r"gmsol_utils::token_config::TokenConfig::max_deviation_factor")
    if tcf is not None:
        oks = [str(e) for _, e in H.ok_exits(tcf)]
        ctx.ob("enabled-only:same-factor", oks == ["Result::Ok{0: FeedConfig::max_deviation_factor(TokenConfig::get_feed_config(self, price_provider)?)}"],
               "validate_one's factor (TokenConfig::max_deviation_factor(provider)) is the same feed_config(provider).max_deviation_factor(): %s" % oks, where=tcf.where())
    ctx.floor("enabled-only", 4, 4)

    # revalidated
    sp = ctx.fn(OR + "Oracle::set_prices_from_remaining_accounts")
    if sp is not None and pf is not None:
        cs, bad = H.callers_within(prog, pf, OR + r"Oracle::set_prices_from_remaining_accounts$")
        p = [c for c in sp.calls if c.short == "OraclePrice::parse_from_feed_account"]
        v = [c for c in sp.calls if c.short == "PriceValidator::validate_one"]
        s = [c for c in sp.calls if c.short == "PriceMap::set"]
        ok = not bad and len(p) == 1 and len(v) == 1 and len(s) == 1
        if ok:
            PARSED = str(sp._call_expr(p[0], 0, ())) + "?"
            ok = str(v[0].arg_expr(5)) == PARSED + ".parts.price" and str(s[0].arg_expr(2)) == PARSED + ".parts.price" \
                and H.propagated(sp, v[0]) and sp.dominates(H.ok_edge(sp, v[0]), s[0].bb)
        ctx.ob("revalidated:validate_one", ok, "the price returned by parse_from_feed_account (after adjustment) is the one validate_one checks and PriceMap::set stores, in that order: %s" % ok, where=sp.where())
    vo = ctx.fn(OR + "validator::PriceValidator::validate_one")
    if vo is not None:
        sws = H.bool_switches(vo, r" Lt u128::abs_diff\(price\.(max|min), ")
        oks = sorted(vo.ok_exit_blocks())
        ok = len(sws) == 2 and all(not any(b in vo.reachable_from(sw["true"]) for b in oks) for sw in sws)
        ctx.ob("revalidated:deviation-guards", ok, "validate_one still has both deviation comparisons, whose failing edge reaches no Ok exit (%d): %s" % (len(sws), ok), where=vo.where())
    fp = ctx.fn(OR + "price_map::SmallPrices::from_price")
    if fp is not None:
        fs = [A.cmp_facts(fp, bb) for bb, _ in H.ok_exits(fp)]
        ok = bool(fs) and all(A.has_fact(x, ">=", r"^price\.max\.value$", r"^price\.min\.value$") for x in fs)
        ctx.ob("revalidated:from_price", ok, "from_price returns Ok only with max.value >= min.value (inverted adjusted prices are rejected): %s" % ok, where=fp.where())
    ctx.floor("revalidated", 3, 3)
