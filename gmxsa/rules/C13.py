"""C13 Borrowing accounting never goes negative.

Decided (structural, necessary):
 * order + provenance: on every success path of IncreasePosition::execute and DecreasePosition::execute,
   update_total_borrowing(position, next_size, next_factor)? runs before every store through size_in_usd_mut /
   borrowing_factor_mut, exactly once; next_factor is the value later stored into the position's borrowing factor and
   (unless the position is zeroed) next_size is the value later stored into size_in_usd;
   next_factor = cumulative_borrowing_factor(market, is_long(position));
 * update_total_borrowing itself: delta = apply_factor(next_size, next_factor) -signed- apply_factor(size_in_usd(self),
   borrowing_factor(self)) applied to total_borrowing_pool_mut on side is_long(self); it writes nothing else;
 * the cumulative factor cannot decrease: UpdateBorrowingState::execute_one_side applies to_signed() of the unsigned
   product factor_per_second * duration (second component of next_cumulative_borrowing_factor; never negated) to
   borrowing_factor_pool_mut on the same side; execute runs both sides; only execute_one_side obtains
   borrowing_factor_pool_mut inside gmsol_model;
 * pending fees: total_pending_borrowing_fees = apply_factor(open_interest[side], next_factor[side]).checked_sub(
   total_borrowing[side]) with failure propagated as Err (no unwrap / saturating / wrapping); a position's
   pending_borrowing_fee_value uses checked_sub(latest_factor[is_long], position factor);
 * side selectors: BalanceExt::amount(true) = long_amount; cumulative_borrowing_factor(is_long) reads
   borrowing_factor_pool().amount(is_long).
"""
import re

from .. import analyses as A
from .. import h_B as H
from .. import anchor
from ..model import short_path

POS = r"self\.position"


def run(ctx):
    prog = ctx.prog(["gmsol_model"])
    ctx.explanation = (
        "Ordering and provenance on every success path of the two position actions (update_total_borrowing before the size / "
        "borrowing-factor stores, with the very values stored afterwards), the body of update_total_borrowing, the sign of "
        "the delta applied to the cumulative borrowing factor (to_signed of an unsigned product, both sides, single writer), "
        "and the checked subtractions of the pending-fee computations with error propagation.")
    ctx.not_decided = (
        "Equality of the recorded total borrowing with the sum over positions (history invariant; the per-operation delta "
        "is shown to be next - previous for the operated position). That the checked_sub never fails, i.e. pending fees "
        "'never fail to compute' (value-dependent; only that failure is reported as an error and never wraps is shown). "
        "In the remove arm of a decrease the size stored is zero whereas total borrowing is updated with old - delta; they "
        "agree when the close is full (see C07 for the guard).")
    for rid, txt in (
            ("borrow-order", "update_total_borrowing(next_size, next_factor)? precedes the size / borrowing-factor stores on every success path, once, with the stored values"),
            ("borrow-update", "update_total_borrowing: total_borrowing[is_long] += apply_factor(next_size,next_factor) - apply_factor(size_in_usd, borrowing_factor)"),
            ("factor-monotone", "cumulative borrowing factor += to_signed(unsigned factor_per_second*duration); both sides; single writer"),
            ("pending-checked", "pending borrowing fees use checked_sub and propagate failure"),
            ("side", "amount(is_long): true -> long; cumulative_borrowing_factor reads the borrowing factor pool by is_long")):
        ctx.rule(rid, txt)
    for nm, rx in (("increase", r"IncreasePosition<P, DECIMALS> as gmsol_model::action::MarketAction>::execute"),
                   ("decrease", r"DecreasePosition<P, DECIMALS> as gmsol_model::action::MarketAction>::execute")):
        f = ctx.fn(rx)
        if f is not None:
            _order(ctx, prog, nm, f)
    _update(ctx, prog)
    _monotone(ctx, prog)
    _pending(ctx, prog)
    _side(ctx, prog)


def _order(ctx, prog, nm, fn):
    ps = H.success_paths(fn)
    ctx.floor("borrow-order:%s:paths" % nm, len(ps), 4)
    bad = []
    n_size_eq = 0
    n_zeroed = 0
    for p in ps:
        ev = p["ev"]
        ut = H.path_calls(p, r"PositionMutExt::update_total_borrowing$")
        if len(ut) != 1:
            bad.append("update_total_borrowing called %d times on a success path" % len(ut))
            continue
        if anchor.try_switch_of(fn, ut[0]) is None:
            bad.append("its result is not propagated with `?`")
        upos = ev.pos[ut[0].bb]
        a = ev.call_args(ut[0])
        st_size = H.stores_on_path(fn, p, r"^PositionStateMut::size_in_usd_mut\(%s\)$" % POS)
        st_fac = H.stores_on_path(fn, p, r"^PositionStateMut::borrowing_factor_mut\(%s\)$" % POS)
        if len(st_size) != 1 or len(st_fac) != 1:
            bad.append("stores on path: size_in_usd x%d, borrowing_factor x%d" % (len(st_size), len(st_fac)))
            continue
        if st_size[0]["pos"] <= upos or st_fac[0]["pos"] <= upos:
            bad.append("a size / borrowing-factor store precedes update_total_borrowing")
        if str(a[0]) != "self.position":
            bad.append("applied to %s" % a[0])
        if str(st_fac[0]["value"]) != str(a[2]):
            bad.append("stored borrowing factor %s != next_factor argument %s" % (str(st_fac[0]["value"])[:80], str(a[2])[:80]))
        if not re.match(r"^BorrowingFeeMarketExt::cumulative_borrowing_factor\(Position::market\(self\.position\), Position::is_long\(self\.position\)\)\?$", str(a[2])):
            bad.append("next_factor = %s" % str(a[2])[:100])
        sv = st_size[0]["value"]
        if sv.k == "call" and sv.a[0] == "Zero::zero":
            n_zeroed += 1
        elif H.lin_of(sv) == H.lin_of(a[1]) and H.lin_of(a[1]):
            n_size_eq += 1
        else:
            bad.append("stored size %s != next_size argument %s" % (H.lin_of(sv).show()[:80], H.lin_of(a[1]).show()[:80]))
        # reads of the old size feeding next_size must precede the store
    unc = H.uncovered_stores(fn, ps, r"PositionStateMut::(size_in_usd|borrowing_factor)_mut\(%s\)$" % POS)
    if unc:
        bad.append("%d store(s) into size_in_usd / borrowing_factor lie on no analysed success path (error-only or loop body)" % len(unc))
    ctx.ob("borrow-order:" + nm, not bad and n_size_eq > 0,
           "%s: on %d success paths update_total_borrowing(position, next_size, next_factor)? runs once and before the stores; next_factor is "
           "the stored borrowing factor; next_size is the stored size on %d paths (%d paths zero the position)%s" % (
               nm, len(ps), n_size_eq, n_zeroed, "; VIOLATED: %s" % bad[:3] if bad else ""), where=fn.where())


def _update(ctx, prog):
    f = ctx.fn(r"gmsol_model::position::PositionMutExt::update_total_borrowing")
    if f is None:
        return
    ps = H.success_paths(f)
    bad = []
    for p in ps:
        ev = p["ev"]
        cs = [c for c in p["calls"] if c.short == "PoolExt::apply_delta_amount"]
        if len(cs) != 1:
            bad.append("%d applications" % len(cs))
            continue
        a = [str(x) for x in ev.call_args(cs[0])]
        want_pool = "PerpMarketMut::total_borrowing_pool_mut(PositionMut::market_mut(self))?"
        if a[0] != want_pool or a[1] != "Position::is_long(self)":
            bad.append("pool/side = %s / %s" % (a[0][:90], a[1]))
        d = ev.call_args(cs[0])[2]
        m = d.a[0] if d.k == "try" else d
        if not (m.k == "call" and m.a[0] == "Unsigned::checked_signed_sub"):
            bad.append("delta is %s" % str(d)[:100])
            continue
        nxt, prv = str(m.a[1][0]), str(m.a[1][1])
        if not re.match(r"^Option::ok_or\(utils::apply_factor\(next_size_in_usd, next_borrowing_factor\), .*\)\?$", nxt):
            bad.append("minuend %s" % nxt[:100])
        if not re.match(r"^Option::ok_or\(utils::apply_factor\(PositionState::size_in_usd\(self\), PositionState::borrowing_factor\(self\)\), .*\)\?$", prv):
            bad.append("subtrahend %s" % prv[:100])
    writes = [c.short for c in f.calls if re.search(r"_mut$", c.short) and c.short not in ("PositionMut::market_mut", "PerpMarketMut::total_borrowing_pool_mut")]
    ctx.ob("borrow-update:update_total_borrowing", not bad and len(ps) >= 1 and not writes,
           "total_borrowing_pool_mut[is_long(self)] += apply_factor(next_size, next_factor) -signed- apply_factor(size_in_usd(self), borrowing_factor(self)) "
           "on %d success path(s); other *_mut calls: %s%s" % (len(ps), writes, "; %s" % bad[:2] if bad else ""), where=f.where())
    g = ctx.fn(r"gmsol_model::num::Unsigned::checked_signed_sub")
    if g is not None:
        ps = H.success_paths(g, kinds=("ok", "unknown"))
        tab = {}
        for p in ps:
            t = H.path_truth(p, r"^PartialOrd::ge\(self, other\)$")
            tab[t] = re.sub(r"\(.*", "", str(p["ret"]))
        ctx.ob("borrow-update:checked_signed_sub", tab == {True: "Unsigned::to_signed", False: "Unsigned::to_opposite_signed"},
               "checked_signed_sub(self, other): self >= other -> +diff, else -diff: %s" % tab, where=g.where())
    cs = prog.callers_of("gmsol_model::market::perp::PerpMarketMut::total_borrowing_pool_mut")
    fns = sorted(set(c.fn.id for c in cs if c.fn.crate == "gmsol_model"))
    bad = [x for x in fns if not re.search(r"(PositionMutExt::update_total_borrowing$|^<&mut M as gmsol_model::market::perp::PerpMarketMut<DECIMALS>>::)", x)]
    ctx.ob("borrow-update:single-writer", not bad and len(fns) >= 2, "total_borrowing_pool_mut is obtained only in %s%s" % (
        [short_path(x) for x in fns], "; UNEXPECTED %s" % bad if bad else ""), where=f.where())


def _monotone(ctx, prog):
    # anchored on the public entry UpdateBorrowingState::execute; a private per-side helper may or may not exist (h_B.events
    # expands private same-file helpers, so both shapes give the same events)
    ex = ctx.fn(r"UpdateBorrowingState<M, DECIMALS> as gmsol_model::action::MarketAction>::execute")
    if ex is not None:
        ps = H.success_paths(ex)
        bad = []
        for p in ps:
            evs = H.events(ex, p)
            eff = [e for e in H.pool_effects(ex, p) if e["pool"] == "borrowing_factor"]
            sides = sorted(str(e["side"]) for e in eff)
            if sides != ["false", "true"]:
                bad.append("borrowing-factor updates for sides %s (expected one for true and one for false)" % sides)
            for e in eff:
                if str(e.get("recv")) != "BorrowingFeeMarketMut::borrowing_factor_pool_mut(self.market)?":
                    bad.append("pool = %s" % e.get("recv"))
                d = e["amount"]
                m = d.a[0] if d.k == "try" else d
                okd = m.k == "call" and m.a[0] == "Unsigned::to_signed"
                if okd:
                    r, proj = m.a[1][0], ""
                    while r.k in ("try", "field"):
                        if r.k == "field":
                            proj = "." + r.a[1] + proj
                        r = r.a[0]
                    okd = r.k == "call" and r.a[0] == "BorrowingFeeMarketExt::next_cumulative_borrowing_factor" and proj == ".1" and \
                        [str(x) for x in r.a[1][:3]] == ["self.market", str(e["side"]), "self.prices"] and \
                        re.match(r"^BorrowingFeeMarketMut::just_passed_in_seconds_for_borrowing\(self\.market\)\?$", str(r.a[1][3])) is not None
                if not okd:
                    bad.append("delta[%s] = %s" % (e["side"], str(d)[:140]))
            neg = sorted(set(e["short"] for e in evs if re.search(r"(to_opposite_signed|checked_neg|Neg::neg|checked_sub)$", e["short"])))
            if neg:
                bad.append("negating / subtracting calls: %s" % neg)
        ctx.ob("factor-monotone:execute", not bad and len(ps) >= 1,
               "UpdateBorrowingState::execute: for each side s, borrowing_factor_pool_mut[s] += to_signed(next_cumulative_borrowing_factor(market, s, prices, "
               "just_passed_seconds)?.1), nothing negated (%d path(s), private helpers expanded)%s" % (len(ps), "; VIOLATED: %s" % sorted(set(bad))[:2] if bad else ""),
               where=ex.where())
        ctx.ob("factor-monotone:both-sides", not [b for b in bad if b.startswith("borrowing-factor updates")] and len(ps) >= 1,
               "execute updates both sides exactly once on every success path (%d)" % len(ps), where=ex.where())
    g = ctx.fn(r"BorrowingFeeMarketExt::next_cumulative_borrowing_factor")
    if g is not None:
        ps = H.success_paths(g)
        bad = []
        for p in ps:
            t = dict(dict(p["ret"].a[1])["0"].a[1])
            d = t["1"]
            m = d.a[0] if d.k == "try" else d
            mm = m.a[1][0] if (m.k == "call" and m.a[0] == "Option::ok_or") else m
            okd = mm.k == "call" and mm.a[0] == "CheckedMul::checked_mul" and \
                str(mm.a[1][0]) == "BorrowingFeeMarketExt::borrowing_factor_per_second(self, is_long, prices)?" and "from_u64(duration_in_second)" in str(mm.a[1][1])
            l0 = H.lin_of(t["0"]).add(H.lin_of(d), -1)
            okn = len(l0) == 1 and list(l0.values()) == [1] and list(l0)[0].startswith("cumulative_borrowing_factor()") and len(H.lin_of(d)) == 1
            cf = [c for c in p["calls"] if c.short == "BorrowingFeeMarketExt::cumulative_borrowing_factor"]
            oks = len(cf) == 1 and [str(x) for x in p["ev"].call_args(cf[0])] == ["self", "is_long"]
            if not (okd and okn and oks):
                bad.append("delta ok=%s, next=current+delta ok=%s (%s), same side ok=%s" % (okd, okn, l0.show()[:80], oks))
        ctx.ob("factor-monotone:next_cumulative_borrowing_factor", not bad and len(ps) >= 1,
               "returns (cumulative_borrowing_factor(is_long) + delta, delta) with delta = borrowing_factor_per_second(is_long, prices) * duration (unsigned checked_mul)%s" % (
                   "; %s" % bad[:1] if bad else ""), where=g.where())
        ctx.ob("factor-monotone:unsigned-return", g.ret.count("Num") == 2 and "Signed" not in g.ret, "return type is a pair of the unsigned Num: %s" % g.ret[:120], where=g.where(), nontrivial=False)
    cs = prog.callers_of("gmsol_model::market::borrowing::BorrowingFeeMarketMut::borrowing_factor_pool_mut")
    fns = sorted(set(c.fn.id for c in cs if c.fn.crate == "gmsol_model"))
    exfile = ex.file if ex is not None else "crates/model/src/action/update_borrowing_state.rs"
    bad = [x for x in fns if not (re.search(r"^<&mut M as gmsol_model::market::borrowing::BorrowingFeeMarketMut<DECIMALS>>::", x) or
                                  (prog.fns[x].file == exfile and "UpdateBorrowingState" in x))]
    ctx.ob("factor-monotone:single-writer", not bad and len(fns) >= 2,
           "borrowing_factor_pool_mut is obtained only by UpdateBorrowingState (its execute or private helpers) and the forwarding impl: %s%s" % (
               [short_path(x) for x in fns], "; UNEXPECTED %s" % bad if bad else ""), where="crates/model/src/market/borrowing.rs")


def _pending(ctx, prog):
    f = ctx.fn(r"BorrowingFeeMarketExt::total_pending_borrowing_fees")
    if f is not None:
        ps = H.success_paths(f, kinds=("ok", "unknown"))
        want = (r"^Option::ok_or\(Option::and_then\(utils::apply_factor\(BalanceExt::amount\(BaseMarketExt::open_interest\(self\)\?, is_long\)\?, "
                r"BorrowingFeeMarketExt::next_cumulative_borrowing_factor\(self, is_long, prices, BorrowingFeeMarket::passed_in_seconds_for_borrowing\(self\)\?\)\?\.0\), "
                r"closure<.*>\), Error::Computation\{.*\}\)$")
        ok = len(ps) == 1 and re.match(want, str(ps[0]["ret"])) is not None
        cl = prog.closures_of(f)
        cl_ok = len(cl) == 1 and [str(e) for _, _, e in cl[0].exits()] == ["CheckedSub::checked_sub(total, ^total_borrowing)"]
        cap = [str(f.expr(o)) for _, _, s in f.statements() if s[0] == "=" and s[2][0] == "agg" and s[2][1] == "closure" for o in s[2][4]]
        cap_ok = cap == ["BalanceExt::amount(BorrowingFeeMarket::total_borrowing_pool(self)?, is_long)?"]
        lossy = [c.short for c in f.calls if re.search(r"(unwrap|expect|saturating|wrapping|unwrap_or)", c.short)]
        ctx.ob("pending-checked:total_pending_borrowing_fees", ok and cl_ok and cap_ok and not lossy,
               "= apply_factor(open_interest[is_long], next_factor[is_long]).and_then(|t| t.checked_sub(total_borrowing[is_long])).ok_or(Err) "
               "(shape %s, closure %s, captured %s, lossy calls %s)" % (ok, cl_ok, cap, lossy), where=f.where())
    g = ctx.fn(r"gmsol_model::position::PositionExt::pending_borrowing_fee_value")
    if g is not None:
        ps = H.success_paths(g, kinds=("ok", "unknown"))
        want = (r"^Option::ok_or\(utils::apply_factor\(PositionState::size_in_usd\(self\), Option::ok_or\(CheckedSub::checked_sub\("
                r"BorrowingFeeMarketExt::cumulative_borrowing_factor\(Position::market\(self\), Position::is_long\(self\)\)\?, PositionState::borrowing_factor\(self\)\), .*\)\?\), .*\)$")
        ok = len(ps) == 1 and re.match(want, str(ps[0]["ret"])) is not None
        ctx.ob("pending-checked:pending_borrowing_fee_value", ok,
               "= apply_factor(size_in_usd, checked_sub(cumulative_borrowing_factor(market, is_long(self)), borrowing_factor(self))?) : %s" % (
                   str(ps[0]["ret"])[:140] if ps else None), where=g.where())


def _side(ctx, prog):
    g = ctx.fn(r"gmsol_model::pool::balance::BalanceExt::amount")
    if g is not None:
        ps = H.success_paths(g, kinds=("ok", "unknown"))
        tab = {H.path_truth(p, r"^is_long$"): str(p["ret"]) for p in ps}
        ctx.ob("side:BalanceExt::amount", tab == {True: "Balance::long_amount(self)", False: "Balance::short_amount(self)"}, "amount(is_long): %s" % tab, where=g.where())
    g = ctx.fn(r"BorrowingFeeMarketExt::cumulative_borrowing_factor")
    if g is not None:
        ex = [str(e) for _, k, e in g.exits() if k != "err"]
        ctx.ob("side:cumulative_borrowing_factor", ex == ["BalanceExt::amount(BorrowingFeeMarket::borrowing_factor_pool(self)?, is_long)"],
               "cumulative_borrowing_factor(is_long) = %s" % ex, where=g.where())
    g = ctx.fn(r"gmsol_model::pool::PoolExt::apply_delta_amount")
    if g is not None:
        ps = H.success_paths(g, kinds=("ok", "unknown"))
        tab = {H.path_truth(p, r"^is_long$"): str(p["ret"]) for p in ps}
        ctx.ob("side:PoolExt::apply_delta_amount", tab == {True: "Pool::apply_delta_to_long_amount(self, delta)", False: "Pool::apply_delta_to_short_amount(self, delta)"},
               "apply_delta_amount(is_long, delta): %s" % tab, where=g.where())
