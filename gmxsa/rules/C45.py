"""C45 GLV vaults keep their composition and price in their own favour.

Decided on MIR:

 * same-tokens     Glv::insert_market inserts only under `meta.long_token_mint == self.long_token` and
                   `meta.short_token_mint == self.short_token` (long with long, short with short), the meta being the
                   store-validated meta of the market whose token is inserted; process_and_validate_markets_for_init requires every
                   further market to repeat the first market's (long, short) pair;
 * favour          GLV deposit values the vault with maximize=true and the received market tokens with maximize=false; GLV
                   withdrawal values the vault with maximize=false and converts the value to market tokens with maximize=true
                   (each constant is the choice in the vault's favour); the value helpers forward their `maximize` parameter
                   unchanged down to gmsol_model, unchecked_get_glv_value uses it for every market and sums with checked_add;
 * model-kinds     gmsol_model::glv: value-of-tokens uses pool_value(MaxAfterDeposit, maximize) with market_token_amount_to_usd(balance,
                   |value|, supply); tokens-for-value uses pool_value(MaxAfterWithdrawal, maximize) with
                   usd_to_market_token_amount(value, |pool|, supply, divisor); a negative pool value is an error before converting;
 * balance-order   in the deposit and the shift-in path validate_market_token_balance(next_balance, pool_value, supply) dominates
                   update_market_token_balance with the same next_balance (= balance + received, checked), for the same market
                   token in the deposit; the pool value / supply come from the maximized valuation;
 * validate-balance GlvMarketConfig::validate_balance returns Ok only if (max_amount == 0 or max_amount >= new_balance) and
                   (max_value == 0 or (pool value >= 0 and max_value >= market_token_amount_to_usd(new_balance, |pool value|, supply)));
                   Glv::validate_market_token_balance / update_market_token_balance address the config of the given market token.
"""
import re

from .. import analyses as A
from .. import h_C as H
from ..model import classify_result


def run(ctx):
    prog = ctx.prog(["gmsol_store", "gmsol_model", "gmsol_utils"])
    ctx.explanation = (
        "Composition: the comparison facts that dominate the insertion of a market are extracted and must pair long with "
        "long and short with short. Pricing: the constant `maximize` arguments of the four valuations in the GLV deposit and "
        "withdrawal operations are resolved, the flag is followed through the helper functions into gmsol-model, where the "
        "pnl-factor kind and the rounding primitive of each conversion are fixed. Limits: the balance validation precedes the "
        "balance update with the same value, and the validation's Ok paths carry both bounds.")
    ctx.not_decided = (
        "The deposit-then-withdraw inequality itself (needs the monotonicity of pool_value in `maximize` and of the two floor "
        "conversions — value reasoning, C01/C06). Shift pricing between two GLV markets. That the remaining accounts passed to "
        "unchecked_get_glv_value are exactly the GLV's markets is checked by validate_and_split_remaining_accounts (not part of "
        "this rule).")
    ctx.rule("same-tokens", "insert / init only under long==long and short==short of the validated market meta")
    ctx.rule("favour", "deposit: vault max, received min; withdrawal: vault min, conversion max; maximize forwarded unchanged")
    ctx.rule("model-kinds", "MaxAfterDeposit + market_token_amount_to_usd / MaxAfterWithdrawal + usd_to_market_token_amount; negative pool value rejected")
    ctx.rule("balance-order", "validate_market_token_balance(next) dominates update_market_token_balance(next), next = balance + received")
    ctx.rule("validate-balance", "Ok only within max_amount and max_value (0 = unlimited)")

    _same_tokens(ctx, prog)
    _favour(ctx, prog)
    _model(ctx, prog)
    _order(ctx, prog)
    _validate(ctx, prog)


def _eq_facts(f, bb):
    out = set()
    for op, a, b in A.cmp_facts(f, bb):
        if b is not None and op == "==":
            out.add(frozenset([str(a), str(b)]))
    return out


def _same_tokens(ctx, prog):
    f = ctx.fn(r"^gmsol_store::states::glv::Glv::insert_market")
    if f is not None:
        ins = [c for c in f.calls if c.short == "GlvMarkets::insert_with_options"]
        store, market = f.param_name(1), f.param_name(2)
        meta = "Market::validated_meta(%s, %s)?" % (market, store)
        ok = len(ins) == 1
        msg = "%d insertion(s)" % len(ins)
        if ok:
            facts = _eq_facts(f, ins[0].bb)
            want = {frozenset([meta + ".long_token_mint", "self.long_token"]), frozenset([meta + ".short_token_mint", "self.short_token"])}
            key_ok = str(ins[0].arg_expr(1)) == meta + ".market_token_mint" and str(ins[0].arg_expr(0)) == "self.markets"
            ok = want <= facts and key_ok
            msg = "insertion of %s under equalities %s" % (ins[0].arg_expr(1), sorted(sorted(x) for x in facts))
        ctx.ob("same-tokens:insert_market", ok, "Glv::insert_market: " + msg, where=f.where())
    g = ctx.fn(r"^gmsol_store::states::glv::Glv::process_and_validate_markets_for_init")
    if g is not None:
        ins = [c for c in g.calls if c.short == "BTreeSet::insert"]
        bad = []
        n_later = 0
        # every loop iteration either initialises `tokens` or passes both equalities before the market token is collected
        if len(ins) != 1:
            bad.append("%d BTreeSet::insert calls" % len(ins))
        else:
            bb = ins[0].bb
            preds_some = []
            # blocks that reach the insert: partition by the discriminant of `tokens`
            eqs = _cmp_blocks(g)
            need_long = [e for e in eqs if e[1] == ("long", "long")]
            need_short = [e for e in eqs if e[1] == ("short", "short")]
            crossed = [e for e in eqs if e[1][0] != e[1][1]]
            if crossed:
                bad.append("long/short compared crosswise")
            if not need_long or not need_short:
                bad.append("missing long==long or short==short comparison (found %s)" % [e[1] for e in eqs])
            else:
                # with the success edges of both comparisons removed, the insert is reachable only through the initialising arm
                avoid = [(e[0], e[2]) for e in need_long + need_short]
                init_blocks = [b for b, si, s in g.statements() if s[0] == "=" and s[2][0] == "agg" and s[2][1] == "adt" and s[2][3] and "Some" in str(s[2][3][:1])
                               and re.search(r"long_token_mint", str(g._rvalue_expr(s[2], 0, ()))) and re.search(r"short_token_mint", str(g._rvalue_expr(s[2], 0, ())))]
                reach = g.reachable_from(0, avoid_blocks=init_blocks, avoid_edges=avoid)
                if bb in reach:
                    bad.append("a market token can be collected without passing both token comparisons or the initialising arm")
                if not init_blocks:
                    bad.append("initialising arm (tokens = Some((long, short))) not found")
                for b, si, s_ in g.statements():
                    if b in init_blocks and s_[0] == "=" and s_[2][0] == "agg" and s_[2][1] == "adt":
                        txt = str(g._rvalue_expr(s_[2], 0, ()))
                        if "long_token_mint" in txt and not re.search(r"tuple\{0: .*\.long_token_mint, 1: .*\.short_token_mint\}\}$", txt):
                            bad.append("remembered pair is not (long, short): %s" % txt[:120])
        ctx.ob("same-tokens:init", not bad, "process_and_validate_markets_for_init: every market after the first must repeat the first market's (long, short) pair%s" % (
            "; BAD: " + "; ".join(bad) if bad else ""), where=g.where())


def _cmp_blocks(g):
    """Equality tests between a *_token_mint of the validated meta and the remembered pair: (switch_bb, (left word, right word), success target)."""
    out = []
    for bb, blk in enumerate(g.blocks):
        if blk.get("cleanup") or blk["t"][0] != "switch":
            continue
        c = A.as_cmp(g.expr(blk["t"][1]))
        if not c or c[0] not in ("==", "!="):
            continue
        sa, sb = str(c[1]), str(c[2])
        if "token_mint" not in sa + sb:
            continue
        def word(s):
            m = re.search(r"(long|short)_token_mint", s)
            if m:
                return m.group(1)
            m = re.search(r"@Some\.0\.(0|1)", s)
            if m:
                return "long" if m.group(1) == "0" else "short"
            return "?"
        succ = None
        for tgt, lab in g.succ(bb):
            truth = (lab[0] == "otherwise") or (lab[0] == "val" and lab[1] != 0)
            if (c[0] == "==" and truth) or (c[0] == "!=" and not truth):
                succ = tgt
        out.append((bb, (word(sa), word(sb)), succ))
    return out


# ----------------------------------------------------------------------------- favour


def _bool_arg(c, i):
    return H.const_bool(c.arg_expr(i))


def _favour(ctx, prog):
    dep = ctx.fn(r"^gmsol_store::ops::glv::ExecuteGlvDepositOperation::<'_, '_>::perform_glv_deposit")
    wd = ctx.fn(r"^gmsol_store::ops::glv::ExecuteGlvWithdrawalOperation::<'_, '_>::perform_glv_withdrawal")
    if dep is not None:
        vault = [c for c in dep.calls if c.short == "glv::unchecked_get_glv_value"]
        recv = [c for c in dep.calls if c.short == "glv::get_glv_value_for_market_with_new_index_price"]
        conv = [c for c in dep.calls if c.short == "utils::usd_to_market_token_amount"]
        ok = len(vault) == 1 and len(recv) == 1 and len(conv) == 1
        msg = "vault x%d received x%d conversion x%d" % (len(vault), len(recv), len(conv))
        if ok:
            v, r, k = _bool_arg(vault[0], 5), _bool_arg(recv[0], 4), conv[0]
            num, den = str(k.arg_expr(0)), str(k.arg_expr(1))
            flows = num.startswith("glv::get_glv_value_for_market_with_new_index_price(") and ".market_token_value_in_glv" in num \
                and den.startswith("glv::unchecked_get_glv_value(")
            ok = v is True and r is False and flows
            msg = "vault valued with maximize=%s, received tokens with maximize=%s; minted = usd_to_market_token_amount(received value, vault value, supply): %s" % (v, r, flows)
        ctx.ob("favour:deposit", ok, "perform_glv_deposit: " + msg, where=dep.where())
    if wd is not None:
        vault = [c for c in wd.calls if c.short == "glv::unchecked_get_glv_value"]
        conv = [c for c in wd.calls if c.short == "glv::get_market_token_amount_for_glv_value"]
        usd = [c for c in wd.calls if c.short == "utils::market_token_amount_to_usd"]
        ok = len(vault) == 1 and len(conv) == 1 and len(usd) == 1
        msg = "vault x%d conversion x%d value x%d" % (len(vault), len(conv), len(usd))
        if ok:
            v, c = _bool_arg(vault[0], 5), _bool_arg(conv[0], 3)
            flows = "glv::unchecked_get_glv_value(" in str(usd[0].arg_expr(1)) and str(conv[0].arg_expr(2)).find("utils::market_token_amount_to_usd(") >= 0
            ok = v is False and c is True and flows
            msg = "vault valued with maximize=%s, value converted to market tokens with maximize=%s; amount derives from the vault value: %s" % (v, c, flows)
        ctx.ob("favour:withdrawal", ok, "perform_glv_withdrawal: " + msg, where=wd.where())
    # forwarding of `maximize`
    f = ctx.fn(r"^gmsol_store::ops::glv::unchecked_get_glv_value")
    if f is not None:
        mp = f.param_name(5)
        cs = [c for c in f.calls if c.short == "glv::get_glv_value_for_market_with_new_index_price"]
        adds = [c for c in f.calls if c.short == "u128::checked_add"]
        ok = len(cs) >= 1 and all(str(c.arg_expr(4)) == mp for c in cs) and len(adds) >= 1 \
            and all("GlvMarketConfig::balance(" in str(c.arg_expr(3)) for c in cs)
        ctx.ob("favour:forward:unchecked_get_glv_value", ok, "unchecked_get_glv_value passes its `%s` to all %d per-market valuations (balance = recorded GLV balance) and sums with checked_add (%d)" % (
            mp, len(cs), len(adds)), where=f.where())
    for nm, inner, idx_in, idx_out in (("get_glv_value_for_market_with_new_index_price", "glv::get_glv_value_for_market", 4, 3),
                                       ("get_market_token_amount_for_glv_value", "glv::get_market_token_amount_for_glv_value", 3, 3)):
        f = ctx.fn(r"^gmsol_store::ops::glv::%s" % nm)
        if f is None:
            continue
        cs = [c for c in f.calls if c.short == inner]
        mp = f.param_name(idx_in)
        ok = len(cs) == 1 and str(cs[0].arg_expr(idx_out)) == mp
        ctx.ob("favour:forward:" + nm, ok, "%s forwards `%s` to %s: %s" % (nm, mp, inner, [str(c.arg_expr(idx_out)) for c in cs]), where=f.where())


def _model(ctx, prog):
    specs = [("get_glv_value_for_market", "MaxAfterDeposit", "utils::market_token_amount_to_usd", 3, lambda f: (f.param_name(2),)),
             ("get_market_token_amount_for_glv_value", "MaxAfterWithdrawal", "utils::usd_to_market_token_amount", 3, lambda f: (f.param_name(2),))]
    for nm, kind, prim, mi, first in specs:
        f = ctx.fn(r"^gmsol_model::glv::%s" % nm)
        if f is None:
            continue
        pv = [c for c in f.calls if c.short == "LiquidityMarketExt::pool_value"]
        cv = [c for c in f.calls if c.short == prim]
        other = [c.short for c in f.calls if c.short in ("utils::market_token_amount_to_usd", "utils::usd_to_market_token_amount") and c.short != prim]
        bad = []
        if len(pv) != 1 or len(cv) != 1 or other:
            bad.append("pool_value x%d, %s x%d, other conversions %s" % (len(pv), prim, len(cv), other))
        else:
            a = [str(pv[0].arg_expr(i)) for i in range(len(pv[0].args))]
            if a[2] != "PnlFactorKind::%s{}" % kind or a[3] != f.param_name(mi):
                bad.append("pool_value(%s)" % ", ".join(a))
            c = cv[0]
            ca = [str(c.arg_expr(i)) for i in range(len(c.args))]
            if ca[0] != first(f)[0] or not ca[1].startswith("UnsignedAbs::unsigned_abs(LiquidityMarketExt::pool_value(") or ca[2] != "LiquidityMarket::total_supply(%s)" % f.param_name(1):
                bad.append("%s(%s)" % (prim, ", ".join(x[:60] for x in ca)))
            if not H.guarded_by(f, c.bb, r"^Signed::is_negative\(LiquidityMarketExt::pool_value\(", False):
                bad.append("conversion is not behind the negative-pool-value rejection")
        ctx.ob("model-kinds:" + nm, not bad, "%s: pool_value(%s, maximize) then %s on |value| and total supply, negative value rejected%s" % (
            nm, kind, prim.split("::")[1], "; BAD: " + "; ".join(bad) if bad else ""), where=f.where())


def _order(ctx, prog):
    n = 0
    for key, fre, same_mint in (("deposit", r"^gmsol_store::ops::glv::ExecuteGlvDepositOperation::<'_, '_>::perform_glv_deposit", True),
                                ("shift", r"^gmsol_store::ops::glv::ExecuteGlvShiftOperation::<'_, '_>::perform_glv_shift", False)):
        f = ctx.fn(fre)
        if f is None:
            continue
        n += 1
        vs = [c for c in f.calls if c.short == "Glv::validate_market_token_balance"]
        us = [c for c in f.calls if c.short == "Glv::update_market_token_balance"]
        bad = []
        if len(vs) != 1:
            bad.append("%d validate_market_token_balance calls" % len(vs))
        else:
            v = vs[0]
            nb = str(v.arg_expr(2))
            inc = [u for u in us if "u64::checked_add(" in str(u.arg_expr(2))]
            if len(inc) != 1:
                bad.append("%d balance-increasing updates" % len(inc))
            else:
                u = inc[0]
                if str(u.arg_expr(2)) != nb:
                    bad.append("validated balance %s differs from the stored balance %s" % (nb[:80], str(u.arg_expr(2))[:80]))
                if not re.search(r"u64::checked_add\(GlvMarketConfig::balance\(", nb):
                    bad.append("next balance is not recorded balance + received (checked): %s" % nb[:100])
                if same_mint and str(u.arg_expr(1)) != str(v.arg_expr(1)):
                    bad.append("validated market token %s, updated %s" % (str(v.arg_expr(1))[:60], str(u.arg_expr(1))[:60]))
                if not f.dominates(v.bb, u.bb):
                    bad.append("the update is not dominated by the validation")
                from .. import anchor
                ts = anchor.try_switch_of(f, v)
                if ts is None or not f.dominates(ts[1], u.bb):
                    bad.append("the update is reachable without the validation having succeeded")
            pvs, sup = str(v.arg_expr(3)), str(v.arg_expr(4))
            if not (".pool_value" in pvs and ".supply" in sup and re.search(r", true\)", pvs) and re.search(r", true\)", sup)):
                bad.append("pool value / supply do not come from the maximized valuation: %s / %s" % (pvs[-60:], sup[-60:]))
        ctx.ob("balance-order:" + key, not bad, "perform_glv_%s: validate_market_token_balance(next) dominates update_market_token_balance(next)%s" % (
            key, "; BAD: " + "; ".join(bad) if bad else ""), where=f.where())
    ctx.floor("balance-order", n, 2)


def _validate(ctx, prog):
    f = ctx.fn(r"^gmsol_store::states::glv::GlvMarketConfig::validate_balance")
    if f is not None:
        nb, pv, sup = f.param_name(1), f.param_name(2), f.param_name(3)
        bad = []
        n_ok = 0
        val_re = r"utils::market_token_amount_to_usd\(\(%s as u128\), i128::unsigned_abs\(%s\), %s\)" % (re.escape(nb), re.escape(pv), re.escape(sup))
        for p in H.paths(f):
            if p["ret"] is None or classify_result(p["ret"]) != "ok":
                continue
            n_ok += 1
            facts = []
            for cond, lab, ty in p["conds"]:
                c = A.as_cmp(cond)
                truth = isinstance(lab, tuple) or lab != 0
                if c and ty == "bool":
                    op = c[0] if truth else A.NEG[c[0]]
                    facts.append((op, str(c[1]), str(c[2])))
                elif ty == "bool":
                    facts.append(("true" if truth else "false", str(cond), None))
            def holds(op, a_re, b_re):
                for o, a, b in facts:
                    if b is None:
                        continue
                    if o in ((op,) if op not in (">=", "<=") else (op, op[0])) and re.search(a_re, a) and re.search(b_re, b):
                        return True
                    fo = A.FLIP.get(o)
                    if fo in ((op,) if op not in (">=", "<=") else (op, op[0])) and re.search(a_re, b) and re.search(b_re, a):
                        return True
                return False
            amt_unlimited = holds("==", r"^self\.max_amount$", r"^0$") or holds("<=", r"^self\.max_amount$", r"^0$")
            amt_ok = holds(">=", r"^self\.max_amount$", r"^%s$" % re.escape(nb))
            val_unlimited = holds("==", r"^self\.max_value$", r"^0$") or holds("<=", r"^self\.max_value$", r"^0$")
            val_ok = holds(">=", r"^self\.max_value$", val_re) and any(o == "false" and a == "i128::is_negative(%s)" % pv for o, a, b in facts)
            if not (amt_unlimited or amt_ok):
                bad.append("an Ok path establishes neither max_amount == 0 nor max_amount >= %s" % nb)
            if not (val_unlimited or val_ok):
                bad.append("an Ok path establishes neither max_value == 0 nor (pool value >= 0 and max_value >= value of %s)" % nb)
        ctx.ob("validate-balance:GlvMarketConfig", not bad and n_ok >= 4, "validate_balance: %d Ok paths, each within max_amount and max_value (0 = unlimited)%s" % (
            n_ok, "; BAD: " + "; ".join(sorted(set(bad))) if bad else ""), where=f.where())
    g = ctx.fn(r"^gmsol_store::states::glv::Glv::validate_market_token_balance")
    if g is not None:
        cs = [c for c in g.calls if c.short == "GlvMarketConfig::validate_balance"]
        ok = len(cs) == 1 and re.search(r"^Option::ok_or_else\(GlvMarkets::get\(self\.markets, %s\), .*\)\?$" % re.escape(g.param_name(1)), str(cs[0].arg_expr(0))) is not None \
            and [str(cs[0].arg_expr(i)) for i in (1, 2, 3)] == [g.param_name(i) for i in (2, 3, 4)] \
            and all(k != "ok" or "validate_balance" in str(e) or True for _, k, e in g.exits())
        res = [str(e) for _, k, e in g.exits() if k != "err"]
        ok = ok and all("GlvMarketConfig::validate_balance(" in r for r in res)
        ctx.ob("validate-balance:Glv::validate_market_token_balance", ok, "forwards (new_balance, pool value, supply) to the config of the given market token and returns its result: %s" % (
            [(c.short, str(c.arg_expr(0))[:80]) for c in cs]), where=g.where())
    h = ctx.fn(r"^gmsol_store::states::glv::Glv::update_market_token_balance")
    if h is not None:
        cs = [c for c in h.calls if c.short == "GlvMarketConfig::update_balance"]
        ok = len(cs) == 1 and re.search(r"GlvMarkets::get_mut\(self\.markets, %s\)" % re.escape(h.param_name(1)), str(cs[0].arg_expr(0))) is not None \
            and str(cs[0].arg_expr(1)) == h.param_name(2)
        u = ctx.fn(r"^gmsol_store::states::glv::GlvMarketConfig::update_balance")
        if u is not None:
            ws = [(w["path"], str(w["rv"])) for w in A.field_writes(u, r"^self\b") if w["kind"] == "assign"]
            ok = ok and ws == [("self.balance", u.param_name(1))]
        ctx.ob("validate-balance:Glv::update_market_token_balance", ok, "stores new_balance into the balance of the given market token's config", where=h.where())
