"""C30 GT balances, mint cost and user ranks stay consistent.

Decided (structural necessary conditions, on the MIR of programs/store/src/states/gt.rs):
 * mint-pairing / burn-pairing: `mint_to` adds the SAME `amount` (checked) to GtState.total_minted, user.gt.total_minted,
   user.gt.amount and GtState.supply; `unchecked_burn_from` subtracts it (checked, None -> Err) from user.gt.amount and supply;
 * writers: who-may-write of total_minted / supply / grow_steps / minting_cost / grow_step_amount / user.gt.amount /
   user.gt.rank over the whole store program (=> total_minted only ever grows by a checked add, grow_step_amount immutable);
 * atomic: no Err exit after the first state write in mint_to, unchecked_burn_from, update_cumulative_inv_cost_factor, ...
 * cost-provenance: next_minting_cost's result is built only from `next_minted`, grow_step_amount, grow_steps,
   minting_cost and the grow factor; mint_to feeds it the very value it stores as total_minted and stores its result;
 * cost-order: update_cumulative_inv_cost_factor precedes the minting_cost store;
 * rank: the stored rank is binary_search(ranks(), user.gt.amount) with Ok(i) -> i+1, Err(i) -> i; ranks() = ranks[0..max_rank];
   every writer of user.gt.amount calls unchecked_update_rank on that user afterwards on every path to return;
 * mint-amount: get_mint_amount returns (size / cost, size - size % cost, cost) under cost != 0;
 * window: GtExchangeVault::{validate_depositable, validate_confirmable} return Ok only under the window facts, and
   add / confirm write only behind them; unchecked_request_exchange moves the same `amount` burn -> vault -> exchange.
"""
import json
import os
import re

from .. import analyses as A
from .. import anchor
from .. import h_F as H

GT = r"gmsol_store::states::gt::GtState::"
VAULT = r"gmsol_store::states::gt::GtExchangeVault::"
CRATES = ["gmsol_store"]

TABLE = os.path.join(os.path.dirname(os.path.dirname(os.path.dirname(os.path.abspath(__file__)))), "tables", "C30.json")


def _same_place_op(rv, path, op, amount="amount"):
    c = H.checked_op(rv)
    if c is None:
        return False, "stored value is not an arithmetic primitive: %s" % rv
    mode, o, a, b = c
    ok = mode == "checked" and o == op and str(a) == path and str(b) == amount
    return ok, "%s_%s(%s, %s)" % (mode, o, a, b)


def run(ctx):
    prog = ctx.prog(CRATES)
    ctx.explanation = (
        "GT state transitions are checked on MIR: the four (two) balance stores of mint_to (unchecked_burn_from) are checked "
        "adds (subs) of the same `amount` to their own old value; the set of functions that may write each GT field is "
        "enumerated over the whole store program; no Err exit follows the first write; the mint cost is a function of the "
        "new total_minted and stored configuration only; the rank store is the binary-search table Ok(i)->i+1 / Err(i)->i and "
        "follows every balance write; get_mint_amount returns whole units and the un-minted remainder; exchange-vault "
        "deposits/confirmation are written only behind the time-window comparisons.")
    ctx.not_decided = (
        "'supply = sum of user balances' over histories (only the per-step pairing is shown); semantics of "
        "slice::binary_search and sortedness of `ranks` at use (init's sortedness guard is checked, immutability by "
        "who-may-write); numeric value of the exponential cost; that callers mint the amount returned by get_mint_amount.")
    ctx.rule("mint-pairing", "mint_to stores checked_add(<own old value>, amount) into total_minted, user total_minted, user amount, supply")
    ctx.rule("burn-pairing", "unchecked_burn_from stores checked_sub(<own old value>, amount) into user amount and supply")
    ctx.rule("writers", "each GT balance/config field is written only by its reviewed writers (who-may-write over gmsol_store)")
    ctx.rule("atomic", "no Err exit is reachable after the first state write")
    ctx.rule("cost-provenance", "mint cost depends only on the new total and stored configuration; mint_to stores exactly that result")
    ctx.rule("cost-order", "update_cumulative_inv_cost_factor is called before minting_cost is overwritten")
    ctx.rule("rank", "rank = binary_search(ranks[0..max_rank], balance): Ok(i)->i+1, Err(i)->i; recomputed after every balance write")
    ctx.rule("mint-amount", "get_mint_amount = (size/cost, size - size%cost, cost) under cost != 0")
    ctx.rule("window", "vault deposit/confirm only behind the window comparison; request_exchange moves one amount")

    mint = ctx.fn(GT + "mint_to")
    burn = ctx.fn(GT + "unchecked_burn_from")
    n = 0
    if mint:
        for path in ("self.total_minted", "user.gt.total_minted", "user.gt.amount", "self.supply"):
            ws = H.writes_to(mint, "^" + re.escape(path) + "$")
            ok = len(ws) == 1
            why = "%d stores" % len(ws)
            if ok:
                ok, why = _same_place_op(ws[0][2], path, "add")
                n += 1
            ctx.ob("mint-pairing:" + path, ok, "mint_to stores %s into %s" % (why, path), where=mint.where())
    ctx.floor("mint-pairing", n, 4)
    n = 0
    if burn:
        for path in ("user.gt.amount", "self.supply"):
            ws = H.writes_to(burn, "^" + re.escape(path) + "$")
            ok = len(ws) == 1
            why = "%d stores" % len(ws)
            if ok:
                ok, why = _same_place_op(ws[0][2], path, "sub")
                n += 1
            ctx.ob("burn-pairing:" + path, ok, "unchecked_burn_from stores %s into %s" % (why, path), where=burn.where())
    ctx.floor("burn-pairing", n, 2)

    # ---- who may write
    n = 0
    table = json.load(open(TABLE))["writers"]
    for ent in table:
        adt_re, field, allowed = ent["adt"], ent["field"], ent["writers"]
        ws = H.field_writers(prog, CRATES, adt_re, field)
        who = sorted(set(w["fn"].short for w in ws))
        extra = [w for w in who if w not in allowed]
        n += 1
        ctx.ob("writers:%s.%s" % (adt_re.rsplit("::", 1)[-1], field), not extra and bool(who),
               "%s.%s is written by %s (reviewed: %s)%s" % (adt_re.rsplit("::", 1)[-1], field, who, ent["why"],
                                                           "; UNREVIEWED writer(s): %s" % extra if extra else ""),
               where=ws[0]["fn"].where() if ws else "(none)", detail={"sites": len(ws)})
    ctx.floor("writers", n, 13)

    # ---- atomic updates
    n = 0
    for pat, fl in ((GT + "mint_to", [r"GtState::update_cumulative_inv_cost_factor$"]), (GT + "unchecked_burn_from", []),
                    (GT + "update_cumulative_inv_cost_factor", []), (GT + "process_gt_vault", []),
                    (VAULT + "add", []), (VAULT + "confirm", []), (r"gmsol_store::states::gt::GtExchange::add", [])):
        f = ctx.fn(pat)
        if f:
            n += 1
            H.atomic_update(ctx, "atomic:" + f.short, f, fl)
    ctx.floor("atomic", n, 7)

    # ---- cost provenance
    nmc = ctx.fn(GT + "next_minting_cost")
    if nmc:
        allowed = {"next_minted", "self.grow_step_amount", "self.grow_steps", "self.minting_cost", "self.minting_cost_grow_factor"}
        for bb, k, e in nmc.exits():
            if k != "ok":
                continue
            lv = {x for x in H.leaves(e) if not re.match(r"^(closure<|_\d+#|[A-Za-z_]+#$)", x) and not re.match(r"^\d+$", x)}
            lv = {x for x in lv if "closure" not in x}
            extra = sorted(lv - allowed)
            some = "Option::Some" in str(e)
            if some:
                steps = None
                m = [x for x in e.walk() if x.k == "agg" and x.a[0] == "tuple"]
                steps = str(m[0].a[1][0][1]) if m else ""
                ok_steps = steps == "(next_minted Div self.grow_step_amount)"
                uses = bool(e.calls(r"^utils::apply_factor$")) and "self.minting_cost_grow_factor" in lv and "self.minting_cost" in lv
                ctx.ob("cost-provenance:next_minting_cost:some", not extra and ok_steps and uses,
                       "Some((steps, cost)): steps=%s, cost built from %s by apply_factor%s" % (steps, sorted(lv), "; FOREIGN inputs %s" % extra if extra else ""),
                       where=nmc.where())
                facts = A.cmp_facts(nmc, bb)
                ctx.ob("cost-provenance:next_minting_cost:guards",
                       A.has_fact(facts, "!=", r"^self\.grow_step_amount$", r"^0$") and
                       A.has_fact(facts, "!=", r"^\(next_minted Div self\.grow_step_amount\)$", r"^self\.grow_steps$"),
                       "Some(..) only when grow_step_amount != 0 and the step count changed: %s" % H.fact_strs(facts), where=nmc.where())
            else:
                facts = A.cmp_facts(nmc, bb)
                ctx.ob("cost-provenance:next_minting_cost:none",
                       A.has_fact(facts, "==", r"^\(next_minted Div self\.grow_step_amount\)$", r"^self\.grow_steps$"),
                       "None only when next_minted / grow_step_amount == grow_steps: %s" % H.fact_strs(facts), where=nmc.where())
        # loop bounds: the factor is applied once per step in grow_steps..new_steps
        rng = [str(c.arg_expr(0)) for c in nmc.calls if c.short == "Iterator::next"]
        ctx.ob("cost-provenance:next_minting_cost:range",
               rng == ["Range{start: self.grow_steps, end: (next_minted Div self.grow_step_amount)}"],
               "the factor is applied for each step of %s" % rng, where=nmc.where())
    if mint and nmc:
        cs = mint.calls_to(GT + "next_minting_cost$")
        tm = H.writes_to(mint, r"^self\.total_minted$")
        ok = len(cs) == 1 and len(tm) == 1 and str(cs[0].arg_expr(1)) == str(tm[0][2]) and str(cs[0].arg_expr(0)) == "self"
        ctx.ob("cost-provenance:mint_to:argument", ok,
               "next_minting_cost is evaluated on the value stored as total_minted (%s)" % (str(cs[0].arg_expr(1))[:90] if cs else "no call"),
               where=mint.where())
        mc = H.writes_to(mint, r"^self\.minting_cost$")
        gs = H.writes_to(mint, r"^self\.grow_steps$")
        call_s = str(H.peel(mint._call_expr(cs[0], 0, ()))) if cs else "?"
        ok = len(mc) == 1 and len(gs) == 1 and str(mc[0][2]) == "%s?@Some.0.1" % call_s and str(gs[0][2]) == "%s?@Some.0.0" % call_s
        ctx.ob("cost-provenance:mint_to:stores", ok, "minting_cost / grow_steps are stored from the Some((steps, cost)) of that call",
               where=mint.where(), detail={"minting_cost": str(mc[0][2])[-40:] if mc else None})
    # ---- order
    if mint:
        upd = mint.calls_to(GT + "update_cumulative_inv_cost_factor$")
        mc = H.writes_to(mint, r"^self\.minting_cost$")
        ok = False
        if len(upd) == 1 and mc:
            ts = H.success_edge(mint, upd[0])
            ok = ts is not None and all(mint.dominates(ts[1], bb) for bb, _, _ in mc)
        ctx.ob("cost-order:mint_to", ok, "the Ok edge of update_cumulative_inv_cost_factor()? dominates the minting_cost store",
               where=mint.where())
    upd = ctx.fn(GT + "update_cumulative_inv_cost_factor")
    if upd:
        ws = H.writes_to(upd, r"^self\.cumulative_inv_cost_factor$")
        ok = False
        desc = "?"
        if len(ws) == 1:
            c = H.checked_op(ws[0][2])
            if c:
                desc = "%s_%s(%s, ..)" % (c[0], c[1], c[2])
                d = H.peel(c[3])
                ok = c[0] == "checked" and c[1] == "add" and str(c[2]) == "self.cumulative_inv_cost_factor" and d.k == "call" \
                    and d.a[0] == "utils::div_to_factor" and str(d.a[1][1]) == "self.minting_cost" and \
                    "AsClock::passed_in_seconds(self.last_cumulative_inv_cost_factor_ts)" in str(d.a[1][0])
        ctx.ob("cost-order:cumulative-uses-current-cost", ok,
               "cumulative factor += elapsed / self.minting_cost (the cost in force before the update): %s" % desc, where=upd.where())

    # ---- rank
    _rank(ctx, prog)

    # ---- get_mint_amount
    gma = ctx.fn(GT + "get_mint_amount")
    if gma:
        oks = [(bb, e) for bb, k, e in gma.exits() if k == "ok"]
        ok = len(oks) == 1
        if ok:
            bb, e = oks[0]
            t = e.a[1][0][1] if e.k == "agg" and e.a[1] else None
            parts = {n_: v for n_, v in t.a[1]} if t is not None and t.k == "agg" else {}
            p0 = H.peel(parts.get("0", e))
            units = p0.k == "call" and p0.a[0] == "TryInto::try_into" and str(p0.a[1][0]) == "(size_in_value Div self.minting_cost)"
            c1 = H.checked_op(parts["1"]) if "1" in parts else None
            rem = c1 is not None and c1[1] == "sub" and c1[0] in ("asserted", "checked") and str(c1[2]) == "size_in_value" and \
                str(c1[3]) == "(size_in_value Rem self.minting_cost)"
            cost = str(parts.get("2")) == "self.minting_cost"
            ctx.ob("mint-amount:units", units, "minted units = try_into(size_in_value / minting_cost): %s" % p0, where=gma.where())
            ctx.ob("mint-amount:minted-value", rem, "minted value = size_in_value - size_in_value %% minting_cost: %s" % (parts.get("1"),), where=gma.where())
            ctx.ob("mint-amount:cost", cost, "third component is the minting cost used", where=gma.where())
            facts = A.cmp_facts(gma, bb)
            ctx.ob("mint-amount:nonzero-cost", A.has_fact(facts, "!=", r"^self\.minting_cost$", r"^0$"),
                   "Ok only under minting_cost != 0 (discharges / and %%): %s" % H.fact_strs(facts), where=gma.where())
        else:
            ctx.ob("mint-amount:units", False, "get_mint_amount has %d Ok exits" % len(oks), where=gma.where())

    # ---- exchange window
    _window(ctx, prog)


def _rank(ctx, prog):
    f = ctx.fn(GT + "unchecked_update_rank")
    if f:
        ws = H.writes_to(f, r"^user\.gt\.rank$")
        bs_re = r"^\[T\]::binary_search\(GtState::ranks\(self\), user\.gt\.amount\)"
        table = {}
        bad = []
        for p in A.decision_table(f):
            if not A.feasible(p) or p["diverges"]:
                continue
            wb = [b for b, _, _ in ws if b in p["blocks"]]
            if not wb:
                continue
            arm = None
            for cond, lab, ty in p["conds"]:
                if cond.k == "discr" and re.search(bs_re, str(cond.a[0])):
                    arm = lab
            # value stored on this path
            for bb, si, s in f.statements():
                if bb == wb[0] and s[0] == "=" and A._place_path(f, s[1]) == "user.gt.rank":
                    v = f.expr_on_path(s[2][1], p["blocks"])
                    table.setdefault(arm, set()).add(str(v))
        want = {0: {"(([T]::binary_search(GtState::ranks(self), user.gt.amount)@Ok.0 AddWithOverflow 1).0 as u8)"},
                1: {"([T]::binary_search(GtState::ranks(self), user.gt.amount)@Err.0 as u8)"}}
        ctx.ob("rank:table", table == want,
               "rank stored on the Ok(i) arm: %s; on the Err(i) arm: %s" % (sorted(table.get(0, [])), sorted(table.get(1, []))),
               where=f.where(), detail={str(k): sorted(v) for k, v in table.items()})
        # the only store of rank happens under `old != new` (skipping it otherwise is a no-op)
        g_ok = all(any(o == "!=" and str(a) == "user.gt.rank" for (o, a, b) in A.cmp_facts(f, bb) if b is not None) for bb, _, _ in ws)
        ctx.ob("rank:store-when-different", g_ok and len(ws) == 1, "the rank store is skipped only when the stored rank already equals the new one", where=f.where())
    r = ctx.fn(GT + "ranks")
    if r:
        ex = [str(e) for _, _, e in r.exits()]
        ctx.ob("rank:ranks-slice", ex == ["Index::index(self.ranks, Range{start: 0, end: (self.max_rank as usize)})"],
               "ranks() = %s" % ex, where=r.where())
    init = ctx.fn(GT + "init")
    if init:
        # max_rank = min(len, MAX_RANK); sortedness closure compares a < b strictly
        mr = H.writes_to(init, r"^self\.max_rank$")
        ok = len(mr) == 1 and re.search(r"^\((Ord|cmp)::min\(\[T\]::len\(ranks\), (gt::)?MAX_RANK\) as u64\)$", str(mr[0][2])) is not None
        ctx.ob("rank:init-max-rank", ok, "init stores max_rank = min(ranks.len(), MAX_RANK): %s" % (mr[0][2] if mr else None), where=init.where())
        # the closure given to windows(2).all(..) yields `ab[0] < ab[1]` (or false for a malformed window)
        strict = False
        for c in prog.closures_of(init):
            vals = []
            for bb, k, e in c.exits():
                for x in e.alts():
                    cm = A.as_cmp(x)
                    if cm:
                        op, a, b = cm
                        if op in (">", ">="):
                            op, a, b = A.FLIP[op], b, a
                        vals.append((op, str(a), str(b)))
                    else:
                        vals.append(str(x))
            if vals and all(v == "false" or (isinstance(v, tuple) and re.match(r"^\w+\[0\]$", v[1]) and re.match(r"^\w+\[1\]$", v[2])) for v in vals):
                strict = any(isinstance(v, tuple) for v in vals) and all(v[0] == "<" for v in vals if isinstance(v, tuple))
        ws = [w for w in A.field_writes(init, r"^self\.") if w["kind"] in ("assign", "mutborrow")]
        guarded = bool(ws) and all(any(o == "true" and "Iterator::all(" in str(a) and "windows(" in str(a)
                                       for (o, a, b) in A.cmp_facts(init, w["bb"])) for w in ws)
        ctx.ob("rank:init-sorted", strict and guarded, "init writes only after windows(2).all(a < b) holds (strictly increasing thresholds)", where=init.where())
    # every writer of the balance recomputes the rank afterwards
    n = 0
    for w in H.field_writers(prog, CRATES, "states::user::UserGtState", "amount"):
        g = w["fn"]
        n += 1
        calls = [c for c in g.calls_to(GT + "unchecked_update_rank$")]
        root = w["path"].split(".")[0]
        calls = [c for c in calls if str(c.arg_expr(1)) == root]
        ok = bool(calls) and H.must_pass(g, w["bb"], [c.bb for c in calls]) and all(w["bb"] == c.bb or g.can_reach(w["bb"], c.bb) for c in calls[:1])
        ctx.ob("rank:after-write:" + g.short, ok, "%s: the store to %s is followed on every path to return by unchecked_update_rank(%s)" % (g.short, w["path"], root),
               where=g.where())
    ctx.floor("rank-after-write", n, 2)


def _window(ctx, prog):
    idx_now = r"^gt::get_time_window_index\(SolanaSysvar::get\(\)\?\.unix_timestamp, self\.time_window\)$"
    idx_own = r"^GtExchangeVault::time_window_index\(self\)$"
    f = ctx.fn(VAULT + "validate_depositable")
    if f:
        facts, n = H.ok_facts(f)
        ctx.ob("window:depositable:same-window", n > 0 and A.has_fact(facts, "==", idx_now, idx_own),
               "Ok only if the current window index equals the vault's own: %s" % H.fact_strs(facts), where=f.where())
        ctx.ob("window:depositable:not-confirmed", n > 0 and A.has_bool_fact(facts, False, r"^GtExchangeVault::is_confirmed\(self\)$"),
               "Ok only if the vault is not confirmed", where=f.where())
    f = ctx.fn(VAULT + "validate_confirmable")
    if f:
        facts, n = H.ok_facts(f)
        ctx.ob("window:confirmable:later-window", n > 0 and A.has_fact(facts, ">", idx_now, idx_own) and not A.has_fact(facts, "==", idx_now, idx_own),
               "Ok only if the current window index is strictly greater than the vault's own: %s" % H.fact_strs(facts), where=f.where())
        ctx.ob("window:confirmable:flags", n > 0 and A.has_bool_fact(facts, False, r"^GtExchangeVault::is_confirmed\(self\)$") and
               A.has_bool_fact(facts, True, r"^GtExchangeVault::is_initialized\(self\)$"),
               "Ok only if initialized and not yet confirmed", where=f.where())
    twi = ctx.fn(VAULT + "time_window_index")
    if twi:
        ex = [str(e) for _, _, e in twi.exits()]
        ctx.ob("window:own-index", ex == ["gt::get_time_window_index(self.ts, self.time_window)"], "time_window_index() = %s" % ex, where=twi.where())
    for nm, gate, what in (("add", "validate_depositable", "store self.amount"), ("confirm", "validate_confirmable", "set Confirmed")):
        f = ctx.fn(VAULT + nm)
        if not f:
            continue
        gs = f.calls_to(VAULT + gate + "$")
        ok = False
        if len(gs) == 1 and str(gs[0].arg_expr(0)) == "self":
            ts = H.success_edge(f, gs[0])
            eff = [w["bb"] for w in A.field_writes(f, r"^self\.")]
            eff += [c.bb for c in f.calls if re.search(r"set_flag$", c.name or "")]
            ok = ts is not None and bool(eff) and all(f.dominates(ts[1], b) for b in eff)
        ctx.ob("window:%s:gated" % nm, ok, "GtExchangeVault::%s: the Ok edge of %s()? dominates every write (%s)" % (nm, gate, what), where=f.where())
    f = ctx.fn(VAULT + "add")
    if f:
        ws = H.writes_to(f, r"^self\.amount$")
        ok, why = _same_place_op(ws[0][2], "self.amount", "add") if len(ws) == 1 else (False, "%d stores" % len(ws))
        ctx.ob("window:add:checked", ok, "vault amount := %s" % why, where=f.where())
    f = ctx.fn(VAULT + "confirm")
    if f:
        sf = [c for c in f.calls if re.search(r"set_flag$", c.name or "")]
        ok = len(sf) == 1 and str(sf[0].arg_expr(1)) == "GtExchangeVaultFlag::Confirmed{}" and str(sf[0].arg_expr(2)) == "true"
        ctx.ob("window:confirm:sets-confirmed", ok, "confirm sets flag %s := %s" % ((sf[0].arg_expr(1), sf[0].arg_expr(2)) if sf else ("?", "?")), where=f.where())
    f = ctx.fn(r"gmsol_store::states::gt::GtExchange::add")
    if f:
        ws = H.writes_to(f, r"^self\.amount$")
        ok, why = _same_place_op(ws[0][2], "self.amount", "add") if len(ws) == 1 else (False, "%d stores" % len(ws))
        ctx.ob("window:exchange-add:checked", ok, "exchange amount := %s" % why, where=f.where())
    f = ctx.fn(GT + "unchecked_request_exchange")
    if f:
        b = f.calls_to(GT + "unchecked_burn_from$")
        v = f.calls_to(VAULT + "add$")
        x = f.calls_to(r"gmsol_store::states::gt::GtExchange::add$")
        ok = len(b) == 1 and len(v) == 1 and len(x) == 1
        if ok:
            ok = [str(b[0].arg_expr(i)) for i in range(3)] == ["self", "user", "amount"] and \
                [str(v[0].arg_expr(i)) for i in range(2)] == ["vault", "amount"] and \
                [str(x[0].arg_expr(i)) for i in range(2)] == ["exchange", "amount"]
            tb = H.success_edge(f, b[0])
            tv = H.success_edge(f, v[0])
            tx = H.success_edge(f, x[0])
            oks = [bb for bb, k, e in f.exits() if k == "ok"]
            ok = ok and all(t is not None for t in (tb, tv, tx)) and bool(oks) and \
                all(f.dominates(t[1], bb) for t in (tb, tv, tx) for bb in oks)
        ctx.ob("window:request-exchange:one-amount", ok,
               "unchecked_request_exchange returns Ok only after burn_from(user, amount), vault.add(amount), exchange.add(amount) all succeeded",
               where=f.where())
    f = ctx.fn(GT + "unchecked_confirm_exchange_vault")
    if f:
        c = f.calls_to(VAULT + "confirm$")
        pg = f.calls_to(GT + "process_gt_vault$")
        ok = len(c) == 1 and len(pg) == 1 and str(pg[0].arg_expr(1)) == "GtExchangeVault::confirm(vault)?"
        ctx.ob("window:confirm-vault:amount", ok, "the confirmed vault amount is what is added to gt_vault (%s)" % (pg[0].arg_expr(1) if pg else None), where=f.where())
