"""C16 Every configuration key reads and writes its own setting.

Decided structurally (MIR match tables / builder chains / decision tables):

 * key-arm / key-total / key-injective  `MarketConfig::{get,get_mut}`, `Amounts/Factors/Addresses::{get,get_mut}`: every
   variant of the key enum (compiler's variant list) has an arm, `get` and `get_mut` map it to the same field, the
   field is `snake_case(Variant)`, no two variants share a field, the wildcard arm yields None;
 * flag-codec   the generated `MarketConfigFlagContainer::{get_flag,set_flag}` derive the bit index from the same
   `flag_to_index(flag)` (a pure conversion of the flag), `set_flag` writes back `into_value()` of the very map it set;
   `MarketConfig::{flag,set_flag}` forward flag (and value) unchanged;
 * route        Market::get_config_by_key(_mut)/get/set_config_flag_by_key and Store::get_{amount,factor,address}
   (_by_key/_mut) forward the caller's key to the matching container and accessor (get vs get_mut);
   update_config_with_buffer stores `entry.value()` through `get_mut(entry.key()?)` of the same entry;
 * writers      fields of MarketConfig / Amounts / Factors / Addresses are stored or mutably borrowed only by
   init / get_mut (and the flag container's set_flag);
 * bind         every gmsol_model trait method of the program's `Market` and of the SDK's `MarketModel` that reads the
   config binds each builder setter / result to the config entry that NAMES it (token agreement between trait method,
   setter and field; long/short, positive/negative, max/min, increase/decrease may not be crossed);
 * bind-side    sided accessors (max_pool_amount, max_open_interest, ...) return `*_long*` on the true edge of their bool
   parameter and the short twin on the false edge; pnl_factor_config follows tables/C16.json for every (kind, side);
 * closed-switch  MarketConfig's market-closed helpers (program and SDK): closed ∧ EnableMarketClosedParams selects the
   `market_closed_*` entry, otherwise the per-side open-market entry named like the accessor.
"""
import json
import os
import re

from .. import analyses as A
from .. import h_C as H
from .. import h_C_cfg as G

TABLE = os.path.join(os.path.dirname(os.path.dirname(os.path.dirname(os.path.abspath(__file__)))), "tables", "C16.json")

KEYED = [
    # owner ADT, key enum, floor (#variants counted on the pinned tree)
    (r"^gmsol_store::states::market::config::MarketConfig", r"^gmsol_utils::market::MarketConfigKey", 66),
    (r"^gmsol_store::states::store::Amounts", r"^gmsol_utils::config::AmountKey", 9),
    (r"^gmsol_store::states::store::Factors", r"^gmsol_utils::config::FactorKey", 3),
    (r"^gmsol_store::states::store::Addresses", r"^gmsol_utils::config::AddressKey", 1),
]


def run(ctx):
    prog = ctx.prog(["gmsol_store", "gmsol_utils", "gmsol_programs", "gmsol_model"])
    table = json.load(open(TABLE))
    ctx.explanation = (
        "Key->field tables are extracted from the discriminant switches of the get/get_mut matches and compared arm by arm "
        "with each other, with the compiler's variant list and with the naming convention; the flag codec, the forwarding "
        "routes and the set of functions that may write config fields are checked on MIR; the market-model parameter "
        "accessors of the program's Market and of the SDK MarketModel are decomposed (builder chains, per-path results) and "
        "each bound value must be the config entry named by the setter/method, with side polarity and the closed-market "
        "switch evaluated on every path.")
    ctx.not_decided = (
        "String parsing of key names (strum derives, external). That gmsol-model's builders store a setter's argument in "
        "the like-named parameter field (typed-builder derive). The naming oracle cannot notice a binding that is wrong but "
        "consistently named on all three of method, setter and field.")
    ctx.rule("key-arm", "variant -> field: get == get_mut, field == snake_case(Variant)")
    ctx.rule("key-total", "every variant of the key enum has an arm; wildcard arm returns None")
    ctx.rule("key-injective", "no field is reachable from two keys")
    ctx.rule("flag-codec", "get_flag/set_flag use flag_to_index(flag) on into_map(self); set_flag writes the same map back")
    ctx.rule("route", "by-key / by-name accessors forward the same key to the matching container accessor")
    ctx.rule("writers", "config fields are written / mutably borrowed only in init, get_mut, set_flag")
    ctx.rule("bind", "model parameter setter <- config entry named by method+setter (token agreement, no crossed opposites)")
    ctx.rule("bind-side", "true edge -> *_long*, false edge -> short twin; pnl_factor_config per (kind, side) table")
    ctx.rule("closed-switch", "closed && EnableMarketClosedParams -> market_closed_*, else the open-market entry of that side")

    _keys(ctx, prog)
    _flags(ctx, prog)
    _routes(ctx, prog)
    _writers(ctx, prog)
    nb = ns = 0
    for side, adt_id in (("prog", G.PROG_MARKET), ("sdk", G.SDK_MARKET_MODEL)):
        b, s = _bindings(ctx, prog, side, adt_id, table)
        nb += b
        ns += s
    ctx.floor("bind", nb, 92)
    ctx.floor("bind-side", ns, 28)
    n = 0
    for side, adt_re in (("prog", r"^gmsol_store::states::market::config::MarketConfig"),
                         ("sdk", r"^gmsol_programs::gmsol_store::types::MarketConfig")):
        n += _closed(ctx, prog, side, adt_re)
    for side, fre in (("prog", r"^gmsol_store::states::market::Market::is_closed"),
                      ("sdk", r"^gmsol_programs::model::market::<impl gmsol_programs::gmsol_store::accounts::Market>::is_closed")):
        f = ctx.fn(fre)
        if f is not None:
            n += 1
            ex = [str(e) for _, _, e in f.exits()]
            ctx.ob("closed-switch:%s:is_closed" % side, ex == ["Market::flag(self, MarketFlag::Closed{})"],
                   "%s reads the Closed market flag: %s" % (f.short, ex), where=f.where())
    ctx.floor("closed-switch", n, 12)


# ----------------------------------------------------------------------------- key tables


def _keys(ctx, prog):
    for owner_re, key_re, floor in KEYED:
        owner = ctx.adt(owner_re)
        key = ctx.adt(key_re)
        if owner is None or key is None:
            continue
        fields = {f["name"] for f in owner.fields}
        tabs = {}
        for nm in ("get", "get_mut"):
            fs = [f for f in H.impl_fns(prog, owner.id) if f.name == nm and not f.trait_item]
            if len(fs) != 1:
                ctx.ob("anchor-missing:fn:%s::%s" % (owner.short, nm), False, "expected one %s::%s" % (owner.short, nm), where="(anchor)")
                continue
            f = fs[0]
            ctx.analysed_fns.add(f.id)
            t, wild = G.key_table(prog, f, key, r"^%s$" % re.escape(f.param_name(1)))
            tabs[nm] = t
            wild_ok = all(str(w).startswith("Option::None") for w in wild)
            missing = [v for v in key.variant_names() if v not in t]
            ctx.ob("key-total:%s::%s" % (owner.short, nm), not missing and wild_ok,
                   "%s::%s has an arm for %d/%d variants of %s; wildcard arm -> %s%s" % (
                       owner.short, nm, len(t), len(key.variants), key.short, [str(w) for w in wild] or "(none)",
                       "; variants falling into the wildcard arm: %s" % missing if missing else ""), where=f.where())
            inv = {}
            for v, fld in t.items():
                inv.setdefault(fld, []).append(v)
            dup = {k: v for k, v in inv.items() if k is not None and len(v) > 1}
            ctx.ob("key-injective:%s::%s" % (owner.short, nm), not dup,
                   "%s::%s: %d distinct fields for %d keys%s" % (owner.short, nm, len([k for k in inv if k]), len(t),
                                                                  "; shared: %s" % dup if dup else ""), where=f.where())
        if len(tabs) != 2:
            continue
        n = 0
        for v in key.variant_names():
            g, m = tabs["get"].get(v), tabs["get_mut"].get(v)
            if v not in tabs["get"] and v not in tabs["get_mut"]:
                continue
            n += 1
            want = G.snake(v)
            ok = g is not None and g == m and g == want and g in fields
            ctx.ob("key-arm:%s:%s" % (owner.short, v), ok,
                   "%s key %s: get -> %s, get_mut -> %s, expected field `%s`" % (owner.short, v, g, m, want),
                   where="%s:%d" % (owner.file, owner.line))
        ctx.floor("key-arm:" + owner.short, n, floor)


# ----------------------------------------------------------------------------- flags


def _flags(ctx, prog):
    c = ctx.adt(r"^gmsol_store::states::market::config::MarketConfigFlagContainer")
    if c is None:
        return
    fns = {f.name: f for f in H.impl_fns(prog, c.id) if not f.trait_item}
    need = ("flag_to_index", "into_map", "get_flag", "set_flag")
    for nm in need:
        if nm not in fns:
            ctx.ob("anchor-missing:fn:%s::%s" % (c.short, nm), False, "generated method missing", where="(anchor)")
            return
        ctx.analysed_fns.add(fns[nm].id)
    f = fns["flag_to_index"]
    ex = f.exits()
    pure = [cs.short for cs in f.calls if cs.short not in ("From::from", "Into::into")]
    ctx.ob("flag-codec:flag_to_index", len(ex) >= 1 and all(str(e) == f.param_name(0) for _, _, e in ex) and not pure,
           "flag_to_index is a pure integer conversion of its argument (%s; other calls: %s)" % ([str(e) for _, _, e in ex], pure), where=f.where())
    f = fns["into_map"]
    ex = [str(e) for _, _, e in f.exits()]
    ctx.ob("flag-codec:into_map", ex == ["Bitmap::from_value(self.value)"], "into_map decodes self.value: %s" % ex, where=f.where())
    idx = r"%s::flag_to_index\(%s\)" % (c.short, "flag")
    f = fns["get_flag"]
    ex = [str(e) for _, _, e in f.exits()]
    want = r"^Bitmap::get\(%s::into_map\(self\), %s::flag_to_index\(%s\)\)$" % (c.short, c.short, re.escape(f.param_name(1)))
    ctx.ob("flag-codec:get_flag", len(ex) == 1 and re.search(want, ex[0]) is not None,
           "get_flag reads bit flag_to_index(flag) of into_map(self): %s" % ex, where=f.where())
    f = fns["set_flag"]
    sets = f.calls_to(r"Bitmap<.*>::set$|::Bitmap::set$|bitmaps::.*::set$")
    sets = sets or [cs for cs in f.calls if cs.short == "Bitmap::set"]
    intos = [cs for cs in f.calls if cs.short == "Bitmap::into_value"]
    ok = False
    msg = "set_flag: %d Bitmap::set, %d into_value" % (len(sets), len(intos))
    if len(sets) == 1 and len(intos) == 1:
        s, iv = sets[0], intos[0]
        a = [str(s.arg_expr(i)) for i in range(3)]
        map_local = H_borrow_root(f, s.args[0])
        same_map = isinstance(iv.args[0], list) and _copy_root(f, iv.args[0]) == map_local
        stores = [w for w in A.field_writes(f, r"^self\.value$") if w["kind"] == "assign"]
        st_ok = len(stores) == 1 and stores[0]["bb"] in f.reachable_from(s.bb) and str(stores[0]["rv"]).startswith("Bitmap::into_value(")
        order = iv.bb in f.reachable_from(s.bb) and s.bb not in f.reachable_from(iv.bb)
        ret = [str(e) for _, _, e in f.exits()]
        ok = (a[0] == "%s::into_map(self)" % c.short and a[1] == "%s::flag_to_index(%s)" % (c.short, f.param_name(1))
              and a[2] == f.param_name(2) and same_map and st_ok and order and len(ret) == 1 and ret[0].startswith("Bitmap::set("))
        msg = "set_flag: Bitmap::set(%s) then self.value = into_value(same map: %s), store ok: %s, returns previous: %s" % (
            ", ".join(a), same_map, st_ok, ret)
    ctx.ob("flag-codec:set_flag", ok, msg, where=f.where())
    # MarketConfig::{flag,set_flag} forward
    mc = ctx.adt(r"^gmsol_store::states::market::config::MarketConfig")
    if mc is None:
        return
    for nm, want in (("flag", r"^%s::get_flag\(self\.flag, %%s\)$" % c.short), ("set_flag", r"^%s::set_flag\(self\.flag, %%s, %%s\)$" % c.short)):
        fs = [f for f in H.impl_fns(prog, mc.id) if f.name == nm and not f.trait_item]
        if len(fs) != 1:
            ctx.ob("anchor-missing:fn:MarketConfig::" + nm, False, "missing", where="(anchor)")
            continue
        f = fs[0]
        ctx.analysed_fns.add(f.id)
        ps = tuple(re.escape(f.param_name(i)) for i in range(1, f.arg_count))
        ex = [str(e) for _, _, e in f.exits()]
        ctx.ob("flag-codec:MarketConfig::" + nm, len(ex) == 1 and re.search(want % ps, ex[0]) is not None,
               "MarketConfig::%s forwards its arguments unchanged to the container: %s" % (nm, ex), where=f.where())


def H_borrow_root(f, op):
    n = op[0]
    for (bb, si, proj, rv) in f.defs().get(n, []):
        if proj == () and si != "call" and rv[0] in ("ref", "rawptr") and isinstance(rv[2], list):
            return rv[2][0]
    return n


def _copy_root(f, op):
    n = op[0]
    for _ in range(4):
        ds = [d for d in f.defs().get(n, []) if d[2] == () and d[1] != "call"]
        if len(ds) == 1 and ds[0][3][0] == "use" and isinstance(ds[0][3][1], list) and len(ds[0][3][1]) == 1:
            n = ds[0][3][1][0]
            continue
        break
    return n


# ----------------------------------------------------------------------------- routes

ROUTES = [
    # (fn regex, expected regex over the (single non-error) result expression; %k = key param, %v = value param)
    (r"gmsol_store::states::market::Market::get_config_by_key", r"^MarketConfig::get\(self\.config, %k\)$"),
    (r"gmsol_store::states::market::Market::get_config_by_key_mut", r"^Option::ok_or_else\(MarketConfig::get_mut\(self\.config, %k\), closure<.*>\)$"),
    (r"gmsol_store::states::market::Market::get_config", r"^Option::ok_or_else\(Market::get_config_by_key\(self, Result::map_err\(FromStr::from_str\(%k\), closure<.*>\)\?\), closure<.*>\)$"),
    (r"gmsol_store::states::market::Market::get_config_mut", r"^Market::get_config_by_key_mut\(self, Result::map_err\(FromStr::from_str\(%k\), closure<.*>\)\?\)$"),
    (r"gmsol_store::states::market::Market::get_config_flag_by_key", r"^MarketConfig::flag\(self\.config, %k\)$"),
    (r"gmsol_store::states::market::Market::set_config_flag_by_key", r"^MarketConfig::set_flag\(self\.config, %k, %v\)$"),
    (r"gmsol_store::states::market::Market::get_config_flag", r"^Result::Ok\{0: Market::get_config_flag_by_key\(self, Result::map_err\(FromStr::from_str\(%k\), closure<.*>\)\?\)\}$"),
    (r"gmsol_store::states::market::Market::set_config_flag", r"^Result::Ok\{0: Market::set_config_flag_by_key\(self, Result::map_err\(FromStr::from_str\(%k\), closure<.*>\)\?, %v\)\}$"),
    (r"gmsol_store::states::store::Store::get_amount_by_key", r"^Amounts::get\(self\.amount, %k\)$"),
    (r"gmsol_store::states::store::Store::get_factor_by_key", r"^Factors::get\(self\.factor, %k\)$"),
    (r"gmsol_store::states::store::Store::get_address_by_key", r"^Addresses::get\(self\.address, %k\)$"),
    (r"gmsol_store::states::store::Store::get_amount", r"^Option::ok_or_else\(Store::get_amount_by_key\(self, Result::map_err\(FromStr::from_str\(%k\), closure<.*>\)\?\), closure<.*>\)$"),
    (r"gmsol_store::states::store::Store::get_factor", r"^Option::ok_or_else\(Store::get_factor_by_key\(self, Result::map_err\(FromStr::from_str\(%k\), closure<.*>\)\?\), closure<.*>\)$"),
    (r"gmsol_store::states::store::Store::get_address", r"^Option::ok_or_else\(Store::get_address_by_key\(self, Result::map_err\(FromStr::from_str\(%k\), closure<.*>\)\?\), closure<.*>\)$"),
    (r"gmsol_store::states::store::Store::get_amount_mut", r"^Option::ok_or_else\(Amounts::get_mut\(self\.amount, Result::map_err\(FromStr::from_str\(%k\), closure<.*>\)\?\), closure<.*>\)$"),
    (r"gmsol_store::states::store::Store::get_factor_mut", r"^Option::ok_or_else\(Factors::get_mut\(self\.factor, Result::map_err\(FromStr::from_str\(%k\), closure<.*>\)\?\), closure<.*>\)$"),
    (r"gmsol_store::states::store::Store::get_address_mut", r"^Option::ok_or_else\(Addresses::get_mut\(self\.address, Result::map_err\(FromStr::from_str\(%k\), closure<.*>\)\?\), closure<.*>\)$"),
]


def _routes(ctx, prog):
    n = 0
    for fre, want in ROUTES:
        f = ctx.fn("^" + fre)
        if f is None:
            continue
        n += 1
        k = re.escape(f.param_name(1))
        v = re.escape(f.param_name(2)) if f.arg_count > 2 else "<none>"
        rx = want.replace("%k", k).replace("%v", v)
        res = [str(e) for _, kind, e in f.exits() if kind != "err"]
        ctx.ob("route:" + f.short, len(res) == 1 and re.search(rx, res[0]) is not None,
               "%s forwards its key%s: %s" % (f.short, " and value" if "%v" in want else "", res), where=f.where())
    ctx.floor("route", n, 17)
    f = ctx.fn(r"^gmsol_store::states::market::Market::update_config_with_buffer")
    if f is not None:
        stores = []
        for bb, si, s in f.statements():
            if s[0] == "=" and len(s[1]) >= 2 and s[1][1] == "*" and len(s[1]) == 2:
                d = f.expr([s[1][0]])
                if "MarketConfig::get_mut" in str(d):
                    stores.append((bb, d, f.expr(s[2][1]) if s[2][0] == "use" else f._rvalue_expr(s[2], 0, ())))
        ok = False
        msg = "%d store(s) through MarketConfig::get_mut" % len(stores)
        if len(stores) == 1:
            bb, d, v = stores[0]
            m = re.search(r"MarketConfig::get_mut\(self\.config, Entry::key\((.*?)\)\?\)", str(d))
            m2 = re.match(r"^Entry::value\((.*)\)$", str(v))
            ok = bool(m and m2 and m.group(1) == m2.group(1))
            msg = "stores %s through %s" % (v, d)
        ctx.ob("route:Market::update_config_with_buffer", ok, "update_config_with_buffer writes entry.value() to the slot of entry.key() of the same entry: " + msg, where=f.where())


# ----------------------------------------------------------------------------- writers

WRITER_OWNERS = [
    (r"^gmsol_store::states::market::config::MarketConfig", {"init", "get_mut", "set_flag"}),
    (r"^gmsol_store::states::market::config::MarketConfigFlagContainer", {"set_flag"}),
    (r"^gmsol_store::states::store::Amounts", {"init", "get_mut"}),
    (r"^gmsol_store::states::store::Factors", {"init", "get_mut"}),
    (r"^gmsol_store::states::store::Addresses", {"init", "get_mut"}),
]


def _writers(ctx, prog):
    owners = {}
    for ore, allowed in WRITER_OWNERS:
        a = ctx.adt(ore)
        if a is not None:
            owners[a.id] = (a, allowed)
    found = {k: set() for k in owners}
    for g in prog.fns.values():
        if g.crate != "gmsol_store":
            continue
        for bb, pl, role, mac in H.place_uses(g):
            if role not in ("def", "mutref", "calldest") or len(pl) < 2:
                continue
            chain = H.place_owner_types(prog, g, pl)
            if not chain:
                continue
            # the innermost field written/borrowed
            owner, fld = chain[-1]
            if owner in owners:
                found[owner].add(g.id)
    for oid, (a, allowed) in owners.items():
        members = {f.id: f.name for f in H.impl_fns(prog, oid)}
        bad = sorted(g for g in found[oid] if members.get(g.split("::{closure")[0]) not in allowed)
        ctx.ob("writers:" + a.short, not bad and len(found[oid]) >= 1,
               "fields of %s are stored/mutably borrowed by %s%s" % (a.short, sorted(short(g) for g in found[oid]),
                                                                      "; NOT ALLOWED: %s" % bad if bad else ""),
               where="%s:%d" % (a.file, a.line))


def short(fid):
    from ..model import short_path
    return short_path(fid)


# ----------------------------------------------------------------------------- model bindings


def _bindings(ctx, prog, side, adt_id, table):
    nb = ns = 0
    if adt_id not in prog.adts:
        ctx.ob("anchor-missing:adt:" + adt_id, False, "type not found", where="(anchor)")
        return 0, 0
    methods = G.model_methods(prog, adt_id)
    if side == "prog":
        # inherent accessor used by the liquidity-market wrappers
        f = ctx.fn(r"^gmsol_store::states::market::Market::max_pool_value_for_deposit")
        if f is not None:
            methods[("Market", "max_pool_value_for_deposit")] = f
    const_ok = {tuple(x) for x in table.get("const_sources", [])}
    for (tr, name), f in sorted(methods.items()):
        exits = [(k, e) for _, k, e in f.exits()]
        if not any(re.search(r"\bself\.config\b", str(e)) for _, e in exits):
            continue
        ctx.analysed_fns.add(f.id)
        key = "%s:%s" % (side, name)
        ps = H.paths(f)
        oks = [p for p in ps if p["ret"] is not None and H.unwrap_ok(p["ret"]) is not None]
        # ---- pnl table
        if name == "pnl_factor_config":
            ns += _pnl(ctx, prog, side, f, table)
            continue
        vals = [H.unwrap_ok(p["ret"]) for p in oks]
        # strip SDK-only post-processing wrappers that take the built params as first argument
        def strip(e):
            while e.k == "call" and not re.search(r"Builder::build$", e.a[0]) and e.a[1] and e.a[1][0].k == "call" \
                    and re.search(r"Builder::", e.a[1][0].a[0]):
                e = e.a[1][0]
            return e
        vals = [strip(v) for v in vals]
        if vals and all(v.k == "call" and re.search(r"Builder::build$", v.a[0]) for v in vals):
            seen = set()
            for v in vals:
                bs, ok = G.builder_bindings(v)
                if not ok:
                    ctx.ob("bind:%s:<shape>" % key, False, "%s: builder chain not decomposable: %s" % (f.short, str(v)[:200]), where=f.where())
                    continue
                for cpath, ty, setter, val in bs:
                    src = G.classify_source(val)
                    ident = (cpath, setter, src)
                    if ident in seen:
                        continue
                    seen.add(ident)
                    k2 = "bind:%s:%s" % (key, ".".join(cpath + (setter,)))
                    if src[0] == "const":
                        okc = (side, name, ".".join(cpath + (setter,)), src[1]) in const_ok
                        ctx.ob(k2 + ":const", okc, "%s: %s <- constant %s (%s)" % (f.short, setter, src[1], "tabled" if okc else "NOT tabled"), where=f.where())
                        continue
                    nm = G.source_name(src)
                    if nm is None:
                        ctx.ob(k2, False, "%s: %s <- %s is not a config entry" % (f.short, setter, src[1][:160]), where=f.where())
                        continue
                    nb += 1
                    good, why = G.binding_name_ok(name, cpath, setter, nm)
                    ctx.ob(k2, good, "%s: %s.%s <- %s%s" % (f.short, ty, ".".join(cpath + (setter,)), nm, "" if good else " — " + why), where=f.where())
            continue
        # ---- sided accessor
        bparams = [f.param_name(i) for i in range(1, f.arg_count) if f.locals[i + 1][0] == "bool"]
        if len(bparams) == 1:
            t = G.bool_table(f, bparams[0])
            if t is not None:
                a, b = G.classify_source(H.unwrap_ok(t[True]) or t[True]), G.classify_source(H.unwrap_ok(t[False]) or t[False])
                if a[0] == "field" and b[0] == "field":
                    ns += 1
                    good, why = G.side_pair_ok(name, a[1], b[1])
                    ctx.ob("bind-side:" + key, good, "%s(%s): true -> %s, false -> %s%s" % (f.short, bparams[0], a[1], b[1], "" if good else " — " + why), where=f.where())
                    continue
        # ---- plain accessor
        if len(vals) == 1 and f.arg_count == 1:
            src = G.classify_source(vals[0])
            nm = G.source_name(src)
            if nm is not None:
                nb += 1
                ctx.ob("bind:" + key, nm == name, "%s returns config entry `%s`" % (f.short, nm), where=f.where())
                continue
        ctx.ob("bind:%s:<unclassified>" % key, False, "%s reads the config in a shape the rule does not classify: %s" % (
            f.short, [str(e)[:160] for _, e in exits]), where=f.where())
    return nb, ns


def _pnl(ctx, prog, side, f, table):
    kind_adt = prog.adts.get("gmsol_model::market::base::PnlFactorKind")
    if kind_adt is None:
        ctx.ob("anchor-missing:adt:PnlFactorKind", False, "missing", where="(anchor)")
        return 0
    dm = kind_adt.discr_map()
    kparam, bparam = f.param_name(1), f.param_name(2)
    got = {}
    other = []
    for p in H.paths(f):
        lab = H.discr_on_path(p, r"^%s$" % re.escape(kparam))
        t = H.truth_on_path(p, r"^%s$" % re.escape(bparam))
        if isinstance(lab, int) and t is not None:
            src = G.classify_source(H.unwrap_ok(p["ret"]) or p["ret"])
            got[(dm.get(lab, str(lab)), t)] = src[1] if src[0] == "field" else str(p["ret"])
        else:
            other.append(str(p["ret"]))
    n = 0
    for kind, tmpl in table["pnl_factor_config"].items():
        for is_long in (True, False):
            n += 1
            want = tmpl.replace("{side}", "long" if is_long else "short")
            have = got.get((kind, is_long))
            ctx.ob("bind-side:%s:pnl_factor_config:%s:%s" % (side, kind, "long" if is_long else "short"), have == want,
                   "%s(%s, %s) -> %s (expected %s)" % (f.short, kind, is_long, have, want), where=f.where())
    extra = sorted(k for k in got if k[0] not in table["pnl_factor_config"])
    ctx.ob("bind-side:%s:pnl_factor_config:<other>" % side, not extra and all(o.startswith("Result::Err") for o in other),
           "%s: kinds outside the table %s; remaining paths %s" % (f.short, extra, other), where=f.where())
    return n


# ----------------------------------------------------------------------------- closed-market switch


def _zero_cmp(e):
    """(x, is_zero_test) for `x == 0` / `x != 0` (either operand order), else None."""
    c = A.as_cmp(e)
    if not c or c[0] not in ("==", "!="):
        return None
    a, b = c[1], c[2]
    if str(b) == "0":
        return a, c[0] == "=="
    if str(a) == "0":
        return b, c[0] == "=="
    return None


def _zero_means_none(p, r):
    """Selected value x of an Option-returning accessor whose contract is `None iff x == 0`.
    Accepted shapes: a branch on (x == 0)/(x != 0) returning None on the zero edge and Some(x) otherwise;
    `bool::then_some(x != 0, x)`. Returns (x as E | None, error message | None)."""
    if r is not None and r.k == "call" and r.a[0] == "bool::then_some" and len(r.a[1]) == 2:
        z = _zero_cmp(r.a[1][0])
        if z is None or z[1] or str(z[0]) != str(r.a[1][1]):
            return None, "then_some(%s, %s) is not `(x != 0).then_some(x)`" % (r.a[1][0], r.a[1][1])
        return r.a[1][1], None
    for cond, lab, ty in p["conds"]:
        if ty != "bool":
            continue
        z = _zero_cmp(cond)
        if z is None:
            continue
        truth = isinstance(lab, tuple) or lab != 0
        is_zero = (z[1] == truth)
        if is_zero:
            if not str(r).startswith("Option::None"):
                return None, "zero factor path returns %s" % r
            return z[0], None
        inner = H.unwrap_ok(r)
        if inner is None or str(inner) != str(z[0]):
            return None, "non-zero factor path returns %s (tested value %s)" % (r, z[0])
        return inner, None
    return None, "result %s is not derived from a zero test of the selected factor" % r

USE_CLOSED = r"^MarketConfig::use_market_closed_params\(self, %s\)$"
ENABLE_FLAG = "MarketConfig::flag(self, MarketConfigFlag::EnableMarketClosedParams{})"


def _closed_on_path(p, cparam):
    """Decision `closed-market parameters apply` on a path: the helper call `use_market_closed_params(self, P)` or the
    same conjunction written inline, `P && self.flag(EnableMarketClosedParams)` (directly or through a local).
    Returns (True/False/None, 'helper'|'inline'|None)."""
    t = H.truth_on_path(p, USE_CLOSED % re.escape(cparam))
    if t is not None:
        return t, "helper"
    c = H.truth_on_path(p, r"^%s$" % re.escape(cparam))
    if c is None:
        return None, None
    if c is False:
        return False, "inline"
    fl = H.truth_on_path(p, "^" + re.escape(ENABLE_FLAG) + "$")
    if fl is None:
        return None, None
    return fl, "inline"


def _closed(ctx, prog, side, adt_re):
    adt = ctx.adt(adt_re)
    if adt is None:
        return 0
    fns = {f.name: f for f in H.impl_fns(prog, adt.id) if not f.trait_item}
    n = 0
    f = fns.get("use_market_closed_params")
    helper = f is not None
    n += 1
    inline_used = []
    if helper:
        ctx.analysed_fns.add(f.id)
        cp = f.param_name(1)
        tab = {}
        for p in H.paths(f):
            t = H.truth_on_path(p, r"^%s$" % re.escape(cp))
            tab.setdefault(t, set()).add(str(p["ret"]))
        ctx.ob("closed-switch:%s:use_market_closed_params" % side,
               tab.get(False) == {"false"} and tab.get(True) == {ENABLE_FLAG} and set(tab) == {True, False},
               "%s: !closed -> %s, closed -> %s" % (f.short, sorted(tab.get(False, [])), sorted(tab.get(True, []))), where=f.where())
    for nm in ("min_collateral_factor_for_liquidation", "skip_borrowing_fee_for_smaller_side", "borrowing_fee_base_factor",
               "borrowing_fee_above_optimal_usage_factor"):
        f = fns.get(nm)
        if f is None:
            ctx.ob("anchor-missing:fn:%s:%s" % (side, nm), False, "missing", where="(anchor)")
            continue
        ctx.analysed_fns.add(f.id)
        n += 1
        params = [f.param_name(i) for i in range(1, f.arg_count)]
        cparam = [p for p in params if "closed" in p]
        sparam = [p for p in params if p not in cparam]
        bad = []
        cells = set()
        for p in H.paths(f):
            closed, how = _closed_on_path(p, cparam[0]) if cparam else (None, None)
            if closed is None:
                bad.append("path without a decision on closed && EnableMarketClosedParams (helper or inline) for `%s`" % (cparam[0] if cparam else "?"))
                continue
            if how == "inline":
                inline_used.append(nm)
            sd = H.truth_on_path(p, r"^%s$" % re.escape(sparam[0])) if sparam else None
            r = p["ret"]
            inner = H.unwrap_ok(r)
            if nm == "min_collateral_factor_for_liquidation":
                # Option result: "0 means None" — by a branch on (x == 0) / (x != 0) or by `(x != 0).then_some(x)`
                val, err = _zero_means_none(p, r)
                if err:
                    bad.append(err)
                    continue
            else:
                val = r
            m = re.match(r"^self\.([a-z0-9_]+)$", str(val))
            mf = re.match(r"^MarketConfig::flag\(self, MarketConfigFlag::([A-Za-z0-9]+)\{\}\)$", str(val))
            got = m.group(1) if m else (G.snake(mf.group(1)) if mf else None)
            if closed:
                want = "market_closed_" + nm
            else:
                want = nm + ("" if sd is None else ("_for_long" if sd else "_for_short"))
                if sparam and sd is None:
                    bad.append("open-market path without a decision on %s" % sparam[0])
                    continue
            cells.add((closed, sd if not closed else None))
            if got != want:
                bad.append("closed=%s side=%s -> %s (expected %s)" % (closed, sd, val, want))
        need = {(True, None), (False, None)} if not sparam else {(True, None), (False, True), (False, False)}
        ctx.ob("closed-switch:%s:%s" % (side, nm), not bad and need <= cells,
               "%s: closed -> market_closed_%s, open -> %s%s; cells %s%s" % (
                   f.short, nm, nm, "_for_{long,short}" if sparam else "", sorted(cells, key=str), "; BAD: " + "; ".join(bad) if bad else ""), where=f.where())
    if not helper:
        ctx.ob("closed-switch:%s:use_market_closed_params" % side, len(set(inline_used)) == 4,
               "no use_market_closed_params helper: the conjunction is written inline in %s (need all 4 accessors)" % sorted(set(inline_used)),
               where="%s:%d" % (adt.file, adt.line))
    return n
