"""C34 Fixed-capacity maps behave like sorted maps until full.

For EVERY instantiation of `fixed_map!` / `impl_fixed_map!` the driver finds (store, treasury programs and their SDK twins):

 * search-shape   : `binary_search` = `self.data[..self.len()].binary_search_by(|e| e.key.cmp(key))` (entry key on the left),
                    `len()` = `count as usize`;
 * same-key       : get / get_mut / remove / insert_with_options convert the key with the SAME resolved `$to_key`
                    function and hand exactly that value to `binary_search`;
 * insert-table   : `insert_with_options` decision table: found & new -> Err(AlreadyExist); found & !new ->
                    Ok(Some(replace(value))); absent & len >= CAP -> Err(ExceedMaxLengthLimit); absent & len < CAP ->
                    shift, write, count += 1, Ok(None); the CAP of the guard is the length of `data`;
 * atomic-fail    : no store / `&mut` escape through `self` can reach an `Err` exit of insert_with_options
                    (a failed insert leaves the map unchanged);
 * invariant      : every store to `count` keeps `count <= CAP` (insert under the strict `len < CAP` fact, remove
                    decrements, clear stores 0, Default is zeroed) — so `count <= CAP` is an inductive representation
                    invariant of the type;
 * no-panic       : inventory of every potential panic site (bounds checks of `data[i]`, `i + 1`, `len - 1`,
                    `count += 1`, `count -= 1`, the slice `data[..len]`, `copy_within`) in all methods; each is
                    discharged by affine facts from: dominating guards, the invariant `count <= CAP` at method entry,
                    the std contract of `binary_search_by` on a slice of length len (Ok(i): i < len, Err(i): i <= len),
                    loop ranges; closures passed to `Option::map(binary_search(..).ok(), ..)` inherit `index < len`;
                    the one tabled exception is `insert()`'s `.expect()` (documented convenience wrapper);
 * clear          : `clear` stores `count = 0` on its only return path after resetting entries `0..len`.
"""
import re

from .. import analyses as A
from ..h_E import LinFn, Lin, TERM, INF, inventory
from ..model import short_path

FLOOR_MAPS = 14
METHODS = ["binary_search", "get", "get_mut", "get_entry_by_index", "insert", "insert_with_options", "remove", "len", "is_empty",
           "entries", "entries_mut", "clear"]


def _maps(prog):
    out = []
    for f in prog.fns.values():
        if f.name == "insert_with_options" and any("fixed_map" in m for m in (f.mac or [])):
            out.append(f.id.rsplit("::", 1)[0])
    return sorted(out)


def _label(m):
    s = short_path(m + "::x").split("::")[0]
    crate = m.split("::")[0].replace("gmsol_", "")
    return "%s/%s" % (crate, s)


def _count_atom(L, closure):
    return L._atom(1, ([".^self"] if closure else []) + ["*", ".count"], ty="u32")


def _cap_of(prog, m):
    """array length of `data` from the Index impl used in binary_search"""
    bs = prog.fns.get(m + "::binary_search")
    if bs is None:
        return None, None
    for cs in bs.calls:
        if cs.short == "Index::index":
            mm = re.match(r"^\[.*; (\d+)(?:_usize)?\]$", cs.self_ty or "")
            if mm:
                return int(mm.group(1)), cs
    return None, None


def _search_post(L, closure=False):
    """post-conditions of every `Self::binary_search(self, key)` call in L.fn"""
    n = 0
    for cs in L.fn.calls:
        if (cs.callee or "").endswith("::binary_search") and cs.fn.id.rsplit("::", 1)[0].split("::{closure")[0] == (cs.callee or "").rsplit("::", 1)[0]:
            P = (cs.bb, TERM)
            if len(cs.dest) != 1:
                continue
            r = cs.dest[0]
            cnt = _count_atom(L, closure)
            okv = L._atom(r, ["@Ok", ".0"], ty="usize")
            errv = L._atom(r, ["@Err", ".0"], ty="usize")
            L.assume(cnt.sub(okv).add(Lin({}, -1)), P)
            L.assume(cnt.sub(errv), P)
            n += 1
    return n


def _check_map(ctx, prog, m):
    lab = _label(m)
    fns = {nm: prog.fns.get(m + "::" + nm) for nm in METHODS}
    missing = [nm for nm, f in fns.items() if f is None]
    if missing:
        ctx.ob("anchor-missing:%s" % lab, False, "fixed map %s lacks methods %s" % (m, missing), where=m)
        return
    for f in fns.values():
        ctx.analysed_fns.add(f.id)
    cap, idx_cs = _cap_of(prog, m)
    if cap is None:
        ctx.ob("search-shape:%s" % lab, False, "cannot read the capacity of %s from binary_search's slice" % m, where=fns["binary_search"].where())
        return
    # ------------------------------------------------------------ search-shape
    bs = fns["binary_search"]
    ex = bs.exits()
    e = ex[0][2] if len(ex) == 1 else None
    shape = e is not None and e.k == "call" and e.a[0] == "[T]::binary_search_by" and \
        re.match(r"^Index::index\(self\.data, RangeTo\{end: \w+::len\(self\)\}\)$", str(e.a[1][0])) is not None
    cl = prog.closures_of(bs)
    cmp_ok = len(cl) == 1 and [str(x[2]) for x in cl[0].exits()] == ["Ord::cmp(%s.key, ^%s)" % (cl[0].locals[2][1] or "entry", bs.locals[2][1] or "key")]
    ln = fns["len"].exits()
    len_ok = len(ln) == 1 and str(ln[0][2]) == "(self.count as usize)"
    emp = fns["is_empty"].exits()
    emp_ok = len(emp) == 1 and str(emp[0][2]) in ("(self.count Eq 0)", "(0 Eq self.count)")
    ctx.ob("search-shape:%s" % lab, shape and cmp_ok and len_ok and emp_ok,
           "%s: binary_search = %s; comparator %s; len() = %s; is_empty() = %s" % (
               lab, str(e)[:90], [str(x[2]) for c in cl for x in c.exits()], ln[0][2] if ln else None, emp[0][2] if emp else None),
           where=bs.where(), detail={"capacity": cap})

    # ------------------------------------------------------------ same-key
    conv = {}
    for nm in ("get", "get_mut", "remove", "insert_with_options"):
        f = fns[nm]
        b = [cs for cs in f.calls if (cs.callee or "").endswith("::binary_search")]
        key_param = f.locals[2][1] or "key"
        if len(b) != 1:
            conv[nm] = None
            continue
        arg = b[0].arg_expr(1)
        conv[nm] = (arg.a[2].name if arg.k == "call" and len(arg.a) > 2 else None,
                    [str(x) for x in arg.a[1]] == [key_param] if arg.k == "call" else False,
                    str(b[0].arg_expr(0)) == "self")
    vals = set(v[0] if v else None for v in conv.values())
    ctx.ob("same-key:%s" % lab, len(vals) == 1 and None not in vals and all(v and v[1] and v[2] for v in conv.values()),
           "%s: get/get_mut/remove/insert_with_options all search for %s(key): %s" % (lab, sorted(str(v) for v in vals), conv),
           where=fns["get"].where())

    # ------------------------------------------------------------ insert-table + atomic-fail
    ins = fns["insert_with_options"]
    L = LinFn(ins, prog)
    cnt = _count_atom(L, False)
    L.assume(Lin({}, cap).sub(cnt))
    _search_post(L)
    new_param = ins.locals[4][1] or "new"
    rows = {}
    for bb, k, ee in ins.exits():
        gs = ins.guards(bb)
        found = None
        for (g, cond, allowed, labels) in gs:
            if cond.k == "discr" and re.match(r"^\w+::binary_search\(self, ", str(cond.a[0])):
                found = True if allowed == frozenset([0]) else False if allowed == frozenset([1]) else None
        newv = None
        for c, t in ins.bool_guards(bb):
            if str(c) == new_param:
                newv = t
        full = None
        for F in L.facts_at((bb, 0)):
            if F == cnt.add(Lin({}, -cap)):
                full = True
            if F == Lin({}, cap - 1).sub(cnt):
                full = False
        s = str(ee)
        if k == "err":
            mm = re.search(r"GeneralError::(\w+)\{\}", s)
            res = "Err(%s)" % (mm.group(1) if mm else "?")
        else:
            res = "Ok(Some(replace))" if re.match(r"^Result::Ok\{0: Option::Some\{0: mem::replace\(self\.data\[\w+::binary_search\(self, .*\)@Ok\.0\]\.value, %s\)\}\}$" % (ins.locals[3][1] or "value"), s) \
                else "Ok(None)" if s == "Result::Ok{0: Option::None{}}" else "?"
        rows[(found, newv, full)] = res
    want = {(True, True, None): "Err(AlreadyExist)", (True, False, None): "Ok(Some(replace))",
            (False, None, True): "Err(ExceedMaxLengthLimit)", (False, None, False): "Ok(None)"}
    ctx.ob("insert-table:%s" % lab, rows == want, "%s insert_with_options (found,new,len>=%d) -> %s" % (lab, cap, {str(k): v for k, v in rows.items()}),
           where=ins.where(), detail={"want": {str(k): v for k, v in want.items()}})
    # writes before a failing exit
    errs = [bb for bb, k, _ in ins.exits() if k == "err"]
    offenders = []
    for (wb, wi, pl) in L.mem_events():
        if pl[0] != 1:
            continue
        for eb in errs:
            if ins.can_reach(wb, eb):
                offenders.append((LinFn._pl_str(pl), wb, eb))
    ctx.ob("atomic-fail:%s" % lab, not offenders and len(errs) == 2 and len([1 for w in L.mem_events() if w[2][0] == 1]) >= 4,
           "%s: none of the %d writes through `self` in insert_with_options can reach one of its %d Err exits%s" % (
               lab, len([1 for w in L.mem_events() if w[2][0] == 1]), len(errs), "; OFFENDING %s" % offenders[:3] if offenders else ""),
           where=ins.where())
    # the new entry is {key: to_key(key), value} written at the insertion index, after the shift loop
    st = [(bb, si, s) for bb, si, s in ins.statements() if s[0] == "=" and len(s[1]) >= 4 and s[1][1:3] == ["*", ".data"] and
          s[2][0] == "use" and not isinstance(s[2][1], dict) and len(s[2][1]) == 1]
    ent_ok = False
    shift_ok = False
    for bb, si, s in st:
        idx = L.lin_op([int(s[1][3][2:-1])], (bb, si)) if re.match(r"^\[_\d+\]$", s[1][3]) else None
        src = ins.expr(s[2][1])
        if src.k == "agg" and [n for n, _ in src.a[1]] == ["key", "value"]:
            kv = dict(src.a[1])
            errv = [a for a in (idx.c if idx is not None else {}) if a.endswith("@Err.0")]
            ent_ok = str(kv["value"]) == (ins.locals[3][1] or "value") and kv["key"].k == "call" and len(errv) == 1 and idx == Lin.atom(errv[0])
        elif src.k == "index" or re.match(r"^self\.data\[", str(src)):
            # data[i+1] = data[i]
            d = L._single_def(s[2][1][0])
            if d is not None and d[1] != "call" and d[3][0] == "use" and not isinstance(d[3][1], dict) and len(d[3][1]) == 4 and re.match(r"^\[_\d+\]$", d[3][1][3]):
                j = L.lin_op([int(d[3][1][3][2:-1])], (d[0], d[1]))
                shift_ok = idx is not None and j is not None and idx == j.add(Lin({}, 1))
    ctx.ob("insert-table:%s:write" % lab, ent_ok and shift_ok,
           "%s: entries [index..len) are shifted by one (data[i+1] = data[i]: %s) and {to_key(key), value} is stored at the Err(index) position (%s)" % (lab, shift_ok, ent_ok),
           where=ins.where())

    # ------------------------------------------------------------ invariant + no-panic over all methods
    bodies = []
    for nm, f in fns.items():
        bodies.append((nm, f, False))
        for c in prog.closures_of(f):
            bodies.append((nm + "::closure", c, True))
    n_sites = 0
    n_count_stores = 0
    for nm, f, is_cl in bodies:
        Lf = L if f is ins else LinFn(f, prog)
        cntf = _count_atom(Lf, is_cl)
        if f is not ins:
            Lf.assume(Lin({}, cap).sub(cntf))
            _search_post(Lf, is_cl)
        if is_cl and nm in ("get::closure", "get_mut::closure", "remove::closure"):
            # closure runs only on the Some(index) of `binary_search(..).ok()`: index < len
            parent = fns[nm.split("::")[0]]
            pe = parent.exits()
            chain = len(pe) == 1 and re.match(r"^Option::map\(Result::ok\(\w+::binary_search\(self, .*\)\), closure<.*>\)$", str(pe[0][2])) is not None
            ctx.ob("no-panic:%s:%s:runs-on-found-index" % (lab, nm), chain, "%s is `binary_search(self, key).ok().map(closure)`: the closure only receives a found index" % parent.short,
                   where=parent.where(), nontrivial=False)
            if chain and f.arg_count == 2:
                Lf.assume(cntf.sub(Lf._atom(2, [], ty="usize")).add(Lin({}, -1)))
        for r in inventory(Lf):
            n_sites += 1
            key, ok, msg = r["key"], r["ok"], r["msg"]
            if nm == "insert" and key.startswith("expect:"):
                ctx.ob("no-panic:%s:insert:expect" % lab, True, "tabled: insert() = insert_with_options(.., false).expect(..) is the documented "
                       "panicking convenience wrapper (a full map aborts the transaction, state unchanged)", where=f.where(r["line"]), nontrivial=False)
                continue
            ctx.ob("no-panic:%s:%s:%s" % (lab, nm, key), ok, "%s::%s: %s" % (lab, nm, msg), where=f.where(r["line"]))
        # copy_within(src_range, dest)
        for cs in f.calls:
            if cs.short == "[T]::copy_within":
                S = (cs.bb, TERM)
                rg = Lf.range_of(cs.args[1], S)
                dst = Lf.lin_op(cs.args[2], S)
                n_sites += 1
                ok = False
                msg = "copy_within with a non-affine range"
                if rg and rg[0] == "Range" and dst is not None:
                    a, b = rg[1], rg[2]
                    o1, _ = Lf.nonneg(b.sub(a), S)
                    o2, _ = Lf.nonneg(Lin({}, cap).sub(b), S)
                    o3, _ = Lf.nonneg(Lin({}, cap).sub(dst.add(b.sub(a))), S)
                    ok = o1 and o2 and o3
                    msg = "copy_within(%s..%s -> %s): start<=end %s, end<=%d %s, dest+n<=%d %s" % (Lf.render(a), Lf.render(b), Lf.render(dst), o1, cap, o2, cap, o3)
                    shift = dst.add(Lin({}, 1)) == a and b == cntf
                    ctx.ob("remove-shape:%s" % lab, shift, "%s remove: entries (index, len) move down by one (copy_within(index+1..len, index))" % lab, where=cs.where())
                ctx.ob("no-panic:%s:%s:copy_within" % (lab, nm), ok, "%s::%s: %s" % (lab, nm, msg), where=cs.where())
        # stores to count keep the invariant
        for bb, si, s in f.statements():
            if s[0] != "=" or "*" not in s[1][1:] or s[1][-1] != ".count":
                continue
            pl = Lf.canon_place(s[1])
            if LinFn._pl_str(pl) != list(cntf.c)[0]:
                continue
            n_count_stores += 1
            v = None
            if s[2][0] == "use":
                v = Lf.lin_op(s[2][1], (bb, si))
            ok = False
            why = "value not affine"
            if v is not None:
                ok, why = Lf.nonneg(Lin({}, cap).sub(v), (bb, si))
            ctx.ob("invariant:%s:%s:count=%s" % (lab, nm, Lf.render(v) if v is not None else "?"), ok,
                   "%s::%s stores count = %s; count <= %d %s" % (lab, nm, Lf.render(v) if v is not None else "?", cap, "by " + why if ok else "NOT implied; " + why),
                   where=f.where(f.stmt_line(s)))
    ctx.ob("invariant:%s:stores" % lab, n_count_stores == 3, "%s: `count` is stored at %d sites (insert_with_options, remove, clear)" % (lab, n_count_stores),
           where=ins.where(), nontrivial=False)

    # a fresh map is all-zero (count = 0)
    dflt = [f for f in prog.fns.values() if f.name == "default" and f.impl and f.impl.get("self_adt") == m and (f.trait_item or "").endswith("Default::default")]
    for f in dflt:
        ex = [str(e) for _, _, e in f.exits()]
        ctx.ob("invariant:%s:default" % lab, ex == ["Zeroable::zeroed()"], "%s::default() = %s (count starts at 0)" % (lab, ex), where=f.where())

    # ------------------------------------------------------------ clear
    cl = fns["clear"]
    Lc = LinFn(cl, prog)
    zero = [(bb, si) for bb, si, s in cl.statements() if s[0] == "=" and s[1][-1] == ".count" and s[2][0] == "use" and Lc.const_int(s[2][1]) == 0]
    rets = [i for i, b in enumerate(cl.blocks) if b["t"][0] == "ret"]
    okc = len(zero) == 1 and len(rets) == 1 and (zero[0][0] == rets[0] or cl.dominates(zero[0][0], rets[0]))
    ctx.ob("clear:%s" % lab, okc, "%s clear(): `count = 0` is stored on every path to the return" % lab, where=cl.where())
    return n_sites


def run(ctx):
    prog = ctx.prog(["gmsol_utils", "gmsol_store", "gmsol_treasury", "gmsol_programs"])
    ctx.explanation = (
        "Every instantiation of the fixed_map!/impl_fixed_map! macros (enumerated from the MIR bodies they generate, 14 today) is "
        "checked method by method: shape of the sorted search, one key conversion shared by all operations, the decision table of "
        "insert_with_options including 'full map => Err before any write through self', the inductive invariant count <= CAP over "
        "all stores to `count`, and a panic-site inventory of all methods discharged by affine facts (dominating guards, the "
        "invariant at entry, binary_search_by's contract, loop ranges).")
    ctx.not_decided = (
        "Equivalence with an ordinary sorted map over operation histories (sortedness of keys, lookups after shifts) is data-structure "
        "semantics and is not decided. Freedom from out-of-bounds is shown under the representation invariant count <= CAP, which is "
        "proved inductive for the map's own methods; a zero-copy account whose bytes carry a corrupted count is outside the claim. "
        "`insert()` (the `.expect` wrapper) panics on a full map by design and is tabled.")
    ctx.rule("search-shape", "binary_search is binary_search_by over data[..len()] comparing entry.key to the key; len = count")
    ctx.rule("same-key", "all keyed operations use the same resolved key conversion and search for its result")
    ctx.rule("insert-table", "insert_with_options decision table (found x new x full) and the shift/write shape")
    ctx.rule("atomic-fail", "no write through self can reach an Err exit of insert_with_options")
    ctx.rule("invariant", "every store to count keeps count <= CAP")
    ctx.rule("no-panic", "every potential panic site of every method is discharged by affine facts (or is insert()'s tabled expect)")
    ctx.rule("remove-shape", "remove shifts (index, len) down by one")
    ctx.rule("clear", "clear stores count = 0 on every return path")
    maps = _maps(prog)
    ctx.floor("maps", len(maps), FLOOR_MAPS)
    total = 0
    for m in maps:
        total += ctx.guard("map:" + _label(m), _check_map, ctx, prog, m) or 0
    ctx.floor("no-panic:sites", total, 14 * 17)
