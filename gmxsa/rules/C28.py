"""C28 Chainlink reports are decoded safely and converted faithfully.

Decided on the MIR of gmsol-chainlink-datastreams (+ gmsol-utils helpers):

 * no-panic       : inventory of every potential panic site (overflow/bounds/div asserts, slice indexing, unwrap/expect,
                    pow, diverging calls) of the decoding and conversion functions; each is discharged by affine facts
                    (`a <= b <= len` for every `payload[a..b]`, loop variable in 0..3, `checked_add` results, sub-slices of
                    statically known length, `try_into::<[u8; N]>` of an N-byte slice) or must be a tabled exception
                    (tables/C28.json, one reason each); anything new is a violation;
 * blob-slice     : the blob returned by `decode_full_report` is `payload[o+32 .. o+32+n]` with `o` = big-endian low 8
                    bytes of word 3 (`payload[96..128][24..32]`), `n` = the same bytes of `payload[o..o+32]`, `o >= 128`;
 * version-dispatch: `decode` calls `ReportDataV<n>::decode` exactly under version label n for n in {2,3,7,8,11},
                    any other version returns `Err(UnsupportedVersion)`;
 * field-map      : per version the Report's price/bid/ask come from the tabled decoded fields (bid<-bid, ask<-ask where
                    the schema has them, otherwise all three from the price field), each through `bigint_to_signed(..)?`;
 * sign           : `non_negative` returns Some(magnitude) exactly for sign = true; `non_negative_{price,bid,ask}` read the
                    field of the same name;
 * convert        : `from_chainlink_report`: price/bid/ask come from `non_negative_*` + `ok_or(..)?` (negatives rejected);
                    at the construction site `ask >= price >= bid` holds (dominating comparisons); all three are divided
                    by the SAME divisor `TEN.pow(find_divisor_decimals(ask))` with exponent <= DECIMALS (no wrap, non-zero);
                    stored decimals = DECIMALS - that exponent; arguments reach `PriceFeedPrice::new` in the order
                    (decimals, ts, price, min<-bid, max<-ask, diff) and `new` stores each parameter in its field;
                    timestamp arithmetic uses only checked_mul/checked_sub/abs_diff/div_ceil/try_from.
"""
import json
import os
import re

from .. import analyses as A
from ..h_E import LinFn, Lin, TERM, INF, inventory, consumed_by_try
from ..model import short_path

TABLE = os.path.join(os.path.dirname(os.path.dirname(os.path.dirname(os.path.abspath(__file__)))), "tables", "C28.json")

DECODE_FNS = [
    r"gmsol_chainlink_datastreams::report::decode_full_report",
    r"gmsol_chainlink_datastreams::report::decode_compressed_full_report",
    r"gmsol_chainlink_datastreams::report::decode",
    r"gmsol_chainlink_datastreams::report::decode_feed_id",
    r"gmsol_chainlink_datastreams::report::decode_version",
    r"gmsol_chainlink_datastreams::report::bigint_to_u192",
    r"gmsol_chainlink_datastreams::report::biguint_to_u192",
    r"gmsol_chainlink_datastreams::report::bigint_to_signed",
    r"gmsol_chainlink_datastreams::report::non_negative",
    r"gmsol_chainlink_datastreams::report::decode_market_status",
    r"gmsol_chainlink_datastreams::report::decode_extended_market_status",
    r"gmsol_chainlink_datastreams::report::Report::non_negative_(price|bid|ask)",
    r"gmsol_chainlink_datastreams::report::Report::last_update_timestamp",
    r"gmsol_chainlink_datastreams::report::Report::extended_market_status",
    r"gmsol_chainlink_datastreams::utils::Compressor::decompress",
    r"gmsol_chainlink_datastreams::gmsol::<impl .*FromChainlinkReport for .*PriceFeedPrice>::from_chainlink_report",
    r"gmsol_chainlink_datastreams::gmsol::canonical_market_status",
    r"gmsol_chainlink_datastreams::gmsol::<impl .*From<.*ExtendedMarketStatus> for .*MarketStatus>::from",
    r"gmsol_utils::price::find_divisor_decimals",
    r"gmsol_utils::price::get_power_bounds",
    r"gmsol_utils::price::feed_price::PriceFeedPrice::(new|set_flag|set_market_status)",
]
U192_MAX_POW10 = 57      # 10^57 < 2^192 < 10^58


def _uint_pow_exponent(L, cs):
    """`TEN.pow(U192::from(x))` -> affine form of x, or None"""
    base = str(cs.arg_expr(0))
    if not re.search(r"price::TEN$", base):
        return None
    a = cs.args[1]
    if isinstance(a, dict) or len(a) != 1:
        return None
    d = L._single_def(a[0])
    if d is None or d[1] != "call" or d[3].short != "Uint::from":
        return None
    return L.lin_op(d[3].args[0], (d[3].bb, TERM))


def _no_panic(ctx, prog, table):
    tabled = table["tabled_panics"]
    n_fns = 0
    n_sites = 0
    for pat in DECODE_FNS:
        fs = ctx.fns(pat)
        for f in fs + [c for g in fs for c in prog.closures_of(g)]:
            n_fns += 0 if "{closure" in f.id else 1
            L = LinFn(f, prog)
            tab = tabled.get(f.short, {})
            seen = {}
            for r in inventory(L):
                n_sites += 1 if r["kind"] == "slice" else 0
                ok, msg, key = r["ok"], r["msg"], r["key"]
                if not ok and key == "pow:Uint::pow":
                    cs = f.call_in_block(r["bb"])
                    e = _uint_pow_exponent(L, cs)
                    if e is not None:
                        u = L.ub(e, (cs.bb, TERM))
                        ok = u <= U192_MAX_POW10
                        key = "pow10-u192:%s" % L.render(e)
                        msg = "TEN.pow(%s): exponent <= %s (10^57 < 2^192: no wrap, non-zero)" % (L.render(e), u)
                if not ok and key in tab:
                    seen[key] = seen.get(key, 0) + 1
                    if seen[key] <= tab[key]["count"]:
                        ctx.ob("no-panic:%s:%s" % (f.short, key), True, "tabled exception #%d: %s — %s" % (seen[key], msg, tab[key]["reason"][:160]),
                               where=f.where(r["line"]), nontrivial=False)
                        continue
                    msg += " (more sites than the %d tabled)" % tab[key]["count"]
                ctx.ob("no-panic:%s:%s" % (f.short, key), ok, msg, where=f.where(r["line"]))
            for key, ent in tab.items():
                ctx.ob("no-panic:%s:tabled:%s" % (f.short, key), seen.get(key, 0) == ent["count"],
                       "tabled exception `%s` matches %d site(s) (table says %d)" % (key, seen.get(key, 0), ent["count"]), where=f.where(), nontrivial=False)
            # divisions through the Div trait on U192: divisor must be a non-wrapping power of ten
            for cs in f.calls:
                if cs.short in ("Div::div", "DivAssign::div_assign", "Rem::rem") and re.search(r"Uint", cs.name or cs.gargs or ""):
                    dv = cs.args[1]
                    d = L._single_def(dv[0]) if not isinstance(dv, dict) and len(dv) == 1 else None
                    while d is not None and d[1] != "call" and d[3][0] == "use" and not isinstance(d[3][1], dict) and len(d[3][1]) == 1:
                        d = L._single_def(d[3][1][0])
                    e = _uint_pow_exponent(L, d[3]) if d is not None and d[1] == "call" and d[3].short == "Uint::pow" else None
                    u = L.ub(e, (d[3].bb, TERM)) if e is not None else INF
                    ctx.ob("no-panic:%s:uint-div:%s" % (f.short, L.render(e) if e is not None else "?"), u <= U192_MAX_POW10,
                           "U192 division by TEN.pow(%s), exponent <= %s: divisor non-zero" % (L.render(e) if e is not None else "?", u), where=cs.where())
    ctx.floor("no-panic:functions", n_fns, 25)
    ctx.floor("no-panic:slice-sites", n_sites, 8)


def _slice_chain(e):
    """E of nested Index::index(.., Range{..}) -> (base_str, [(start_str, end_str), ...]) outermost last"""
    chain = []
    while e.k == "call" and e.a[0] == "Index::index" and len(e.a[1]) == 2 and e.a[1][1].k == "agg":
        flds = dict(e.a[1][1].a[1])
        chain.append((str(flds.get("start", "")), str(flds.get("end", ""))))
        e = e.a[1][0]
    return str(e), list(reversed(chain))


def _be_word(fn, local):
    """local = usize::from_be_bytes(<slice chain>.try_into().map_err(..)?) -> (base, chain) or None"""
    ds = [d for d in fn.defs().get(local, []) if d[2] == ()]
    if len(ds) != 1 or ds[0][1] != "call" or not re.search(r"usize>::from_be_bytes$|usize::from_be_bytes$", ds[0][3].callee or ds[0][3].short):
        return None
    e = ds[0][3].arg_expr(0)
    if e.k != "try":
        return None
    e = e.a[0]
    if e.k == "call" and e.a[0] == "Result::map_err":
        e = e.a[1][0]
    if not (e.k == "call" and e.a[0] == "TryInto::try_into"):
        return None
    return _slice_chain(e.a[1][0])


def _follow_to_call(L, op, depth=0):
    """operand -> producing CallSite through moves and `?` / map_err adaptors"""
    if isinstance(op, dict) or depth > 8:
        return None
    d = L._single_def(op[0])
    if d is None:
        return None
    if d[1] == "call":
        cs = d[3]
        if cs.short in ("Try::branch", "Result::map_err", "Option::ok_or"):
            return _follow_to_call(L, cs.args[0], depth + 1)
        return cs
    if d[3][0] in ("use", "ref") and not isinstance(d[3][-1] if d[3][0] == "use" else d[3][2], dict):
        return _follow_to_call(L, d[3][1] if d[3][0] == "use" else d[3][2], depth + 1)
    return None


def _blob(ctx, prog):
    f = ctx.fn(r"gmsol_chainlink_datastreams::report::decode_full_report")
    if f is None:
        return
    L = LinFn(f, prog)
    payload = f.locals[1][1] or "payload"
    oks = [(bb, e) for bb, k, e in f.exits() if k == "ok"]
    ctx.floor("blob-slice:ok-exit", len(oks), 1)
    for bb, e in oks:
        blob = None
        if e.k == "agg" and e.a[1] and e.a[1][0][1].k == "agg" and len(e.a[1][0][1].a[1]) == 2:
            blob = e.a[1][0][1].a[1][1][1]
        cs = blob.a[2] if blob is not None and blob.k == "call" and blob.a[0] == "Index::index" and len(blob.a) > 2 else None
        if cs is None:
            ctx.ob("blob-slice:shape", False, "Ok(.., blob): blob is not a slice of the payload (%s)" % (str(blob)[:80]), where=f.where())
            continue
        S = (cs.bb, TERM)
        rg = L.range_of(cs.args[1], S)
        base = str(cs.arg_expr(0))
        good = rg is not None and rg[0] == "Range" and base == payload
        offs = lens = None
        if good:
            a, b = rg[1], rg[2]
            # a = o + 32 ; b - a = n ; o, n single atoms
            at = [x for x in a.c if a.c[x] == 1]
            ln = b.sub(a)
            good = len(a.c) == 1 and len(at) == 1 and a.k == 32 and len(ln.c) == 1 and ln.k == 0 and list(ln.c.values()) == [1]
            if good:
                offs, lens = at[0], list(ln.c)[0]
        ctx.ob("blob-slice:range", bool(good), "blob = %s[%s .. %s] (want payload[o+32 .. o+32+n])" % (
            base, L.render(rg[1]) if rg and rg[1] is not None else "?", L.render(rg[2]) if rg and rg[2] is not None else "?"), where=cs.where())
        if not good:
            continue
        from ..h_E import _base
        wo = _be_word(f, _base(offs))
        wl = _be_word(f, _base(lens))
        ctx.ob("blob-slice:offset-word", wo == (payload, [("96", "128"), ("24", "Report::WORD_SIZE")]) or wo == (payload, [("96", "128"), ("24", "32")]) or wo == (payload, [("120", "128")]),
               "offset o = usize::from_be_bytes(%s%s) (want payload[96..128][24..32])" % (wo[0] if wo else "?", wo[1] if wo else ""), where=f.where())
        okl = False
        if wl is not None and wl[0] == payload and len(wl[1]) == 2 and wl[1][1] in (("24", "Report::WORD_SIZE"), ("24", "32")):
            # first range must be [o .. o+32]
            for c2 in f.calls:
                if c2.short == "Index::index" and str(c2.arg_expr(0)) == payload:
                    r2 = L.range_of(c2.args[1], (c2.bb, TERM))
                    if r2 and r2[0] == "Range" and r2[1] == Lin.atom(offs) and r2[2] == Lin({offs: 1}, 32):
                        okl = True
        ctx.ob("blob-slice:length-word", okl, "length n = usize::from_be_bytes(payload[o..o+32][24..32]) (%s)" % (wl,), where=f.where())
        ok, why = L.nonneg(Lin({offs: 1}, -128), S)
        ctx.ob("blob-slice:offset>=128", ok, "o >= 128 at the blob slice %s" % ("by " + why if ok else "NOT implied"), where=cs.where())
    # context words: report_context[i] = payload[32 i .. 32 i + 32]
    n_st = 0
    for bb, si, st in f.statements():
        if st[0] != "=":
            continue
        idx = None
        if len(st[1]) == 2 and re.match(r"^\[_\d+\]$", st[1][1]) and re.search(r"\[\[u8; 32\]; 3\]", f.locals[st[1][0]][0]):
            idx = L.lin_op([int(st[1][1][2:-1])], (bb, si))                 # report_context[i] = ..
        elif st[1][1:] == ["*"]:
            d = L._single_def(st[1][0])                                     # *slot = .. with (i, slot) from iter_mut().enumerate()
            if d is not None and d[1] != "call" and d[3][0] == "use" and not isinstance(d[3][1], dict) and list(d[3][1][1:]) == ["@Some", ".0", ".1"]:
                cand = L._lin_place(d[3][1][0], ["@Some", ".0", ".0"], (bb, si), 0)
                if cand is not None and list(cand.c) and list(cand.c)[0] in L.alias:
                    idx = cand
        if idx is None:
            continue
        n_st += 1
        src = _follow_to_call(L, st[2][1]) if st[2][0] == "use" else None
        okc = False
        desc = "?"
        if src is not None and src.short == "TryInto::try_into":
            ix = _follow_to_call(L, src.args[0])
            if ix is not None and ix.short == "Index::index" and str(ix.arg_expr(0)) == payload:
                rg = L.range_of(ix.args[1], (ix.bb, TERM))
                if rg and rg[0] == "Range" and idx is not None:
                    desc = "%s[%s..%s]" % (payload, L.render(rg[1]), L.render(rg[2]))
                    okc = rg[1] == idx.scale(32) and rg[2] == idx.scale(32).add(Lin({}, 32))
        ctx.ob("blob-slice:context-words", okc, "report_context[%s] = %s (want payload[32*i .. 32*i+32] with the same i)" % (
            L.render(idx) if idx is not None else "?", desc), where=f.where(f.stmt_line(st)))
    ctx.floor("blob-slice:context-words", n_st, 1)


def _versions(ctx, prog, table):
    f = ctx.fn(r"gmsol_chainlink_datastreams::report::decode")
    if f is None:
        return
    vers = table["versions"]

    def label_of(bb):
        for g in f.guards(bb):
            if re.match(r"^report::decode_version\(", str(g[1])) and g[1].k == "call":
                return sorted(g[2], key=str)
        return None

    found = {}
    for cs in f.calls:
        m = re.match(r"^ReportDataV(\d+)::decode$", cs.short)
        if not m:
            continue
        lab = label_of(cs.bb)
        n = m.group(1)
        found.setdefault(n, []).append(lab)
        ctx.ob("version-dispatch:v%s" % n, lab == [int(n)] and n in vers and str(cs.arg_expr(0)) == (f.locals[1][1] or "data"),
               "ReportDataV%s::decode(%s) is called under version label %s" % (n, cs.arg_expr(0), lab), where=cs.where())
    ctx.floor("version-dispatch", len(found), 5)
    for n in vers:
        if n not in found:
            ctx.ob("version-dispatch:v%s" % n, False, "tabled version %s has no decoder call" % n, where=f.where())
    unsup = [(bb, e) for bb, k, e in f.exits() if k == "err" and "UnsupportedVersion" in str(e)]
    ok = len(unsup) == 1 and label_of(unsup[0][0]) == ["otherwise"] and re.search(r"UnsupportedVersion\{0: report::decode_version\(", str(unsup[0][1]))
    ctx.ob("version-dispatch:otherwise", bool(ok), "every other version returns Err(UnsupportedVersion(version)) (%d such exit)" % len(unsup), where=f.where())
    sw = [b for b in range(len(f.blocks)) if f.blocks[b]["t"][0] == "switch" and re.match(r"^report::decode_version\(", str(f.switch_expr(b)))]
    labs = sorted(int(v) for b in sw for v, _ in f.blocks[b]["t"][2])
    ctx.ob("version-dispatch:set", labs == sorted(int(v) for v in vers), "supported versions %s == tabled %s" % (labs, sorted(int(v) for v in vers)), where=f.where())
    # field map
    n_ok = 0
    for bb, k, e in f.exits():
        if k != "ok":
            continue
        lab = label_of(bb)
        if not lab or len(lab) != 1 or str(lab[0]) not in vers:
            ctx.ob("field-map:?", False, "Ok exit under version label %s" % lab, where=f.where())
            continue
        n_ok += 1
        v = vers[str(lab[0])]
        flds = dict(e.a[1][0][1].a[1]) if e.k == "agg" and e.a[1] and e.a[1][0][1].k == "agg" else {}
        src = {}
        for nm in ("price", "bid", "ask"):
            m = re.match(r"^report::bigint_to_signed\(%s::decode\(\w+\)\?\.(\w+)\)\?$" % v["decoder"], str(flds.get(nm)))
            src[nm] = m.group(1) if m else None
        want = {"price": v["price"], "bid": "bid" if v["bid_ask"] else v["price"], "ask": "ask" if v["bid_ask"] else v["price"]}
        ctx.ob("field-map:v%s" % lab[0], src == want, "v%s: price<-%s bid<-%s ask<-%s (tabled %s)" % (lab[0], src["price"], src["bid"], src["ask"], want), where=f.where())
        fees = all(re.match(r"^report::bigint_to_u192\(%s::decode\(\w+\)\?\.%s\)\?$" % (v["decoder"], nm), str(flds.get(nm))) for nm in ("native_fee", "link_fee"))
        ts = all(re.match(r"^%s::decode\(\w+\)\?\.%s$" % (v["decoder"], nm), str(flds.get(nm))) for nm in ("feed_id", "valid_from_timestamp", "observations_timestamp", "expires_at"))
        ctx.ob("field-map:v%s:same-named" % lab[0], fees and ts, "v%s: fees / timestamps / feed_id come from the fields of the same name" % lab[0], where=f.where())
    ctx.floor("field-map", n_ok, 5)


def _sign(ctx, prog):
    f = ctx.fn(r"gmsol_chainlink_datastreams::report::non_negative")
    if f is not None:
        tab = {}
        for p in A.decision_table(f):
            if p["diverges"] or not A.feasible(p):
                continue
            for c, l, t in p["conds"]:
                if re.match(r"^\w+\.0$", str(c)) and t == "bool":
                    tab[(l != 0) if not isinstance(l, tuple) else True] = str(p["ret"])
        nm = f.locals[1][1] or "num"
        ctx.ob("sign:non_negative", tab == {True: "Option::Some{0: %s.1}" % nm, False: "Option::None{}"},
               "non_negative((sign, mag)) = %s (want true -> Some(mag), false -> None)" % tab, where=f.where())
    for nm in ("price", "bid", "ask"):
        g = ctx.fn(r"gmsol_chainlink_datastreams::report::Report::non_negative_%s" % nm)
        if g is not None:
            ex = g.exits()
            ctx.ob("sign:non_negative_%s" % nm, len(ex) == 1 and str(ex[0][2]) == "report::non_negative(self.%s)" % nm,
                   "non_negative_%s() = %s" % (nm, ex[0][2] if ex else None), where=g.where())


def _convert(ctx, prog):
    f = ctx.fn(r"gmsol_chainlink_datastreams::gmsol::<impl .*FromChainlinkReport for .*PriceFeedPrice>::from_chainlink_report")
    new = ctx.fn(r"gmsol_utils::price::feed_price::PriceFeedPrice::new")
    dec = ctx.const(r"gmsol_chainlink_datastreams::report::Report::DECIMALS")
    if f is None or new is None or dec is None:
        return
    L = LinFn(f, prog)
    # PriceFeedPrice::new stores each parameter in the field of the same name
    ex = [e for bb, k, e in new.exits()]
    flds = dict(ex[0].a[1]) if len(ex) == 1 and ex[0].k == "agg" else {}
    pnames = [new.locals[i + 1][1] for i in range(new.arg_count)]
    ctx.ob("convert:new-fields", pnames == ["decimals", "ts", "price", "min_price", "max_price", "last_update_diff"] and
           all(str(flds.get(p)) == p for p in pnames),
           "PriceFeedPrice::new(%s) stores every parameter in the field of its name" % ", ".join(str(p) for p in pnames), where=new.where())
    calls = [cs for cs in f.calls if short_path(cs.callee or "") == "PriceFeedPrice::new"]
    ctx.floor("convert:new-call", len(calls), 1)
    for cs in calls:
        S = (cs.bb, TERM)
        if len(cs.args) != 6:
            ctx.ob("convert:args", False, "PriceFeedPrice::new call with %d args" % len(cs.args), where=cs.where())
            continue
        want_src = {2: "price", 3: "bid", 4: "ask"}
        nums, divs, srcs = {}, {}, {}
        for i, nm in want_src.items():
            a = cs.args[i]
            src = L._payload_source(a[0], None) if not isinstance(a, dict) and len(a) == 1 else None    # unwrap <- try_into <- Div::div
            # walk: unwrap(try_into(div(x, d)))
            div = None
            cur = a
            for _ in range(4):
                d = L._single_def(cur[0]) if not isinstance(cur, dict) and len(cur) == 1 else None
                if d is None or d[1] != "call":
                    break
                c2 = d[3]
                if c2.short == "Div::div":
                    div = c2
                    break
                if c2.short in ("Result::unwrap", "TryInto::try_into", "Result::expect"):
                    cur = c2.args[0]
                    continue
                break
            if div is None:
                continue
            nums[nm] = L.lin_op(div.args[0], (div.bb, TERM))
            divs[nm] = L.lin_op(div.args[1], (div.bb, TERM))
            x = div.args[0]
            d = L._single_def(x[0]) if not isinstance(x, dict) and len(x) == 1 else None
            while d is not None and d[1] != "call" and d[3][0] == "use" and not isinstance(d[3][1], dict):
                pl = d[3][1]
                if len(pl) == 3 and pl[1:] == ["@Continue", ".0"]:
                    srcc = L._payload_source(pl[0], "@Continue")
                    srcs[nm] = srcc
                    break
                d = L._single_def(pl[0]) if len(pl) == 1 else None
        ok_src = all(nm in srcs and srcs[nm] is not None and srcs[nm].short == "Report::non_negative_%s" % nm for nm in want_src.values())
        ctx.ob("convert:sources", ok_src, "new(.., price, min_price, max_price, ..) receive price/bid/ask taken from %s through `ok_or(..)?`" % (
            {nm: (srcs[nm].short if srcs.get(nm) is not None else None) for nm in want_src.values()}), where=cs.where())
        for nm in want_src.values():
            c0 = srcs.get(nm)
            if c0 is not None:
                ok, chain = consumed_by_try(f, c0, via=r"(Option::ok_or|Option::ok_or_else)$")
                ctx.ob("convert:negative-rejected:%s" % nm, ok, "%s: %s" % (nm, " -> ".join(chain)), where=c0.where())
        if len(nums) == 3:
            o1, w1 = L.nonneg(nums["ask"].sub(nums["price"]), S)
            o2, w2 = L.nonneg(nums["price"].sub(nums["bid"]), S)
            ctx.ob("convert:order:ask>=price", o1, "at the construction site ask >= price %s" % ("by " + w1 if o1 else "NOT implied; " + w1), where=cs.where())
            ctx.ob("convert:order:price>=bid", o2, "at the construction site price >= bid %s" % ("by " + w2 if o2 else "NOT implied; " + w2), where=cs.where())
        same = len(divs) == 3 and len(set(divs.values())) == 1 and all(v is not None for v in divs.values())
        ctx.ob("convert:same-divisor", same, "price, bid and ask are divided by the same value: %s" % {k: (L.render(v) if v is not None else None) for k, v in divs.items()}, where=cs.where())
        # the divisor is TEN.pow(find_divisor_decimals(ask)) and decimals = DECIMALS - the same exponent
        dd = None
        if same:
            from ..h_E import _base
            dl = _base(list(list(divs.values())[0].c)[0])
            d = L._single_def(dl)
            if d is not None and d[1] == "call" and d[3].short == "Uint::pow":
                dd = _uint_pow_exponent(L, d[3])
        fd = None
        if dd is not None and len(dd.c) == 1 and dd.k == 0:
            from ..h_E import _base
            d = L._single_def(_base(list(dd.c)[0]))
            if d is not None and d[1] == "call" and short_path(d[3].callee or "") == "price::find_divisor_decimals":
                fd = d[3]
        arg_is_ask = False
        if fd is not None and "ask" in nums:
            arg_is_ask = L._lin_deref(fd.args[0], (fd.bb, TERM)) == nums["ask"]
        ctx.ob("convert:divisor-from-largest", bool(fd is not None and arg_is_ask),
               "divisor = TEN.pow(find_divisor_decimals(&ask)) — computed from the largest of the three (%s)" % (fd.arg_expr(0) if fd is not None else None),
               where=cs.where())
        decs = L.lin_op(cs.args[0], S)
        ctx.ob("convert:decimals", dd is not None and decs is not None and decs == Lin({}, int(dec["int"])).sub(dd),
               "stored decimals = %s (want Report::DECIMALS(%s) - divisor exponent %s)" % (L.render(decs) if decs is not None else "?", dec["int"], L.render(dd) if dd is not None else "?"),
               where=cs.where())
        ts = str(cs.arg_expr(1))
        ctx.ob("convert:timestamp", ts == "%s.observations_timestamp" % (f.locals[1][1] or "report"), "ts = i64::from(%s)" % ts, where=cs.where())
    # arithmetic discipline of the whole conversion
    ar = [a for a in A.arith_sites(f)]
    raw_bad = [(a["op"], a["ty"]) for a in ar if not (a["op"] == "Sub" and a["ty"] == "u8")]
    casts = [c for c in A.cast_sites(f) if c["e"].k != "const"]
    deny = [cs.short for cs in f.calls if re.search(r"(wrapping_|overflowing_|unchecked_|saturating_)", cs.name or "")]
    ctx.ob("convert:arith-discipline", not raw_bad and not casts and not deny,
           "raw arithmetic other than DECIMALS - d: %s; `as` casts: %s; wrapping/saturating primitives: %s" % (raw_bad, [(c["from"], c["to"]) for c in casts], deny),
           where=f.where())
    cm = [cs for cs in f.calls if re.search(r"::checked_(mul|sub|add)$", cs.callee or "")]
    for cs in cm:
        us = [u for u in __import__("gmxsa.h_E", fromlist=["uses_of"]).uses_of(f, cs.dest[0])]
        handled = consumed_by_try(f, cs, via=r"(Option::ok_or|Option::ok_or_else)$")[0] or \
            any(u[0] == "stmt" and u[3][2][0] == "discr" for u in us)
        ctx.ob("convert:checked:%s" % cs.short, handled, "%s result is `?`-propagated or matched on (both arms handled)" % cs.short, where=cs.where())
    ctx.floor("convert:checked", len(cm), 2)


def run(ctx):
    prog = ctx.prog(["gmsol_chainlink_datastreams", "gmsol_utils"])
    table = json.load(open(TABLE))
    ctx.explanation = (
        "Panic-site inventory with affine slice-bound facts over every decoding/conversion function of the crate (every "
        "payload[a..b] has a <= b <= len on all paths; fixed-size sub-slices; loop index range; checked_add results), "
        "the returned blob's range and the two ABI words it is computed from identified by provenance, the version -> "
        "decoder/field tables of `decode`, the sign convention of non_negative, and for from_chainlink_report: negatives "
        "rejected through `?`, ask >= price >= bid at the construction site, one shared divisor TEN.pow(find_divisor_decimals(ask)) "
        "with a bounded exponent, decimals = DECIMALS - exponent, argument/field order, checked timestamp arithmetic.")
    ctx.not_decided = (
        "Panic freedom and ABI conformance inside the external crates (snap decompression, chainlink_data_streams_report "
        "ReportDataVn::decode, num-bigint, ruint) are not analysed. The three `try_into::<u128>().unwrap()` after the division "
        "are tabled: that ask / 10^find_divisor_decimals(ask) fits u128 depends on the constant get_power_bounds table (value "
        "argument). The polarity of `bigint_to_signed` (`!matches!(sign, Sign::Minus)`) depends on an external enum's "
        "discriminants and is not decided. Market-status / last-update-diff flag handling of the conversion belongs to C27/C24.")
    ctx.rule("no-panic", "every potential panic site of the decoding/conversion functions is discharged by affine facts or is a tabled exception")
    ctx.rule("blob-slice", "returned blob = payload[o+32 .. o+32+n], o/n read from the ABI offset/length words, o >= 128")
    ctx.rule("version-dispatch", "version n -> ReportDataVn::decode for n in {2,3,7,8,11}; otherwise Err(UnsupportedVersion)")
    ctx.rule("field-map", "per version price/bid/ask (and same-named scalar fields) come from the tabled decoded fields")
    ctx.rule("sign", "non_negative: true -> Some(magnitude), false -> None; accessors read the field of their name")
    ctx.rule("convert", "from_chainlink_report: negatives rejected, ask >= price >= bid, one divisor from ask with bounded exponent, decimals, argument order, checked arithmetic")
    _no_panic(ctx, prog, table)
    _blob(ctx, prog)
    _versions(ctx, prog, table)
    _sign(ctx, prog)
    _convert(ctx, prog)
