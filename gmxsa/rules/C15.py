"""C15 Single-token (pure) pools account for every token exactly once.

Decided on `impl Balance/Pool for states::market::pool::Pool` (program) and on its SDK twin
`impl Balance/Pool for gmsol_programs::gmsol_store::types::Pool`, per acyclic MIR path:

 * pure-flag        `Pool::is_pure` decodes the stored byte (0 -> false, 1 -> true), same table in program and SDK;
 * halves           pure: long_amount = ceil(total/2), short_amount = floor(total/2) of the SAME stored field
                    `long_token_amount` (complementary halves => they add up to the total); impure: own field;
 * short-only-impure every non-debug access to `short_token_amount` is reachable only on the !is_pure edge;
 * who-may-access   the amount fields / pure byte of `Pool` are touched only inside the Pool impls;
 * delta-target     apply_delta_to_long_amount stores only `long_token_amount`; apply_delta_to_short_amount stores
                    `long_token_amount` (the total) when pure and `short_token_amount` otherwise; the stored value is
                    `checked_add_signed(<same field>, delta)` with the failure propagated (exactly one store per Ok path);
 * delta-routing    checked_apply_delta forwards delta.long() to apply_delta_to_long_amount and delta.short() to
                    apply_delta_to_short_amount on the returned copy, `?`-propagated, nothing else written;
 * cancel / cancel-table  program `checked_cancel_amounts`: pure keeps `total & 1` in the total field and leaves the
                    other fields alone; impure takes (.0,.1) of `cancel_amounts(long, short)` whose table is
                    l>=s => (|l-s|, 0) else (0, |l-s|).
"""
import re

from .. import analyses as A
from .. import h_C as H

PURE = r"^Pool::is_pure\(self\)$"
SIDES = [
    ("prog", "gmsol_store", r"^gmsol_store::states::market::pool::Pool"),
    ("sdk", "gmsol_programs", r"^gmsol_programs::gmsol_store::types::Pool"),
]
LONG = "self.long_token_amount"
SHORT = "self.short_token_amount"


def _method(ctx, prog, adt, item):
    fs = [f for f in H.impl_fns(prog, adt.id) if (f.trait_item or "").endswith("::" + item) or (not f.trait_item and f.name == item)]
    if len(fs) != 1:
        ctx.ob("anchor-missing:fn:%s::%s" % (adt.short, item), False,
               "expected exactly one `%s` on %s, found %d" % (item, adt.id, len(fs)), where="(anchor)")
        return None
    ctx.analysed_fns.add(fs[0].id)
    return fs[0]


def run(ctx):
    prog = ctx.prog(["gmsol_store", "gmsol_programs", "gmsol_model"])
    ctx.explanation = (
        "Per-path tables of the pool accessors of the program's Pool and of its SDK twin, extracted from MIR: the pure "
        "long/short views are the ceil/floor halves of the one stored total, deltas on either side of a pure pool are "
        "added (checked, failure propagated) to that total and to nothing else, the short field is never touched on a "
        "pure path, the amount fields are private to the impls, and netting a pure pool stores `total & 1`. Each side is "
        "compared with the same specification table, hence program and SDK agree on these methods.")
    ctx.not_decided = (
        "u128 arithmetic facts themselves (ceil(t/2)+floor(t/2)=t; checked_add_signed semantics) are taken from the "
        "classification of the std primitives. If the SDK Pool does not override checked_cancel_amounts it inherits "
        "gmsol_model's generic default: its result for pure pools (also total & 1, by value reasoning) is not decided "
        "here; a missing override is reported under C40 (sibling-methods). That `short_token_amount == 0` holds for pure pools in "
        "stored accounts follows from short-only-impure + who-may-access + zero-initialised accounts (trusted).")
    ctx.rule("pure-flag", "Pool::is_pure maps byte 0 -> false, 1 -> true; program and SDK tables are equal")
    ctx.rule("halves", "pure: long=ceil(total/2), short=floor(total/2) of long_token_amount; impure: own field")
    ctx.rule("short-only-impure", "non-debug accesses to short_token_amount lie on the !is_pure edge")
    ctx.rule("who-may-access", "Pool.{long_token_amount,short_token_amount,is_pure} are accessed only inside impls of Pool")
    ctx.rule("delta-target", "one checked_add_signed store per Ok path: long->long field; short->total if pure else short field")
    ctx.rule("delta-routing", "checked_apply_delta: long()->apply_delta_to_long_amount, short()->apply_delta_to_short_amount, `?`-propagated")
    ctx.rule("cancel", "checked_cancel_amounts (program; SDK override when present): pure => total&1, rest untouched; impure => cancel_amounts(long,short).(0,1)")
    ctx.rule("cancel-table", "cancel_amounts: l>=s => (|l-s|,0) else (0,|l-s|)")

    n = {"pure": 0, "halves": 0, "short": 0, "who": 0, "target": 0, "routing": 0}
    pure_tables = {}
    for side, crate, adt_re in SIDES:
        adt = ctx.adt(adt_re)
        if adt is None:
            continue
        members = {f.id for f in H.impl_fns(prog, adt.id)}
        # ---- pure-flag
        f = _method(ctx, prog, adt, "is_pure")
        if f is not None:
            n["pure"] += 1
            pure_tables[side] = _pure_flag(ctx, side, f)
        # ---- halves
        for item, pure_kind, impure_field in (("long_amount", "ceil", LONG), ("short_amount", "floor", SHORT)):
            f = _method(ctx, prog, adt, item)
            if f is not None:
                n["halves"] += 1
                _halves(ctx, side, f, item, pure_kind, impure_field)
        # ---- short-only-impure over every member
        for fid in sorted(members):
            n["short"] += _short_only_impure(ctx, side, prog.fns[fid])
        # ---- who-may-access
        n["who"] += 1
        _who_may_access(ctx, prog, side, crate, adt, members)
        # ---- delta-target
        for item in ("apply_delta_to_long_amount", "apply_delta_to_short_amount"):
            f = _method(ctx, prog, adt, item)
            if f is not None:
                n["target"] += 1
                _delta_target(ctx, side, f, item)
        f = _method(ctx, prog, adt, "checked_apply_delta")
        if f is not None:
            n["routing"] += 1
            _delta_routing(ctx, side, f)
    if len(pure_tables) == 2:
        ctx.ob("pure-flag:sibling", pure_tables["prog"] == pure_tables["sdk"] and pure_tables["prog"] is not None,
               "program and SDK decode the pure byte identically: %s vs %s" % (pure_tables.get("prog"), pure_tables.get("sdk")),
               where="(sibling)")
    ctx.floor("pure-flag", n["pure"], 2)
    ctx.floor("halves", n["halves"], 4)
    ctx.floor("short-only-impure", n["short"], 5)
    ctx.floor("who-may-access", n["who"], 2)
    ctx.floor("delta-target", n["target"], 4)
    ctx.floor("delta-routing", n["routing"], 2)

    # ---- cancel: the program's override is required; the SDK's is checked when it exists (without an override the
    # SDK inherits gmsol_model's generic default, whose agreement is a C40 matter, see not_decided)
    n_cancel = 0
    for side, crate, adt_re in SIDES:
        adt = ctx.adt(adt_re)
        if adt is None:
            continue
        has = [f for f in H.impl_fns(prog, adt.id) if (f.trait_item or "").endswith("::checked_cancel_amounts")]
        if side == "sdk" and not has:
            ctx.note("SDK Pool has no checked_cancel_amounts override: generic default applies (not decided here; see C40)")
            continue
        f = _method(ctx, prog, adt, "checked_cancel_amounts")
        if f is not None:
            n_cancel += 1
            _cancel(ctx, prog, side, f)
    ctx.floor("cancel", n_cancel, 1)


def _pure_flag(ctx, side, f):
    table = {}
    ok = True
    for p in H.paths(f):
        labs = [(c, l) for c, l, ty in p["conds"] if re.search(r"^self\.is_pure$", str(c))]
        val = H.const_bool(p["ret"])
        if len(labs) != 1 or val is None:
            ok = False
            continue
        lab = labs[0][1]
        table["else" if isinstance(lab, tuple) else int(lab)] = val
    # evaluate the byte values the program ever writes (0, 1)
    def at(v):
        return table.get(v, table.get("else"))
    good = ok and at(0) is False and at(1) is True
    ctx.ob("pure-flag:" + side, good, "%s: byte->bool table %s (need 0->false, 1->true)" % (f.short, table), where=f.where(),
           detail={"table": {str(k): v for k, v in table.items()}})
    return (at(0), at(1), table.get("else")) if ok else None


def _halves(ctx, side, f, item, pure_kind, impure_field):
    key = "halves:%s:%s" % (side, item)
    seen = {True: 0, False: 0}
    bad = []
    for p in H.paths(f):
        t = H.truth_on_path(p, PURE)
        val = H.unwrap_ok(p["ret"])
        if t is None or val is None:
            bad.append("path without is_pure decision or non-Ok result: %s" % p["ret"])
            continue
        seen[t] += 1
        if t:
            k = H.half_kind(val, LONG)
            if k != pure_kind:
                bad.append("pure path returns %s (classified %s, need %s(total/2) of long_token_amount)" % (val, k or "unclassified", pure_kind))
        else:
            if str(val) != impure_field:
                bad.append("impure path returns %s (need %s)" % (val, impure_field))
    good = not bad and seen[True] >= 1 and seen[False] >= 1
    ctx.ob(key, good, "%s: pure -> %s(long_token_amount/2), impure -> %s; paths pure=%d impure=%d%s" % (
        f.short, pure_kind, impure_field, seen[True], seen[False], "; BAD: " + "; ".join(bad) if bad else ""), where=f.where())


def _short_only_impure(ctx, side, f):
    uses = [(bb, pl, role) for bb, pl, role, mac in H.place_uses(f)
            if "short_token_amount" in H.place_fields(pl) and not H.in_macro(mac, H.DEBUG_MACROS)]
    if not uses:
        return 0
    bad = sorted({bb for bb, pl, role in uses if not H.guarded_by(f, bb, PURE, False)})
    ctx.ob("short-only-impure:%s:%s" % (side, f.name), not bad,
           "%s: %d non-debug access(es) to short_token_amount, all on the !is_pure edge%s" % (
               f.short, len(uses), "; UNGUARDED in blocks %s" % bad if bad else ""), where=f.where())
    return 1


def _who_may_access(ctx, prog, side, crate, adt, members):
    offenders = []
    n_acc = 0
    for g in prog.fns.values():
        if g.crate != crate:
            continue
        hit = False
        for bb, pl, role, mac in H.place_uses(g):
            fl = H.place_fields(pl)
            if not (set(fl) & {"long_token_amount", "short_token_amount", "is_pure"}):
                continue
            owners = H.place_owner_types(prog, g, pl)
            for owner, nm in owners:
                if nm in ("long_token_amount", "short_token_amount", "is_pure") and (owner is None or owner == adt.id):
                    hit = True
        if hit:
            n_acc += 1
            root = g.id.split("::{closure")[0]
            if root not in members:
                offenders.append(g.id)
    ctx.ob("who-may-access:" + side, not offenders and n_acc >= 5,
           "%d functions of %s touch Pool.{long_token_amount,short_token_amount,is_pure}; all are methods of impls of Pool%s" % (
               n_acc, crate, "; OUTSIDE: %s" % offenders[:6] if offenders else ""), where="%s:%d" % (adt.file, adt.line),
           detail={"count": n_acc})


def _delta_target(ctx, side, f, item):
    key = "delta-target:%s:%s" % (side, item)
    bad = []
    seen = {True: 0, False: 0, None: 0}
    delta = f.param_name(1)
    for p in H.paths(f):
        kind = A_kind(p["ret"])
        if kind != "ok":
            continue
        t = H.truth_on_path(p, PURE)
        seen[t] += 1
        st = H.stores_on_path(f, p["blocks"])
        if item == "apply_delta_to_long_amount":
            want = LONG
        else:
            if t is None:
                bad.append("Ok path without is_pure decision")
                continue
            want = LONG if t else SHORT
        if len(st) != 1:
            bad.append("Ok path performs %d stores to self (need exactly 1): %s" % (len(st), [s["dest"] for s in st]))
            continue
        s = st[0]
        if s["dest"] != want:
            bad.append("%s path stores to %s (need %s)" % ({True: "pure", False: "impure", None: "any"}[t], s["dest"], want))
            continue
        v = s["value"]
        calls = [c for c in v.calls(r"^u128::checked_add_signed$")]
        arg_ok = [c for c in calls if len(c.a[1]) == 2 and str(c.a[1][0]) == want and str(c.a[1][1]) == delta]
        propagated = v.k == "try" or (v.k == "field" and v.a[0].k == "variant" and v.a[0].a[1] == "Some")
        other_arith = [x for x in v.walk() if x.k == "bin" or (x.k == "call" and re.search(r"(wrapping|saturating|overflowing)_", x.a[0]))]
        if not arg_ok or not propagated or other_arith:
            bad.append("stored value %s is not `checked_add_signed(%s, %s)` with propagated failure" % (v, want, delta))
    # whatever way the Option is unwrapped: the failure branch of the checked primitive must end in Err, never in Ok
    n_fail = 0
    for p in H.paths(f):
        failed = H.failure_branch_taken(p, r"u128::checked_add_signed\(")
        if failed:
            n_fail += 1
            if A_kind(p["ret"]) != "err":
                bad.append("the failure branch of checked_add_signed returns %s" % p["ret"])
        elif failed is None and A_kind(p["ret"]) == "ok":
            bad.append("an Ok path does not branch on the result of checked_add_signed")
    if n_fail == 0:
        bad.append("no failure branch of checked_add_signed found")
    need = seen[None] >= 1 if item == "apply_delta_to_long_amount" else (seen[True] >= 1 and seen[False] >= 1)
    ctx.ob(key, not bad and need, "%s: Ok paths (pure=%d impure=%d undecided=%d) each store checked_add_signed(field, %s)? into %s%s" % (
        f.short, seen[True], seen[False], seen[None], delta,
        "long_token_amount" if item.endswith("long_amount") else "total if pure else short_token_amount",
        "; BAD: " + "; ".join(bad) if bad else ""), where=f.where())


def A_kind(ret):
    from ..model import classify_result
    return classify_result(ret) if ret is not None else "unknown"


def _delta_routing(ctx, side, f):
    key = "delta-routing:" + side
    bad = []
    n_ok = 0
    delta = f.param_name(1)
    allowed = re.compile(r"^(Delta::long|Delta::short|Try::branch|FromResidual::from_residual|Pool::apply_delta_to_long_amount|Pool::apply_delta_to_short_amount)$")
    for p in H.paths(f):
        if A_kind(p["ret"]) != "ok":
            continue
        n_ok += 1
        loc = H.returned_local(f, p["blocks"])
        if loc is None or str(f.expr_on_path([loc], p["blocks"])) != "self":
            bad.append("returned value is not the copy of self (%s)" % p["ret"])
            continue
        partial = [d for d in f.defs().get(loc, []) if d[2] != () and d[0] in p["blocks"]]
        if partial:
            bad.append("direct field store into the returned copy")
        for sidew, getter, applier in (("long", "Delta::long", "Pool::apply_delta_to_long_amount"),
                                        ("short", "Delta::short", "Pool::apply_delta_to_short_amount")):
            lab = H.discr_on_path(p, r"^%s\(%s\)$" % (re.escape(getter), re.escape(delta)))
            some = (lab == 1)
            cs = [c for c in p["calls"] if c.short == applier]
            if lab is None:
                bad.append("no decision on %s(%s)" % (getter, delta))
            elif some:
                if len(cs) != 1:
                    bad.append("%s side present but %d call(s) of %s" % (sidew, len(cs), applier))
                else:
                    c = cs[0]
                    a0 = c.args[0]
                    root_ok = isinstance(a0, list) and _borrow_root(f, a0) == loc
                    a1 = str(f.expr_on_path(c.args[1], p["blocks"]))
                    if not root_ok or not a1.startswith("%s(%s)" % (getter, delta)):
                        bad.append("%s applied to %s with %s" % (applier, "the returned copy" if root_ok else "another value", a1))
                    ts = _try_of(f, c)
                    if ts is None:
                        bad.append("result of %s is not `?`-propagated" % applier)
            else:
                if cs:
                    bad.append("%s side absent but %s is called" % (sidew, applier))
        for c in p["calls"]:
            if not allowed.search(c.short):
                bad.append("unexpected call %s" % c.short)
    ctx.ob(key, not bad and n_ok >= 4, "%s: %d Ok paths; long()->apply_delta_to_long_amount, short()->apply_delta_to_short_amount on the returned copy%s" % (
        f.short, n_ok, "; BAD: " + "; ".join(sorted(set(bad))) if bad else ""), where=f.where())


def _borrow_root(f, op):
    """local whose `&mut` is passed: follow `_x = &mut _y` one level."""
    n = op[0]
    for (bb, si, proj, rv) in f.defs().get(n, []):
        if proj == () and si != "call" and rv[0] in ("ref", "rawptr") and isinstance(rv[2], list):
            return rv[2][0]
    return n


def _try_of(f, cs):
    from .. import anchor
    return anchor.try_switch_of(f, cs)


def _order_on_path(conds, l, s):
    """Relation between the values rendered l and s established by the bool branches of a path: '>=','>','<','<=' or None."""
    rel = None
    for cond, lab, ty in conds:
        c = A.as_cmp(cond)
        if not c or ty != "bool":
            continue
        op, a, b = c
        truth = isinstance(lab, tuple) or lab != 0
        if not truth:
            op = A.NEG[op]
        if str(a) == s and str(b) == l:
            op, a, b = A.FLIP[op], b, a
        if str(a) == l and str(b) == s:
            rel = op
    return rel if rel in (">=", ">", "<", "<=") else None


def _pair_ok(rel, l, s, x0, x1):
    long_left = rel in (">=", ">")
    diffs = {"u128::abs_diff(%s, %s)" % (l, s), "u128::abs_diff(%s, %s)" % (s, l),
             ("(%s Sub %s)" % (l, s)) if long_left else ("(%s Sub %s)" % (s, l))}
    if long_left:
        return x0 in diffs and x1 == "0"
    return x0 == "0" and x1 in diffs


def _cancel(ctx, prog, side, f):
    bad = []
    seen = {True: 0, False: 0}
    helper = None
    inline = 0
    for p in H.paths(f):
        if A_kind(p["ret"]) != "ok":
            bad.append("non-Ok exit %s" % p["ret"])
            continue
        t = H.truth_on_path(p, PURE)
        if t is None:
            bad.append("path without is_pure decision")
            continue
        seen[t] += 1
        loc = H.returned_local(f, p["blocks"])
        if loc is None or str(f.expr_on_path([loc], p["blocks"])) != "self":
            bad.append("returned value is not a copy of self")
            continue
        lo = H.field_on_path(f, loc, "long_token_amount", p["blocks"])
        sh = H.field_on_path(f, loc, "short_token_amount", p["blocks"])
        pu = H.field_on_path(f, loc, "is_pure", p["blocks"])
        if str(pu) != "self.is_pure":
            bad.append("pure byte rewritten: %s" % pu)
        if t:
            if not H.parity_of(lo, LONG):
                bad.append("pure path leaves long_token_amount = %s (need total & 1)" % lo)
            if str(sh) != SHORT:
                bad.append("pure path rewrites short_token_amount = %s" % sh)
        else:
            m1 = re.match(r"^(\S+)\(self\.long_token_amount, self\.short_token_amount\)\.0$", str(lo))
            m2 = re.match(r"^(\S+)\(self\.long_token_amount, self\.short_token_amount\)\.1$", str(sh))
            if m1 and m2 and m1.group(1) == m2.group(1):
                cs = [c for c in p["calls"] if c.short == m1.group(1)]
                helper = cs[0] if cs else None
                if helper is None:
                    bad.append("netting helper %s not on the path" % m1.group(1))
                continue
            rel = _order_on_path(p["conds"], LONG, SHORT)
            if rel is None:
                bad.append("impure path: long=%s short=%s without an order decision between the two fields" % (lo, sh))
            elif not _pair_ok(rel, LONG, SHORT, str(lo), str(sh)):
                bad.append("impure path with long %s short stores (%s, %s); need %s" % (rel, lo, sh, "(|l-s|, 0)" if rel in (">=", ">") else "(0, |l-s|)"))
            else:
                inline += 1
    ctx.ob("cancel:" + side, not bad and seen[True] >= 1 and seen[False] >= 1 and (helper is not None or inline >= 2),
           "%s: pure => long_token_amount & 1 (others untouched); impure => (|l-s|,0) if long>=short else (0,|l-s|) [%s]%s" % (
               f.short, "via helper" if helper is not None else "inline, %d paths" % inline,
               "; BAD: " + "; ".join(bad) if bad else ""), where=f.where())
    if helper is None:
        return
    gs = prog.callees(helper)
    if len(gs) != 1:
        ctx.ob("cancel-table:" + side, False, "netting helper %s has no unique local body" % helper.name, where=f.where())
        return
    g = gs[0]
    ctx.analysed_fns.add(g.id)
    l, s = g.param_name(0), g.param_name(1)
    bad = []
    seen = {"long": 0, "short": 0}
    for p in H.paths(g):
        rel = _order_on_path(p["conds"], l, s)
        if rel is None:
            bad.append("path without an order decision between %s and %s" % (l, s))
            continue
        r = p["ret"]
        if r is None or r.k != "agg" or len(r.a[1]) != 2:
            bad.append("result %s is not a pair" % r)
            continue
        x0, x1 = str(r.a[1][0][1]), str(r.a[1][1][1])
        seen["long" if rel in (">=", ">") else "short"] += 1
        if not _pair_ok(rel, l, s, x0, x1):
            bad.append("%s %s %s returns (%s, %s)" % (l, rel, s, x0, x1))
    ctx.ob("cancel-table:" + side, not bad and seen["long"] >= 1 and seen["short"] >= 1,
           "%s: long side left => (|l-s|, 0), else (0, |l-s|)%s" % (g.short, "; BAD: " + "; ".join(bad) if bad else ""), where=g.where())
