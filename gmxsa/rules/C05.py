"""C05 A swap never pays out more value than it takes in, beyond capped impact.

Decided (A6 constant arguments, A7 rounding primitive, A5 side selection, A10 finite cases, reaching-definition value forms):

 * conversion  : both token conversions of `Swap::try_execute` are `checked_mul_div(x, in_price.pick_price(false),
                 out_price.pick_price(true))` — MIN input price, MAX output price, rounded DOWN; no other mul-div / ceil
                 primitive is called there; `Price::pick_price(true)=max, (false)=min`.
 * token-out   : the reported token_out_amount is, positive impact: CONV(after_fees [+ capped-diff amount]) + |CAP(out side).0|;
                 otherwise: CONV(after_fees - |CAP(in side).0|) — i.e. the only addition on top of the conversion is the amount
                 returned by `swap_impact_amount_with_cap` (what the impact pool funds), and negative impact is subtracted
                 BEFORE the conversion.  after_fees is charge_fees().0.
 * funded      : the positive impact amount (and the capped-diff amount) are debited (negated) from the swap impact pool on the
                 side that was used for the cap query.
 * reassign    : `reassign_values`: token-in long -> (in=long price, out=short price), else (in=short, out=long), and
                 ReassignedValues::new stores its arguments in the fields of the same name.
 * cap         : `swap_impact_amount_with_cap`: zero price -> Err; positive impact: amount = usd / max price (floor) and the
                 returned amount == min(amount, pool amount) over all orderings, pool side selected by is_long_token
                 (true->long_amount, false->short_amount); negative impact: (usd - p + 1)/p at the MIN price (magnitude rounded up);
                 capped diff value = (amount - max_amount) * max price only when capped.
"""
import re

from .. import analyses as A
from .. import h_A as H

SW = r"gmsol_model::action::swap::"


def abbrev(e):
    """Name the big shared sub-expressions of Swap::try_execute."""
    def fn(x):
        if x.k == "field":
            base = H.peel(x.a[0])
            if H.is_call(base, r"^SwapMarketExt::swap_impact_value$"):
                return H.named("IMPACT." + x.a[1])
            if H.is_call(base, r"^Swap::reassign_values$"):
                return H.named("RV." + x.a[1])
            if H.is_call(base, r"^Swap::charge_fees$"):
                return H.named({"0": "AFTER_FEES", "1": "FEES"}.get(x.a[1], "CF." + x.a[1]))
            if H.is_call(base, r"^SwapMarketExt::swap_impact_amount_with_cap$"):
                a = H.call_args(base)
                return H.named("CAP[%s,%s,%s].%s" % (fn2(a[1]), fn2(a[2]), fn2(a[3]), x.a[1]))
        return None

    def fn2(y):
        return str(H.rebuild(y, fn))
    return H.rebuild(e, fn)


IN = "self.params.is_token_in_long"
CAP_OUT = "CAP[Not(%s),RV.token_out_price,IMPACT.value]" % IN
CAP_IN_NEG = "CAP[%s,RV.token_in_price,IMPACT.value]" % IN
CAP_IN_DIFF = "CAP[%s,RV.token_in_price,Unsigned::to_signed(%s.1)?]" % (IN, CAP_OUT)


def run(ctx):
    prog = ctx.prog(["gmsol_model"])
    ctx.explanation = (
        "Price-side / rounding / provenance table of the swap: the conversion uses the least favourable prices rounded down "
        "in both arms; the only amount added on top of the conversion is what swap_impact_amount_with_cap returned (capped by "
        "the impact pool, and debited from it); negative impact is subtracted before converting; the cap function returns "
        "min(amount, pool amount) on every ordering and rounds negative impact away from zero at the min price.")
    ctx.not_decided = (
        "The USD inequality itself (value reasoning: floor/ceil monotonicity and the price-impact magnitude); that the capped "
        "diff paid from the token-in impact pool is value-neutral; fees (C02) and the pool bookkeeping (C04).")
    ctx.rule("conversion", "in*min(in price)/max(out price) rounded down in both arms; pick_price polarity")
    ctx.rule("token-out", "token_out = CONV(..) (+ capped positive impact amount only); negative impact subtracted before CONV")
    ctx.rule("funded", "positive impact amounts are debited from the swap impact pool on the queried side")
    ctx.rule("reassign", "in/out price assignment follows is_token_in_long")
    ctx.rule("cap", "swap_impact_amount_with_cap: min(amount, pool), side by flag, rounding and price side per sign")

    _pick_price(ctx)
    f = ctx.fn(SW + r"Swap::<M, DECIMALS>::try_execute")
    if f is not None:
        _conversion(ctx, prog, f)
        _token_out(ctx, prog, f)
        _funded(ctx, prog, f)
    _reassign(ctx)
    _cap(ctx, prog)


def _pick_price(ctx):
    f = ctx.fn(r"gmsol_model::price::Price::<T>::pick_price")
    if f is None:
        return
    tab = {}
    for p in H.value_paths(f):
        t = True if p.holds(r"^maximize$", True) else (False if p.holds(r"^maximize$", False) else None)
        tab.setdefault(t, set()).add(str(p.ret))
    ctx.ob("conversion:pick_price", tab == {True: {"self.max"}, False: {"self.min"}}, "Price::pick_price: maximize -> %s" % {k: sorted(v) for k, v in tab.items()},
           where=f.where())


def _conversion(ctx, prog, f):
    # call sites of try_execute AND of the private helpers / local closures it enters (arguments and guards translated back)
    vs = H.vcalls(prog, f)
    sites = [v for v in vs if H.prim_class(v.callee) and not re.search(r"checked_div$|Div::div$", v.short)]
    POS = r"^Signed::is_positive\(IMPACT\.value\)$"
    n = 0
    for v in sites:
        n += 1
        g = v.guard(POS, abbrev)
        arm = "positive" if g is True else ("non-positive" if g is False else "unguarded")
        a1, a2 = str(abbrev(v.arg(1))), str(abbrev(v.arg(2)))
        ok = v.short == "MulDiv::checked_mul_div" and a1 == "Price::pick_price(RV.token_in_price, false)" and a2 == "Price::pick_price(RV.token_out_price, true)"
        ctx.ob("conversion:" + arm, ok and arm != "unguarded",
               "try_execute, %s-impact arm: %s(x, %s, %s)%s — want floor mul-div by min in-price over max out-price" % (
                   arm, v.short, a1, a2, " via private helper %s" % v.chain[0].short if v.depth else ""), where=v.where())
    ctx.floor("conversion", n, 2)
    other = [v.short for v in vs if re.search(r"(div_ceil|checked_round_up_div|as_divisor_to_round_up_magnitude_div|checked_mul_div_ceil)$", v.short)]
    ctx.ob("conversion:no-other-rounding", not other and n == 2,
           "exactly two conversion sites and no ceil/away primitive in try_execute and the private helpers it calls (%s)" % other, where=f.where())


PRIM_RE = r"(checked_mul_div|checked_mul_div_ceil|checked_round_up_div|div_ceil|as_divisor_to_round_up_magnitude_div)$"


def _result(ctx, prog, f):
    oks = [(bb, e) for bb, k, e in f.exits() if k == "ok"]
    if len(oks) != 1:
        ctx.ob("token-out:exit", False, "try_execute has %d Ok exits, expected 1" % len(oks), where=f.where())
        return None
    # a conversion moved into a private helper is substituted back before the value forms are read
    e = abbrev(H.inline_calls(prog, f, H.ret_at(f, oks[0][0]), PRIM_RE))
    e = H.peel(e)
    if not (e.k == "agg" and len(e.a[1]) == 2):
        ctx.ob("token-out:exit", False, "Ok value is not (cache, result)", where=f.where())
        return None
    return dict(e.a[1][0][1].a[1]), dict(e.a[1][1][1].a[1])


def _token_out(ctx, prog, f):
    r = _result(ctx, prog, f)
    if r is None:
        return
    cache, res = r
    tout = res.get("token_out_amount")
    if tout is None:
        ctx.ob("token-out:field", False, "SwapResult has no token_out_amount", where=f.where())
        return

    def conv_atom(x):
        x = H.peel(x, calls=("Option::ok_or",))
        if H.is_call(x, r"^MulDiv::checked_mul_div$"):
            return "CONV"
        if H.is_call(x, r"^UnsignedAbs::unsigned_abs$"):
            return "|%s|" % H.call_args(x)[0]
        return None

    def conv_input(x):
        for y in x.walk():
            if H.is_call(y, r"^MulDiv::checked_mul_div$"):
                return H.call_args(y)[0]
        return None
    alts = tout.alts()
    seen = {"positive": [], "negative": []}
    bad = []
    for a in alts:
        try:
            lf = H.linform(a, conv_atom)
        except H.NotLinear as ex:
            bad.append("not linear: %s" % ex)
            continue
        inp = conv_input(a)
        in_forms = []
        for ia in (inp.alts() if inp is not None else []):
            try:
                in_forms.append(H.linform(ia, conv_atom))
            except H.NotLinear as ex:
                in_forms.append({"nonlinear": 1})
        if lf == {"CONV": 1, "|%s.0|" % CAP_OUT: 1}:
            good = all(x in ({"AFTER_FEES": 1}, {"AFTER_FEES": 1, "|%s.0|" % CAP_IN_DIFF: 1}) for x in in_forms) and {"AFTER_FEES": 1} in in_forms
            seen["positive"].append((good, in_forms))
        elif lf == {"CONV": 1}:
            good = in_forms == [{"AFTER_FEES": 1, "|%s.0|" % CAP_IN_NEG: -1}]
            seen["negative"].append((good, in_forms))
        else:
            bad.append("unexpected form %s" % lf)
    ctx.ob("token-out:positive-arm", len(seen["positive"]) == 1 and seen["positive"][0][0] and not bad,
           "positive impact: token_out = CONV(in) + |CAP(out side, out price, impact).0| with in in %s%s" % (
               [x[1] for x in seen["positive"]], "; " + "; ".join(bad) if bad else ""), where=f.where())
    ctx.ob("token-out:negative-arm", len(seen["negative"]) == 1 and seen["negative"][0][0] and not bad,
           "non-positive impact: token_out = CONV(after_fees - |CAP(in side, in price, impact).0|): %s" % [x[1] for x in seen["negative"]], where=f.where())
    pia = res.get("price_impact_amount")
    pv = res.get("price_impact_value")
    ctx.ob("token-out:reported-impact", pia is not None and sorted(str(x) for x in pia.alts()) == sorted(["UnsignedAbs::unsigned_abs(%s.0)" % CAP_OUT, "UnsignedAbs::unsigned_abs(%s.0)" % CAP_IN_NEG])
           and str(pv) == "IMPACT.value", "reported price_impact_amount is the capped amount of the respective arm; price_impact_value is the computed impact", where=f.where())
    # arm guards of the two additions/subtractions
    for c in f.calls:
        if c.short == "CheckedAdd::checked_add" and str(abbrev(H.arg_at(c, 1))) == "UnsignedAbs::unsigned_abs(%s.0)" % CAP_OUT:
            g = [(str(abbrev(x)), t) for x, t in f.bool_guards(c.bb)]
            ctx.ob("token-out:addition-guard", ("Signed::is_positive(IMPACT.value)", True) in g,
                   "the impact amount is added to the output only under is_positive(impact): %s" % g, where=c.where())
        if c.short == "CheckedSub::checked_sub" and str(abbrev(H.arg_at(c, 0))) == "AFTER_FEES":
            g = [(str(abbrev(x)), t) for x, t in f.bool_guards(c.bb)]
            ctx.ob("token-out:subtraction-guard", ("Signed::is_positive(IMPACT.value)", False) in g,
                   "negative impact is subtracted from the input under !is_positive(impact): %s" % g, where=c.where())
    # empty-after-impact rejected
    errs = [bb for bb, k, e in f.exits() if k == "err"]
    zero_guard = any(any(t and re.search(r"^Zero::is_zero\(", str(g)) for g, t in f.bool_guards(bb)) for bb in errs)
    ctx.ob("token-out:zero-input-rejected", zero_guard, "a token_in_amount reduced to zero by negative impact is rejected (Err under is_zero)", where=f.where())


def _funded(ctx, prog, f):
    r = _result(ctx, prog, f)
    if r is None:
        return
    cache, _res = r
    si = cache.get("swap_impact")
    if si is None:
        ctx.ob("funded:field", False, "Cache has no swap_impact", where=f.where())
        return
    got = []
    for a in si.alts():
        a = H.peel(a)
        if not (H.is_call(a, r"^Pool::checked_apply_delta$") and str(H.peel(H.call_args(a)[0])) == "BaseMarket::swap_impact_pool(self.market)"):
            got.append("?%s" % str(a)[:80])
            continue
        d = H.call_args(a)[1]
        args = H.call_args(d)
        forms = []
        for x in args[1:]:
            fs = []
            for y in H.peel(x, calls=("Option::ok_or",)).alts() if H.peel(x, calls=("Option::ok_or",)).k == "phi" else [x]:
                try:
                    fs.append(H.linform(y))
                except H.NotLinear:
                    # negation of a phi: expand
                    inner = H.peel(x, calls=("Option::ok_or",))
                    if H.is_call(inner, r"checked_neg$"):
                        fs = [H._comb({}, H.linform(z), -1) for z in H.call_args(inner)[0].alts()]
                        fs = [{k: v for k, v in z.items() if v} for z in fs]
                    break
            forms.append(fs)
        got.append((d.a[0], str(args[0]), forms))
    want_pos = ("Delta::new_both_sides", "Not(%s)" % IN, [[{CAP_OUT + ".0": -1}], [{CAP_IN_DIFF + ".0": -1}, {}]])
    want_neg = ("Delta::new_one_side", IN, [[{CAP_IN_NEG + ".0": -1}]])

    def norm(t):
        if not isinstance(t, tuple):
            return t
        return (t[0], t[1], [sorted(map(lambda d: sorted(d.items()), fs)) for fs in t[2]])
    ok = sorted(map(str, map(norm, got))) == sorted(map(str, map(norm, [want_pos, want_neg])))
    ctx.ob("funded:swap-impact-delta", ok,
           "swap impact pool delta: positive arm both_sides(!in_long, -CAP_out.0, -capped_in.0|0), other arm one_side(in_long, -CAP_in.0): %s" % [norm(g) for g in got],
           where=f.where())


def _reassign(ctx):
    f = ctx.fn(SW + r"Swap::<M, DECIMALS>::reassign_values")
    if f is not None:
        tab = {}
        for p in H.value_paths(f):
            t = True if p.holds(r"^self\.params\.is_token_in_long$", True) else (False if p.holds(r"^self\.params\.is_token_in_long$", False) else None)
            e = H.peel(p.ret)
            if not H.is_call(e, r"^ReassignedValues::new$"):
                tab[t] = "?"
                continue
            a = H.call_args(e)

            def sgn(x):
                try:
                    lf = H.linform(x, lambda y: "V[%s]" % H.call_args(y)[1] if H.is_call(y, r"^CheckedMul::checked_mul$") and str(H.call_args(y)[0]) == "self.params.token_in_amount" else None)
                except H.NotLinear:
                    return "nonlinear"
                return ",".join("%+d*%s" % (v, k) for k, v in sorted(lf.items()))
            tab[t] = (sgn(a[0]), sgn(a[1]), str(a[2]), str(a[3]), str(a[4]), str(a[5]))
        L, S = "SwapParams::long_token_price(self.params)", "SwapParams::short_token_price(self.params)"
        want = {True: ("+1*V[Price::mid(%s)]" % L, "-1*V[Price::mid(%s)]" % L, L, S, "PnlFactorKind::MaxAfterDeposit{}", "PnlFactorKind::MaxAfterWithdrawal{}"),
                False: ("-1*V[Price::mid(%s)]" % S, "+1*V[Price::mid(%s)]" % S, S, L, "PnlFactorKind::MaxAfterWithdrawal{}", "PnlFactorKind::MaxAfterDeposit{}")}
        ctx.ob("reassign:table", tab == want, "reassign_values: is_token_in_long -> (long delta, short delta, in price, out price, long kind, short kind) = %s" % tab, where=f.where())
    g = ctx.fn(SW + r"ReassignedValues::<T>::new")
    if g is not None:
        vs = H.value_paths(g)
        ok = len(vs) == 1 and vs[0].ret.k == "agg" and all(n == str(v) for n, v in vs[0].ret.a[1]) and len(vs[0].ret.a[1]) == 6
        ctx.ob("reassign:new", ok, "ReassignedValues::new stores each argument in the field of the same name", where=g.where())
    for nm, fld in (("long_token_price", "long_token_price"), ("short_token_price", "short_token_price")):
        h = ctx.fn(SW + r"SwapParams::<T>::" + nm)
        if h is not None:
            vs = [str(p.ret) for p in H.value_paths(h)]
            ctx.ob("reassign:SwapParams::" + nm, vs == ["self.prices.%s" % fld], "SwapParams::%s() = %s" % (nm, vs), where=h.where())


def _cap(ctx, prog):
    f = ctx.fn(r"gmsol_model::market::swap::SwapMarketExt::swap_impact_amount_with_cap")
    if f is None:
        return
    AMT = "CheckedDiv::checked_div(usd_impact, Unsigned::to_signed(Price::pick_price(price, true))?)"

    def atomize(x):
        x0 = H.peel(x, calls=("Option::ok_or",))
        s = str(x0)
        if s == AMT:
            return "amount"
        m = re.match(r"^Unsigned::to_signed\(Balance::(long|short)_amount\(BaseMarket::swap_impact_pool\(self\)\?\)\?\)$", s)
        if m:
            return "pool"
        return {"Price::has_zero(price)": "zero_price", "Signed::is_positive(usd_impact)": "pos", "Signed::is_negative(usd_impact)": "neg",
                "is_long_token": "is_long"}.get(s)

    def pool_side(x):
        m = re.search(r"Balance::(long|short)_amount\(BaseMarket::swap_impact_pool\(self\)", str(x))
        return m.group(1) if m else None
    cases, bad = 0, []
    try:
        for ranks, b, sel in H.finite_eval(f, atomize, ["amount", "pool"], ["zero_price", "pos", "neg", "is_long"], ignore=r"trybranch",
                                           constraint=lambda r, b: not (b["pos"] and b["neg"])):
            cases += 1
            vals = [p for p in sel if H.retkind(p.ret) == "value"]
            errs = [p for p in sel if H.retkind(p.ret) == "none"]
            if b["zero_price"]:
                if vals or not errs:
                    bad.append("zero price must be rejected: %s" % b)
                continue
            if not vals:
                bad.append("no value path for %s %s" % (ranks, b))
            for p in vals:
                e = H.peel(H.inline_closures(prog, p.ret))
                r0, r1 = e.a[1][0][1], e.a[1][1][1]
                if b["pos"]:
                    a0 = atomize(r0)
                    side = pool_side(r0) if a0 == "pool" else None
                    if a0 not in ("amount", "pool") or ranks[a0] != min(ranks["amount"], ranks["pool"]):
                        bad.append("positive impact, amount %s pool: returns %s" % ("<=>"[(ranks["amount"] > ranks["pool"]) - (ranks["amount"] < ranks["pool"]) + 1], a0 or str(r0)[:60]))
                    if side is not None and side != ("long" if b["is_long"] else "short"):
                        bad.append("is_long_token=%s caps with the %s impact pool amount" % (b["is_long"], side))
                    # guard compares against the pool of the flagged side
                    for c, l in p.conds:
                        ps = pool_side(c)
                        if ps is not None and ps != ("long" if b["is_long"] else "short"):
                            bad.append("is_long_token=%s compares with the %s impact pool amount" % (b["is_long"], ps))
                    capped = ranks["amount"] > ranks["pool"]
                    r1p = H.peel(r1, calls=("Option::ok_or",))
                    if capped:
                        okd = H.is_call(r1p, r"^CheckedMul::checked_mul$") and str(H.call_args(r1p)[1]) == "Price::pick_price(price, true)"
                        if okd:
                            inner = H.peel(H.call_args(r1p)[0])
                            inner = H.call_args(inner)[0] if H.is_call(inner, r"unsigned_abs$") else inner
                            try:
                                lf = H.linform(inner, lambda y: atomize(y) if atomize(y) in ("amount", "pool") else None)
                            except H.NotLinear:
                                lf = None
                            okd = lf == {"amount": 1, "pool": -1}
                        if not okd:
                            bad.append("capped diff value is not (amount - pool) * max price: %s" % str(r1p)[:120])
                    elif str(r1p) != "Zero::zero()":
                        bad.append("uncapped positive impact reports a capped diff: %s" % str(r1p)[:80])
                elif b["neg"]:
                    q = H.peel(r0, calls=("Option::ok_or",))
                    okn = H.is_call(q, r"^CheckedDiv::checked_div$")
                    if okn:
                        pm = lambda y: "P" if str(H.peel(y)) == "Price::pick_price(price, false)" else None
                        try:
                            num, den = H.linform(H.call_args(q)[0], pm), H.linform(H.call_args(q)[1], pm)
                        except H.NotLinear:
                            num = den = None
                        okn = num == {"usd_impact": 1, "P": -1, "1": 1} and den == {"P": 1}
                    if not okn or str(r1) != "Zero::zero()":
                        bad.append("negative impact amount is not (usd - p + 1)/p at the min price: %s" % str(q)[:160])
                else:
                    if not (str(r0) == "Zero::zero()" and str(r1) == "Zero::zero()"):
                        bad.append("zero impact does not return (0, 0)")
    except H.OutOfFragment as ex:
        bad.append("no longer finitely evaluable: %s" % ex)
    ctx.ob("cap:table", not bad,
           "swap_impact_amount_with_cap over %d cases: zero price -> Err; positive: min(usd/max price, impact pool amount of the flagged side), "
           "capped diff = (amount - pool)*max price only when capped; negative: (usd - p + 1)/p at min price; zero -> (0,0)%s" % (
               cases, "; VIOLATED: %s" % sorted(set(bad))[:6] if bad else ""), where=f.where(), detail={"exhaustive": True, "cases": cases})
    ctx.floor("cap", cases, 36)
    # rounding primitives of the function: only truncating checked_div
    prims = sorted(set(c.short for c in f.calls if H.prim_class(c.callee)) | set(c.short for g in prog.closures_of(f) for c in g.calls if H.prim_class(c.callee)))
    ctx.ob("cap:primitives", prims == ["CheckedDiv::checked_div"], "rounding primitives in swap_impact_amount_with_cap (incl. closures): %s" % prims, where=f.where())
