"""C25 A custom price feed never moves backwards in time or stores an invalid price.

Decided on `PriceFeed::update` (the only writer of the feed's price / publication fields):
 * guarded-write  : at each of the three stores (self.price, last_published_at, last_published_at_slot) these
                    comparison facts hold (from dominating require_gte! edges, operands by provenance):
                      price.ts() >= self.price.ts(), clock.slot >= self.last_published_at_slot,
                      clock.unix_timestamp >= self.last_published_at,
                      clock.unix_timestamp (+sat) max_future_excess >= price.ts(),
                      max_price >= min_price, max_price >= price, price >= min_price;
                    stored values: self.price := *price, last_published_at := clock.unix_timestamp,
                    last_published_at_slot := clock.slot; clock is the Clock sysvar.
 * atomic         : no fallible exit is reachable behind the first store ("a rejected update changes nothing").
 * idempotent     : the `idempotent && price_ts < last_price_ts` edge returns Ok(false) without reaching any store;
                    Ok(true) is returned only behind the stores; Ok(false) only on that edge.
 * single-writer  : fields of PriceFeed are stored only in `PriceFeed::init` (identity fields) and `update`.
 * accessors      : PriceFeedPrice::{ts,price,min_price,max_price} return the like-named fields.
"""
import re

from .. import analyses as A
from .. import h_D as H

PF = r"gmsol_store::states::oracle::feed::PriceFeed::"
NOW = r"^SolanaSysvar::get\(\)\?\.unix_timestamp$"
SLOT = r"^SolanaSysvar::get\(\)\?\.slot$"


def run(ctx):
    prog = ctx.prog(["gmsol_store", "gmsol_utils"])
    ctx.explanation = (
        "PriceFeed::update is decided as guarded writes: for each store into the feed, the set of comparison facts "
        "established by the dominating require_gte! edges is computed on the MIR CFG and the seven required facts are "
        "matched by operand provenance (parameter `price` accessors, current fields of self, Clock sysvar fields, "
        "parameter max_future_excess); reachability shows no Err exit behind the first store and that the idempotent "
        "skip edge reaches no store; a crate-wide scan shows update is the only writer of these fields.")
    ctx.not_decided = ("Nothing of substance for the stated property: the facts are per-update, monotonicity over "
                       "sequences follows by induction from `price.ts() >= self.price.ts()` at the only write. "
                       "Decoding of the Chainlink report that produces `price` is C28.")
    ctx.rule("guarded-write", "the seven comparison facts hold at each store of update; stored values have the checked provenance")
    ctx.rule("atomic", "no fallible exit behind the first store")
    ctx.rule("idempotent", "idempotent-older edge returns Ok(false) before any store; Ok(true) only behind all stores")
    ctx.rule("single-writer", "PriceFeed fields are written only by init (identity) and update")
    ctx.rule("accessors", "PriceFeedPrice accessors return the like-named field")

    f = ctx.fn(PF + "update")
    if f is None:
        return
    stores = H.state_stores(f)
    by = {}
    for w in stores:
        by.setdefault(w["path"], []).append(w)
    want_vals = {"self.price": r"^price$", "self.last_published_at": NOW, "self.last_published_at_slot": SLOT}
    ctx.ob("guarded-write:stores", sorted(by) == sorted(want_vals) and all(len(v) == 1 for v in by.values()),
           "update stores exactly once into each of %s (found %s)" % (sorted(want_vals), {k: len(v) for k, v in by.items()}), where=f.where())
    FACTS = [
        ("price-ts-monotone", ">=", r"^PriceFeedPrice::ts\(price\)$", r"^PriceFeedPrice::ts\(self\.price\)$"),
        ("slot-monotone", ">=", SLOT, r"^self\.last_published_at_slot$"),
        ("publish-ts-monotone", ">=", NOW, r"^self\.last_published_at$"),
        ("not-too-future", ">=", r"^i64::saturating_add_unsigned\(SolanaSysvar::get\(\)\?\.unix_timestamp, max_future_excess\)$", r"^PriceFeedPrice::ts\(price\)$"),
        ("max-ge-min", ">=", r"^PriceFeedPrice::max_price\(price\)$", r"^PriceFeedPrice::min_price\(price\)$"),
        ("max-ge-price", ">=", r"^PriceFeedPrice::max_price\(price\)$", r"^PriceFeedPrice::price\(price\)$"),
        ("price-ge-min", ">=", r"^PriceFeedPrice::price\(price\)$", r"^PriceFeedPrice::min_price\(price\)$"),
    ]
    n = 0
    for path, ws in sorted(by.items()):
        for w in ws:
            facts = H.facts_at(f, w["bb"])
            for nm, op, a_re, b_re in FACTS:
                ok = A.has_fact(facts, op, a_re, b_re)
                n += 1
                ctx.ob("guarded-write:%s:%s" % (path.split(".")[-1], nm), ok,
                       "at the store into %s the fact %s holds: %s" % (path, nm, ok), where="%s:%d" % (f.file, w["line"]))
            vre = want_vals.get(path)
            ctx.ob("guarded-write:%s:value" % path.split(".")[-1], vre is not None and re.match(vre, str(w["rv"])) is not None,
                   "%s := %s" % (path, w["rv"]), where="%s:%d" % (f.file, w["line"]))
    ctx.floor("guarded-write", n, 21)
    clk = [c for c in f.calls if c.short == "SolanaSysvar::get"]
    ctx.ob("guarded-write:clock", len(clk) == 1 and re.search(r"\bClock\b", (clk[0].self_ty or "") + " " + (clk[0].resolved or "")) is not None,
           "the single sysvar read is Clock::get(): %s" % [(c.self_ty or "").split("::")[-1] for c in clk], where=f.where())

    H.atomic(ctx, "atomic:PriceFeed::update", f, floor=3)
    ctx.floor("atomic", 1, 1)

    # idempotent
    sblocks = sorted(set(w["bb"] for w in stores))
    falses = [bb for bb, e in H.ok_exits(f) if str(e) == "Result::Ok{0: false}"]
    trues = [bb for bb, e in H.ok_exits(f) if str(e) == "Result::Ok{0: true}"]
    others = [str(e) for bb, e in H.ok_exits(f) if bb not in falses and bb not in trues]
    a = len(falses) == 1 and all(H.guarded(f, bb, r"^idempotent$", True) and H.guarded(f, bb, r"^\(PriceFeedPrice::ts\(price\) Lt PriceFeedPrice::ts\(self\.price\)\)$", True) for bb in falses)
    b = all(not any(s in f.reachable_from(bb) for s in sblocks) for bb in falses)
    # no store precedes the skip exit either
    b2 = all(not any(bb in f.reachable_from(s) for s in sblocks) for bb in falses)
    c = len(trues) >= 1 and all(all(f.dominates(s, bb) for s in sblocks) for bb in trues) and not others
    ctx.ob("idempotent:skip-edge", a and b and b2,
           "Ok(false) is returned exactly on the `idempotent && price.ts() < self.price.ts()` edge (%s) and no store is reachable from / before it (%s/%s)" % (a, b, b2), where=f.where())
    ctx.ob("idempotent:true-after-stores", c, "Ok(true) exits (%d) are dominated by all three stores; no other Ok value: %s" % (len(trues), others), where=f.where())
    # strict mode: the same comparison rejects when not idempotent
    sw = H.bool_switches(f, r"^\(PriceFeedPrice::ts\(price\) Lt PriceFeedPrice::ts\(self\.price\)\)$")
    d = len(sw) >= 1 and all(not any(s in f.reachable_from(x["true"]) for s in sblocks) for x in sw)
    ctx.ob("idempotent:older-never-stored", d, "no store is reachable from any `price.ts() < self.price.ts()` true edge (%d branch(es)): %s" % (len(sw), d), where=f.where())
    ctx.floor("idempotent", 3, 3)

    # single writer
    writers = {}
    for g in prog.fns.values():
        if g.crate != "gmsol_store":
            continue
        for bb, si, st in g.statements():
            if st[0] in ("=", "setdiscr") and len(st[1]) > 1 and re.search(r"oracle::feed::PriceFeed\b", g.locals[st[1][0]][0]):
                flds = [p for p in st[1][1:] if isinstance(p, str) and p.startswith(".")]
                if flds:
                    writers.setdefault(g.id, set()).add(flds[0][1:])
        for cs in g.calls:
            if len(cs.dest) > 1 and re.search(r"oracle::feed::PriceFeed\b", g.locals[cs.dest[0]][0]):
                flds = [p for p in cs.dest[1:] if isinstance(p, str) and p.startswith(".")]
                if flds:
                    writers.setdefault(g.id, set()).add(flds[0][1:])
    upd_id, init_id = PF.replace("\\", "") + "update", PF.replace("\\", "") + "init"
    dyn = {"price", "last_published_at", "last_published_at_slot"}
    bad = {k: sorted(v) for k, v in writers.items() if k not in (upd_id, init_id)}
    ok = not bad and writers.get(upd_id) == dyn and not (writers.get(init_id, set()) & dyn)
    ctx.ob("single-writer:PriceFeed", ok,
           "field stores into PriceFeed: %s; offenders: %s" % ({H.short_path(k): sorted(v) for k, v in writers.items()}, bad), where=f.where())
    # &mut borrows of the price field handed to someone else
    esc = [m["desc"] for g in prog.fns.values() if g.crate == "gmsol_store" and g.id.startswith(PF.replace("\\", ""))
           for m in H.mutations(g) if m["kind"] == "call" and g.id not in (upd_id, init_id)]
    ctx.ob("single-writer:no-mut-escape", not esc, "no other PriceFeed method passes `&mut self` state to a callee: %s" % esc, where=f.where())
    cs = prog.callers_of(f.id)
    ctx.ob("single-writer:update-callers", len(cs) >= 1 and all(re.search(r"gmsol_store::instructions::oracle::custom::", c.fn.id) for c in cs),
           "PriceFeed::update is called from %s" % sorted(set(c.fn.short for c in cs)), where=f.where())
    ctx.floor("single-writer", 3, 3)

    n = 0
    for nm, fld in (("ts", "ts"), ("price", "price"), ("min_price", "min_price"), ("max_price", "max_price")):
        g = ctx.fn(r"gmsol_utils::price::feed_price::PriceFeedPrice::" + nm)
        if g is None:
            continue
        ex = [str(e) for _, _, e in g.exits()]
        n += 1
        ctx.ob("accessors:PriceFeedPrice::" + nm, ex == ["self." + fld], "PriceFeedPrice::%s returns %s" % (nm, ex), where=g.where())
    ctx.floor("accessors", n, 4)
