"""C20 Market config updates follow the keeper permission policy.

Decided:
 * gate           : the three update entrypoints are gated by `ensure_can_update_market_config`, which demands exactly
                    {MARKET_KEEPER, MARKET_CONFIG_KEEPER}; `set_market_config_updatable` demands MARKET_KEEPER; the
                    unchecked handlers are called only from their entrypoint.
 * keyed-write    : in `unchecked_update_market_config(_flag)` the config write is unreachable once the `true` edge of
                    `is_factor_updatable(key)` / `is_flag_updatable(key)` and the Ok edge of `only_market_keeper(ctx)`
                    are deleted from the CFG (edge form of must-pass-through); permission, key and market provenance.
 * buffer-expiry  : `buffer.expiry > Clock::get()?.unix_timestamp` holds at the apply call.
 * buffer-policy  : the apply call is unreachable once the Ok edge of `only_market_keeper` and the exhaustion edge of the
                    loop over `buffer.iter()` are deleted; inside the loop the next iteration is reachable only through
                    the `true` edge of `is_factor_updatable(entry.key()?)`; its false edge reaches neither the loop head,
                    the apply call nor an Ok exit; the checked buffer is the applied buffer and `update_config_with_buffer`
                    writes exactly `entry.key()` of `buffer.iter()`.
 * buffer-binding : accounts struct has `buffer: has_one = authority, has_one = store`, `market: has_one = store`.
 * perm-sibling   : is_X_updatable reads the container/key that set_X_updatable writes; setters change only on a
                    different value.
 * who-may-write  : the config writers (`MarketConfig::get_mut`, `set_flag`) and the permission setters are reachable
                    only from the tabled instructions.
"""
import re

from .. import analyses as A
from .. import anchor
from .. import h_D as H
from ..accounts import AccountsStruct

IM = r"gmsol_store::instructions::market::"
PERM = r"AccountLoader::load\(ctx\.accounts\.store\)\?\.market_config_permissions"


def _is_entry(f):
    return f.id.startswith("gmsol_store::gmsol_store::") and f.id.count("::") == 2


def run(ctx):
    prog = ctx.prog(["gmsol_store"])
    ctx.explanation = (
        "The keeper policy is decided on the MIR control-flow graphs of the three update handlers: after deleting the "
        "'key is updatable' edge and the 'caller is MARKET_KEEPER' edge no path reaches the config write (so a "
        "MARKET_CONFIG_KEEPER can only write updatable keys); for buffers the same with the loop-exhaustion edge, "
        "each iteration continuing only through the updatable edge and the non-updatable edge reaching only Err "
        "exits; the expiry comparison against the Clock sysvar dominates the apply; roles are resolved to constants; "
        "argument provenance ties the checked key/buffer/store to the written ones.")
    ctx.not_decided = (
        "The flag-container bit arithmetic (get_flag/set_flag agreement is only checked as sibling use of the same "
        "container and key); Anchor's has_one enforcement; role-store semantics (C18); that every MarketConfigKey has "
        "a factor index (a key without one is rejected with an error for MARKET_CONFIG_KEEPERs and MARKET_KEEPERs alike).")
    ctx.rule("gate", "entrypoints are gated by the right role set and are the only callers of the unchecked handlers")
    ctx.rule("keyed-write", "config write unreachable without the updatable-true edge or the only_market_keeper Ok edge; provenance of key/permissions/market")
    ctx.rule("buffer-expiry", "buffer.expiry > Clock.unix_timestamp holds at the apply call")
    ctx.rule("buffer-policy", "apply reachable only via keeper-Ok or full loop exhaustion with every entry updatable; same buffer checked and applied")
    ctx.rule("buffer-binding", "declarative account constraints bind buffer to authority and store")
    ctx.rule("perm-sibling", "is_*_updatable and set_*_updatable use the same container and key conversion; setters require a change")
    ctx.rule("who-may-write", "config / permission writers are reachable only from the tabled instructions")

    _gate(ctx, prog)
    _keyed(ctx, prog)
    _buffer(ctx, prog)
    _perm(ctx, prog)
    _writers(ctx, prog)


# --------------------------------------------------------------------------------------------- gate

def _gate(ctx, prog):
    es = {e.name: e for e in anchor.entrypoints(prog, "gmsol_store")}
    n = 0
    for name, handler, roles in (("update_market_config", IM + "unchecked_update_market_config", ["MARKET_CONFIG_KEEPER", "MARKET_KEEPER"]),
                                 ("update_market_config_flag", IM + "unchecked_update_market_config_flag", ["MARKET_CONFIG_KEEPER", "MARKET_KEEPER"]),
                                 ("update_market_config_with_buffer", IM + "unchecked_update_market_config_with_buffer", ["MARKET_CONFIG_KEEPER", "MARKET_KEEPER"]),
                                 ("set_market_config_updatable", IM + r"SetMarketConfigUpdatable::<'_>::invoke_unchecked", ["MARKET_KEEPER"])):
        e = es.get(name)
        if e is None:
            ctx.ob("anchor-missing:entry:" + name, False, "instruction %s not found" % name, where="(anchor)")
            continue
        ctx.analysed_fns.add(e.user.id)
        gate = anchor.gate_of(e.user)
        if gate is None:
            ctx.ob("gate:" + name, False, "%s has no role gate as its first call" % name, where=e.user.where())
            continue
        ok, why, ncalls = anchor.check_gate_dominates(e.user, gate)
        try:
            got = sorted(anchor.role_of_gate(prog, gate))
        except Exception as ex:  # fail closed
            got = ["?%s" % ex]
        h = ctx.fn(handler)
        callers_ok = False
        cs = []
        if h is not None:
            cs = prog.callers_of(h.id)
            callers_ok = len(cs) >= 1 and all(c.fn.id == e.user.id for c in cs)
        n += 1
        ctx.ob("gate:" + name, ok and got == sorted(roles) and callers_ok,
               "%s: gate %s dominates (%s), demands %s (want %s); handler called only from it: %s" % (
                   name, gate.short, why, got, sorted(roles), callers_ok),
               where=e.user.where(gate.line), detail={"callers": sorted(set(c.fn.short for c in cs))})
    ctx.floor("gate", n, 4)


# --------------------------------------------------------------------------------------------- single key / flag

def _keeper_ok_edges(fn):
    """Edges that are taken only when Authenticate::only_market_keeper(ctx) returned Ok. -> (sites, ok_edges)"""
    sites = [c for c in fn.calls if c.callee and c.callee.endswith("::Authenticate::only_market_keeper")]
    edges = []
    for c in sites:
        ts = H.try_edges(fn, c)
        if ts and ts[1] is not None:
            edges.append((ts[0], ts[1]))
            continue
        # `if let Err(e) = only_market_keeper(..)` / match: switch directly on the result's discriminant
        for sw in H.discr_switches(fn, r"^Authenticate::only_market_keeper\(ctx\)$"):
            edges.append((sw["bb"], H.variant_target(fn, sw, 0)))
    return sites, edges


def _keyed(ctx, prog):
    n = 0
    for hname, pred, writer, kind in (("unchecked_update_market_config", "is_factor_updatable", "Market::get_config_by_key_mut", "store"),
                                      ("unchecked_update_market_config_flag", "is_flag_updatable", "Market::set_config_flag_by_key", "call")):
        fn = ctx.fn(IM + hname)
        if fn is None:
            continue
        key = "keyed-write:" + hname
        cond_re = r"^MarketConfigPermissions::%s\(%s, (.+?)\)\??$" % (pred, PERM)
        sws = H.bool_switches(fn, cond_re)
        ksites, kedges = _keeper_ok_edges(fn)
        wcalls = [c for c in fn.calls if c.short == writer]
        if len(sws) != 1 or len(ksites) != 1 or not kedges or len(wcalls) != 1:
            ctx.ob(key, False, "%s: expected one branch on %s, one only_market_keeper call, one %s call; found %d/%d/%d" % (
                hname, pred, writer, len(sws), len(ksites), len(wcalls)), where=fn.where())
            continue
        sw, w = sws[0], wcalls[0]
        checked_key = re.match(cond_re, str(sw["cond"])).group(1)
        if kind == "store":
            stores = [s for s in H.state_stores(fn, r"Market::get_config_by_key_mut\(")]
            wblocks = [s["bb"] for s in stores]
            stored = [str(s["rv"]) for s in stores]
        else:
            wblocks = [w.bb]
            stored = [str(w.arg_expr(2))]
        reach = H.reach_avoiding_edges(fn, 0, [(sw["bb"], sw["true"])] + kedges)
        leak = [b for b in wblocks if b in reach]
        # sanity of the construction: without deleting anything the write is reachable
        live = all(b in fn.reachable_from(0) for b in wblocks) and bool(wblocks)
        prov_key = str(w.arg_expr(1)) == checked_key
        prov_mkt = str(w.arg_expr(0)) == "AccountLoader::load_mut(ctx.accounts.market)?"
        prov_val = stored == ["value"]
        n += 1
        ctx.ob(key, live and not leak and prov_key and prov_mkt and prov_val,
               "%s: write %s at bb%s; reachable without updatable-true edge and keeper-Ok edge: %s; checked key == written key: %s; "
               "market = ctx.accounts.market: %s; stored value = parameter `value`: %s" % (hname, writer, wblocks, leak, prov_key, prov_mkt, prov_val),
               where=w.where(), detail={"checked_key": checked_key[:160], "written_key": str(w.arg_expr(1))[:160]})
        # the keeper check itself must sit on the NOT-updatable edge only (a MARKET_CONFIG_KEEPER is not asked for
        # MARKET_KEEPER when the key is updatable)
        on_false = all(fn.dominates(sw["false"], c.bb) and sw["true"] != sw["false"] for c in ksites)
        skip = w.bb in fn.reachable_from(sw["true"], avoid_blocks=[c.bb for c in ksites])
        ctx.ob(key + ":updatable-needs-no-keeper", on_false and skip,
               "%s: only_market_keeper is demanded only on the not-updatable edge (%s) and the updatable edge reaches the write without it (%s)" % (hname, on_false, skip),
               where=ksites[0].where())
    ctx.floor("keyed-write", n, 2)


# --------------------------------------------------------------------------------------------- buffer

def _buffer(ctx, prog):
    fn = ctx.fn(IM + "unchecked_update_market_config_with_buffer")
    if fn is None:
        return
    applies = [c for c in fn.calls if c.short == "Market::update_config_with_buffer"]
    if len(applies) != 1:
        ctx.ob("buffer-policy:apply", False, "expected exactly one Market::update_config_with_buffer call, found %d" % len(applies), where=fn.where())
        return
    ap = applies[0]
    # expiry
    facts = A.cmp_facts(fn, ap.bb)
    exp_ok = False
    clk = None
    for op, a, b in facts:
        if b is None:
            continue
        for x, y, o in ((a, b, op), (b, a, A.FLIP[op])):
            if o == ">" and str(x) == "ctx.accounts.buffer.expiry" and re.match(r"^SolanaSysvar::get\(\)\?\.unix_timestamp$", str(y)):
                c = H.call_of_expr(y.a[0].a[0]) if y.k == "field" and y.a[0].k == "try" else None
                clk = c
                if c is not None and re.search(r"\bClock\b", (c.self_ty or "") + " " + (c.resolved or "")):
                    exp_ok = True
    ctx.ob("buffer-expiry:unchecked_update_market_config_with_buffer", exp_ok,
           "at the apply call the fact `ctx.accounts.buffer.expiry > Clock::get()?.unix_timestamp` holds: %s (facts: %s)" % (
               exp_ok, [("%s %s %s" % (H.sx(a, 60), op, H.sx(b, 60))) for op, a, b in facts if b is not None][:4]),
           where=ap.where(), detail={"clock": (clk.self_ty if clk else None)})
    ctx.floor("buffer-expiry", 1, 1)

    # policy
    ksites, kedges = _keeper_ok_edges(fn)
    ITER = r"^Iterator::next\(MarketConfigBuffer::iter\(ctx\.accounts\.buffer\)\)$"
    loops = H.discr_switches(fn, ITER)
    KEY = r"Entry::key\(Iterator::next\(MarketConfigBuffer::iter\(ctx\.accounts\.buffer\)\)@Some\.0\)\?"
    cond_re = r"^MarketConfigPermissions::is_factor_updatable\(%s, %s\)\?$" % (PERM, KEY)
    sws = H.bool_switches(fn, cond_re)
    nexts = [c for c in fn.calls if c.short == "Iterator::next" and re.match(r"^MarketConfigBuffer::iter\(ctx\.accounts\.buffer\)$", str(c.arg_expr(0)))]
    if len(ksites) != 1 or not kedges or len(loops) != 1 or len(sws) != 1 or len(nexts) != 1:
        ctx.ob("buffer-policy:shape", False,
               "expected one only_market_keeper call (%d), one loop over ctx.accounts.buffer.iter() (%d switches, %d next calls), one branch on "
               "is_factor_updatable(store permissions, entry.key()?) (%d)" % (len(ksites), len(loops), len(nexts), len(sws)), where=fn.where())
        return
    lp, sw, nx = loops[0], sws[0], nexts[0]
    none_tgt = H.variant_target(fn, lp, 0)
    some_tgt = H.variant_target(fn, lp, 1)
    reach = H.reach_avoiding_edges(fn, 0, kedges + [(lp["bb"], none_tgt)])
    a_ok = ap.bb not in reach and ap.bb in fn.reachable_from(0)
    ctx.ob("buffer-policy:apply-needs-keeper-or-all-updatable", a_ok,
           "apply call (bb%d) is unreachable when the only_market_keeper Ok edge and the loop-exhaustion edge are deleted: %s" % (ap.bb, a_ok),
           where=ap.where())
    r2 = H.reach_avoiding_edges(fn, some_tgt, [(sw["bb"], sw["true"])])
    b_ok = nx.bb not in r2 and ap.bb not in r2 and sw["bb"] in r2
    ctx.ob("buffer-policy:each-entry-checked", b_ok,
           "from the loop body the next iteration / the apply call are reachable only through the true edge of is_factor_updatable(entry.key()?): %s" % b_ok,
           where=fn.where())
    r3 = fn.reachable_from(sw["false"])
    oks = fn.ok_exit_blocks()
    c_ok = nx.bb not in r3 and ap.bb not in r3 and not (oks & r3) and bool(fn.err_exit_blocks() & r3)
    errs = [H.sx(e, 80) for bb, k, e in fn.exits() if bb in r3]
    ctx.ob("buffer-policy:non-updatable-rejects", c_ok,
           "the not-updatable edge reaches no further iteration, no apply and no Ok exit — only %s" % errs, where=fn.where())
    d_ok = str(ap.arg_expr(1)) == "ctx.accounts.buffer" and str(ap.arg_expr(0)) == "AccountLoader::load_mut(ctx.accounts.market)?"
    ctx.ob("buffer-policy:same-buffer", d_ok,
           "the buffer iterated for the permission check is the one applied, to ctx.accounts.market: apply(%s, %s)" % (H.sx(ap.arg_expr(0), 60), H.sx(ap.arg_expr(1), 60)),
           where=ap.where())
    # the keeper test precedes the loop (the loop runs only on its Err edge)
    e_ok = all(fn.dominates(c.bb, lp["bb"]) for c in ksites)
    ctx.ob("buffer-policy:loop-on-keeper-err", e_ok, "the per-entry loop is entered only after only_market_keeper was evaluated: %s" % e_ok, where=fn.where())
    # Market::update_config_with_buffer writes entry.key() of buffer.iter()
    uf = ctx.fn(r"gmsol_store::states::market::Market::update_config_with_buffer")
    if uf is not None:
        ws = H.state_stores(uf, r"MarketConfig::get_mut\(self\.config")
        k_ok = len(ws) >= 1 and all(
            re.search(r"MarketConfig::get_mut\(self\.config, Entry::key\(Iterator::next\(MarketConfigBuffer::iter\(buffer\)\)@Some\.0\)\?\)", w["path"])
            and str(w["rv"]) == "Entry::value(Iterator::next(MarketConfigBuffer::iter(buffer))@Some.0)" for w in ws)
        others = [m for m in H.mutations(uf) if m["kind"] == "call"]
        ctx.ob("buffer-policy:apply-writes-checked-keys", k_ok and not others,
               "update_config_with_buffer stores entry.value() into config.get_mut(entry.key()?) for entries of buffer.iter() and mutates nothing else "
               "(stores %d, other mutating calls %s)" % (len(ws), [m["desc"] for m in others]), where=uf.where())
    ctx.floor("buffer-policy", 6, 6)

    adt = ctx.adt(IM + "UpdateMarketConfigWithBuffer")
    if adt is not None:
        facts = set(AccountsStruct(adt).facts())
        want = ["signer:authority", "has_one:buffer->authority", "has_one:buffer->store", "has_one:market->store"]
        miss = [w for w in want if w not in facts]
        ctx.ob("buffer-binding:UpdateMarketConfigWithBuffer", not miss, "constraints %s present; missing: %s" % (want, miss),
               where="%s:%d" % (adt.file, adt.line))
    adt = ctx.adt(IM + "UpdateMarketConfig")
    if adt is not None:
        facts = set(AccountsStruct(adt).facts())
        want = ["signer:authority", "has_one:market->store"]
        miss = [w for w in want if w not in facts]
        ctx.ob("buffer-binding:UpdateMarketConfig", not miss, "constraints %s present; missing: %s" % (want, miss),
               where="%s:%d" % (adt.file, adt.line))
    ctx.floor("buffer-binding", 2, 2)


# --------------------------------------------------------------------------------------------- permissions

def _perm(ctx, prog):
    P = r"gmsol_store::states::permissions::market_config::MarketConfigPermissions::"
    isf, setf = ctx.fn(P + "is_flag_updatable"), ctx.fn(P + "set_flag_updatable")
    isk, setk = ctx.fn(P + "is_factor_updatable"), ctx.fn(P + "set_factor_updatable")
    if None in (isf, setf, isk, setk):
        return
    ex = [str(e) for _, _, e in isf.exits()]
    a = ex == ["MarketConfigFlagContainer::get_flag(self.updatable_market_config_flags, flag)"]
    sets = [c for c in setf.calls if c.short == "MarketConfigFlagContainer::set_flag"]
    b = len(sets) == 1 and [str(sets[0].arg_expr(i)) for i in range(3)] == ["self.updatable_market_config_flags", "flag", "updatable"] \
        and H.guarded(setf, sets[0].bb, r"^\(MarketConfigPermissions::is_flag_updatable\(self, flag\) Eq updatable\)$", False)
    ctx.ob("perm-sibling:flag", a and b,
           "is_flag_updatable = updatable_market_config_flags.get_flag(flag) (%s); set_flag_updatable sets the same container/flag to `updatable` only when it differs (%s)" % (a, b),
           where=setf.where())
    FK = r"Result::map_err\(MarketConfigPermissions::to_factor\(key\), closure<[^>]*>\)\?"
    oks = [str(e) for _, e in H.ok_exits(isk)]
    a = len(oks) == 1 and re.match(r"^Result::Ok\{0: MarketConfigFactorContainer::get_flag\(self\.updatable_market_config_factors, %s\)\}$" % FK, oks[0]) is not None
    sets = [c for c in setk.calls if c.short == "MarketConfigFactorContainer::set_flag"]
    b = len(sets) == 1 and str(sets[0].arg_expr(0)) == "self.updatable_market_config_factors" \
        and re.match("^" + FK + "$", str(sets[0].arg_expr(1))) is not None and str(sets[0].arg_expr(2)) == "updatable" \
        and H.guarded(setk, sets[0].bb, r"^\(MarketConfigFactorContainer::get_flag\(self\.updatable_market_config_factors, %s\) Eq updatable\)$" % FK, False)
    ctx.ob("perm-sibling:factor", a and b,
           "is_factor_updatable = updatable_market_config_factors.get_flag(to_factor(key)?) (%s); set_factor_updatable sets the same container/index only when it differs (%s)" % (a, b),
           where=setk.where())
    # invoke_unchecked dispatch: is_flag -> flag setter, else factor setter; both on ctx.accounts.store
    inv = ctx.fn(IM + r"SetMarketConfigUpdatable::<'_>::invoke_unchecked")
    if inv is not None:
        f1 = [c for c in inv.calls if c.short.endswith("set_market_config_flag_updatable")]
        f2 = [c for c in inv.calls if c.short.endswith("set_market_config_factor_updatable")]
        ok = len(f1) == 1 and len(f2) == 1 and H.guarded(inv, f1[0].bb, r"^is_flag$", True) and H.guarded(inv, f2[0].bb, r"^is_flag$", False) \
            and all([str(c.arg_expr(i)) for i in range(3)] == ["ctx.accounts", "key", "updatable"] for c in f1 + f2)
        ctx.ob("perm-sibling:dispatch", ok, "set_market_config_updatable: is_flag -> flag setter, !is_flag -> factor setter, same (key, updatable): %s" % ok, where=inv.where())
        for nm, inner in (("set_market_config_flag_updatable", "MarketConfigPermissions::set_flag_updatable"),
                          ("set_market_config_factor_updatable", "MarketConfigPermissions::set_factor_updatable")):
            g = ctx.fn(IM + r"SetMarketConfigUpdatable::<'_>::" + nm)
            if g is None:
                continue
            cs = [c for c in g.calls if c.short == inner]
            ok = len(cs) == 1 and str(cs[0].arg_expr(0)) == "AccountLoader::load_mut(self.store)?.market_config_permissions" \
                and re.match(r"^Result::map_err\(str::parse\(key\), closure<.*>\)\?$", str(cs[0].arg_expr(1))) is not None \
                and str(cs[0].arg_expr(2)) == "updatable" and cs[0].dest == [0]
            ctx.ob("perm-sibling:" + nm, ok, "%s returns %s(store.market_config_permissions, key.parse()?, updatable): %s" % (nm, inner, ok), where=g.where())
    ctx.floor("perm-sibling", 5, 5)


# --------------------------------------------------------------------------------------------- writers

def _writers(ctx, prog):
    n = 0
    for pat, allowed in ((r"gmsol_store::states::market::config::MarketConfig::get_mut",
                          {"update_market_config", "update_market_config_with_buffer"}),
                         (r"gmsol_store::states::market::config::MarketConfig::set_flag",
                          {"update_market_config_flag", "initialize_market"}),
                         (r"gmsol_store::states::permissions::market_config::MarketConfigPermissions::set_flag_updatable",
                          {"set_market_config_updatable"}),
                         (r"gmsol_store::states::permissions::market_config::MarketConfigPermissions::set_factor_updatable",
                          {"set_market_config_updatable"})):
        f = ctx.fn(pat)
        if f is None:
            continue
        roots, seen = H.entry_roots(prog, f, _is_entry)
        ents = sorted(r.rsplit("::", 1)[-1] for r in roots if _is_entry(roots[r]))
        bad = [e for e in ents if e not in allowed]
        n += 1
        ctx.ob("who-may-write:" + f.short, not bad and len(ents) >= 1,
               "%s is reachable from instructions %s (allowed %s); offenders: %s" % (f.short, ents, sorted(allowed), bad),
               where=f.where(), detail={"uncalled_helpers": sorted(H.short_path(r) for r in roots if not _is_entry(roots[r]))})
    ctx.floor("who-may-write", n, 4)
