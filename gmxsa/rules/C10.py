"""C10 Opening and immediately closing a position is never profitable.

Decided — a direction table; every line is a necessary condition (A5 side polarity x A7 rounding, A1 who-calls, A9-lite clamps):

 * open-size        : `IncreasePosition::get_execution_params`: long -> size_usd / index.pick_price(true) with checked_div (floor);
                      short -> size_usd / index.pick_price(false) with checked_round_up_div (ceil); long ADDS and short SUBTRACTS
                      the signed impact amount (checked_add_with_signed / checked_sub_with_signed).
 * open-impact      : positive impact -> impact / index.max with truncating division (floor); otherwise
                      index.min.as_divisor_to_round_up_magnitude_div(impact) (magnitude rounded up).
 * impact-source    : increase takes its impact from `capped_positive_position_price_impact(index, +size, true)`, decrease from
                      `capped_position_price_impact(index, -size, true)`; the uncapped `position_price_impact` is called only by
                      the capping wrapper and by check_liquidatable (tabled: positive impact zeroed there); wrapper chain checked.
 * cap-positive     : `cap_positive_position_price_impact`: under !is_negative(impact) BOTH clamps are on every path to Ok, each
                      stores exactly the bound it compared with (`impact > M  =>  impact = M`), M1 = pool amount * index.min,
                      M2 = apply_factor(|size delta|, max_positive_position_impact_factor); no other store to impact.
 * close-size       : `PositionExt::size_delta_in_tokens` over {full close, is_long}: full -> whole size_in_tokens; long ->
                      checked_mul_div_ceil; short -> checked_mul_div (floor), operands (tokens * delta / size_usd).
 * close-impact-pay : `add_price_impact_if_positive`: only under is_positive; the impact pool is debited ceil(|impact| / index.min),
                      the trader is credited floor(|impact| / pnl_token.max) which is also what the liquidity pool loses.
"""
import re

from .. import analyses as A
from .. import h_A as H

INC = r"gmsol_model::action::increase_position::IncreasePosition::<P, DECIMALS>::get_execution_params"
IDX = "self.params.prices.index_token_price"


def _s(cs, i):
    return str(H.arg_at(cs, i)) if i < len(cs.args) else "<no-arg>"


def _guard(f, bb, cond_re):
    for g, t in f.bool_guards(bb):
        c, tt = g, t
        while c.k == "un" and c.a[0] == "Not":
            c, tt = c.a[1], not tt
        if re.search(cond_re, str(c)):
            return tt
    return None


def run(ctx):
    prog = ctx.prog(["gmsol_model"])
    ctx.explanation = (
        "Every rounding / price-side / sign decision between opening and closing a position is tabled against the direction "
        "that disfavours the trader: tokens received on open (long floor at max price, short ceil at min price), impact amounts "
        "(positive floor at max, negative away from zero at min, added for longs and subtracted for shorts), the positive impact "
        "is always the capped one (two clamps on every path), tokens given up on close (long ceil, short floor, full close exact), "
        "and the payout of positive impact on close (pool debited rounded up, trader credited rounded down).")
    ctx.not_decided = (
        "The inequality on returned collateral value itself (value reasoning composing these directions with pnl, fees and "
        "execution price); negative-impact capping/claimable diff (cap_negative_position_price_impact) beyond its call arguments; "
        "fees (C02), pnl (C11).")
    ctx.rule("open-size", "increase: long floor(size/max price), short ceil(size/min price); impact added for long, subtracted for short")
    ctx.rule("open-impact", "increase: positive impact floor at max price; negative impact rounded away from zero at min price")
    ctx.rule("impact-source", "only capped impact reaches increase/decrease; callers of the uncapped function are tabled")
    ctx.rule("cap-positive", "both positive clamps on every path; each stores the bound it compared with")
    ctx.rule("close-size", "decrease: full close exact, long ceil, short floor")
    ctx.rule("close-impact-pay", "positive impact on close: pool debited ceil at index min, trader credited floor at pnl-token max")

    _open(ctx)
    _source(ctx, prog)
    _cap(ctx)
    _close_size(ctx)
    _close_pay(ctx, prog)


def _open(ctx):
    f = ctx.fn(INC)
    if f is None:
        return
    IMP = r"^Signed::is_positive\(PositionExt::capped_positive_position_price_impact\(.*\)\?\.value\)$"
    LONG = r"^Position::is_long\(self\.position\)$"
    size_sites, impact_sites = {}, {}
    for c in f.calls:
        k = H.prim_class(c.callee)
        if not k:
            continue
        a = [_s(c, i) for i in range(len(c.args))]
        is_long = _guard(f, c.bb, LONG)
        pos = _guard(f, c.bb, IMP)
        if any(re.search(r"^self\.params\.size_delta_usd$", x) for x in a):
            size_sites[is_long] = (c.short, k, a)
        elif any(re.search(r"capped_positive_position_price_impact\(.*\)\?\.value$", x) for x in a):
            impact_sites[pos] = (c.short, k, a)
        else:
            size_sites["?%d" % c.bb] = (c.short, k, a)
    want_size = {True: ("CheckedDiv::checked_div", "floor", ["self.params.size_delta_usd", "Price::pick_price(%s, true)" % IDX]),
                 False: ("Unsigned::checked_round_up_div", "ceil", ["self.params.size_delta_usd", "Price::pick_price(%s, false)" % IDX])}
    ctx.ob("open-size:long", size_sites.get(True) == want_size[True], "long: base size in tokens = %s (want floor division by the MAX index price)" % (size_sites.get(True),), where=f.where())
    ctx.ob("open-size:short", size_sites.get(False) == want_size[False], "short: base size in tokens = %s (want round-up division by the MIN index price)" % (size_sites.get(False),), where=f.where())
    ctx.ob("open-size:no-other-site", set(size_sites) == {True, False}, "exactly one size conversion per side, each under an is_long test: %s" % sorted(map(str, size_sites)), where=f.where())
    p = impact_sites.get(True)
    ok = p is not None and p[0] == "CheckedDiv::checked_div" and re.search(r"capped_positive_position_price_impact\(.*\)\?\.value$", p[2][0]) is not None \
        and re.search(r"^Result::map_err\(TryInto::try_into\(Price::pick_price\(%s, true\)\)" % re.escape(IDX), p[2][1]) is not None
    ctx.ob("open-impact:positive", ok, "positive impact amount = impact / index.pick_price(true), truncating: %s" % (p and (p[0], p[2][1][:90]),), where=f.where())
    n = impact_sites.get(False)
    ok = n is not None and n[0] == "Unsigned::as_divisor_to_round_up_magnitude_div" and n[2][0] == "Price::pick_price(%s, false)" % IDX \
        and re.search(r"capped_positive_position_price_impact\(.*\)\?\.value$", n[2][1]) is not None
    ctx.ob("open-impact:non-positive", ok, "non-positive impact amount = index.pick_price(false).as_divisor_to_round_up_magnitude_div(impact): %s" % (n and (n[0], n[2][0]),), where=f.where())
    ctx.ob("open-impact:no-other-site", set(impact_sites) == {True, False}, "one impact conversion per sign arm: %s" % sorted(map(str, impact_sites)), where=f.where())
    # application of the impact amount
    app = {}
    for c in f.calls:
        if c.short in ("Unsigned::checked_add_with_signed", "Unsigned::checked_sub_with_signed"):
            app[_guard(f, c.bb, LONG)] = c.short
    ctx.ob("open-size:impact-sign", app == {True: "Unsigned::checked_add_with_signed", False: "Unsigned::checked_sub_with_signed"},
           "impact amount is ADDED to the tokens of a long and SUBTRACTED from those of a short: %s" % app, where=f.where())
    # the Ok value reports exactly these
    oks = [(bb, e) for bb, k, e in f.exits() if k == "ok" and _guard(f, bb, r"^Zero::is_zero\(self\.params\.size_delta_usd\)$") is False]
    good = False
    if len(oks) == 1:
        e = H.peel(H.ret_at(f, oks[0][0]))
        fl = dict(e.a[1]) if e.k == "agg" else {}
        ex = fl.get("execution")
        xl = dict(ex.a[1]) if ex is not None and ex.k == "agg" else {}
        sd = xl.get("size_delta_in_tokens")
        alts = [H.peel(a, calls=("Option::ok_or",)) for a in (H.peel(sd, calls=("Option::ok_or",)).alts() if sd is not None else [])]
        good = sorted(a.a[0] for a in alts if a.k == "call") == ["Unsigned::checked_add_with_signed", "Unsigned::checked_sub_with_signed"] and \
            re.search(r"capped_positive_position_price_impact", str(fl.get("price_impact"))) is not None
    ctx.ob("open-size:reported", good, "ExecutionParams.size_delta_in_tokens is the impact-adjusted size; price_impact is the capped impact", where=f.where())


def _source(ctx, prog):
    f = ctx.fn(INC)
    if f is not None:
        cs = [c for c in f.calls if re.search(r"price_impact$", c.short) and re.search(r"^Position", c.short)]
        rows = [(c.short, [_s(c, i) for i in (1, 2, 3)]) for c in cs]
        ctx.ob("impact-source:increase", rows == [("PositionExt::capped_positive_position_price_impact", [IDX, "Unsigned::to_signed(self.params.size_delta_usd)?", "true"])],
               "increase obtains its impact from %s" % rows, where=f.where())
    g = ctx.fn(r"gmsol_model::action::decrease_position::DecreasePosition::<P, DECIMALS>::get_execution_params")
    if g is not None:
        cs = [c for c in g.calls if re.search(r"price_impact$", c.short) and re.search(r"^Position", c.short)]
        rows = [(c.short, [_s(c, i) for i in (1, 2, 3)]) for c in cs]
        ctx.ob("impact-source:decrease", rows == [("PositionExt::capped_position_price_impact", [IDX, "Unsigned::to_opposite_signed(self.size_delta_usd)?", "true"])],
               "decrease obtains its impact from %s" % rows, where=g.where())
    raw = ctx.fn(r"gmsol_model::position::PositionExt::position_price_impact")
    cpos = ctx.fn(r"gmsol_model::position::PositionExt::capped_positive_position_price_impact")
    cboth = ctx.fn(r"gmsol_model::position::PositionExt::capped_position_price_impact")
    if raw is not None:
        callers = sorted(set(c.fn.id for c in prog.callers_of(raw.id)))
        want = sorted(["gmsol_model::position::PositionExt::capped_positive_position_price_impact", "gmsol_model::position::PositionExt::check_liquidatable"])
        ctx.ob("impact-source:uncapped-callers", callers == want,
               "position_price_impact (uncapped) is called only by the capping wrapper and check_liquidatable (tabled: it zeroes a positive impact): %s" % [c.split("::")[-1] for c in callers],
               where=raw.where())
        liq = ctx.fn(r"gmsol_model::position::PositionExt::check_liquidatable")
        if liq is not None:
            # witness for the tabled exception: the impact that flows on is zero unless negative
            uses = [c for c in liq.calls if c.short == "PerpMarketExt::cap_negative_position_price_impact"]
            okw = bool(uses) and all(_guard(liq, c.bb, r"^Signed::is_negative\(") is True for c in uses)
            ctx.ob("impact-source:check_liquidatable-witness", okw, "check_liquidatable caps the negative impact (for_liquidations=%s) under is_negative" % [_s(c, 2) for c in uses], where=liq.where())
    if cpos is not None:
        inner = [c for c in cpos.calls if c.short == "PositionExt::position_price_impact"]
        cap = [c for c in cpos.calls if c.short == "PerpMarketExt::cap_positive_position_price_impact"]
        ok = len(inner) == 1 and len(cap) == 1 and [_s(inner[0], i) for i in (1, 2)] == ["size_delta_usd", "include_virtual_inventory_impact"] and \
            [_s(cap[0], i) for i in (1, 2, 3)] == ["index_token_price", "size_delta_usd", "PositionExt::position_price_impact(self, size_delta_usd, include_virtual_inventory_impact)?.value"]
        # the cap call is on every path to Ok and is propagated with `?`
        oks = [bb for bb, k, e in cpos.exits() if k == "ok"]
        must = bool(cap) and all(bb not in cpos.reachable_from(0, avoid_blocks=(cap[0].bb,)) for bb in oks) and bool(oks)
        tried = bool(cap) and cpos.call_in_block(cap[0].target) is not None and cpos.call_in_block(cap[0].target).short == "Try::branch"
        ctx.ob("impact-source:capped_positive-wrapper", ok and must and tried,
               "capped_positive_position_price_impact = position_price_impact(..)? then cap_positive_position_price_impact(index, size, &mut impact.value)? on every Ok path (must-pass=%s, `?`=%s)" % (must, tried),
               where=cpos.where())
        callers = sorted(set(c.fn.id for c in prog.callers_of(cpos.id)))
        want = sorted(["gmsol_model::action::increase_position::IncreasePosition::<P, DECIMALS>::get_execution_params",
                       "gmsol_model::position::PositionExt::capped_position_price_impact"])
        ctx.ob("impact-source:capped_positive-callers", callers == want,
               "capped_positive_position_price_impact callers: %s" % [c.split("::")[-1] for c in callers], where=cpos.where())
    if cboth is not None:
        inner = [c for c in cboth.calls if c.short == "PositionExt::capped_positive_position_price_impact"]
        capn = [c for c in cboth.calls if c.short == "PerpMarketExt::cap_negative_position_price_impact"]
        ok = len(inner) == 1 and len(capn) == 1 and [_s(inner[0], i) for i in (1, 2, 3)] == ["index_token_price", "size_delta_usd", "include_virtual_inventory_impact"] \
            and [_s(capn[0], i) for i in (1, 2)] == ["size_delta_usd", "false"]
        ctx.ob("impact-source:capped-wrapper", ok, "capped_position_price_impact = capped_positive(..)? then cap_negative(size, for_liquidations=false, ..)", where=cboth.where())


def _cap(ctx):
    f = ctx.fn(r"gmsol_model::market::perp::PerpMarketExt::cap_positive_position_price_impact")
    if f is None:
        return
    live = lambda w: not f.blocks[w["bb"]].get("cleanup")
    stores = [w for w in A.field_writes(f, r"^impact$") if w["kind"] == "assign" and live(w)]
    borrows = [w for w in A.field_writes(f, r"^impact$") if w["kind"] == "mutborrow" and live(w)]
    M1 = r"^Unsigned::to_signed\(Option::ok_or\(CheckedMul::checked_mul\(PositionImpactMarketExt::position_impact_pool_amount\(self\)\?, Price::pick_price\(index_token_price, false\)\), .*\)\?\)\?$"
    M2 = r"^Unsigned::to_signed\(Option::ok_or\(utils::apply_factor\(UnsignedAbs::unsigned_abs\(size_delta_usd\), PositionParams::max_positive_position_impact_factor\(PerpMarket::position_params\(self\)\?\)\), .*\)\?\)\?$"
    found = {}
    bad = []
    switches = []
    for w in stores:
        rv = str(w["rv"])
        facts = A.cmp_facts(f, w["bb"])
        bound_ok = any(op in (">",) and str(a) == "impact" and str(b) == rv for op, a, b in facts if b is not None) or \
            any(op in ("<",) and str(b) == "impact" and str(a) == rv for op, a, b in facts if b is not None)
        nonneg = A.has_bool_fact(facts, False, r"^Signed::is_negative\(impact\)$")
        which = "pool" if re.search(M1, rv) else ("factor" if re.search(M2, rv) else None)
        if which is None or not bound_ok or not nonneg:
            bad.append("store impact = %s (compared-bound=%s, under !is_negative=%s)" % (rv[:100], bound_ok, nonneg))
        else:
            found[which] = w
            for s, cond, allowed, labels in f.guards(w["bb"]):
                c = A.as_cmp(cond)
                if c and str(c[2]) == rv:
                    switches.append(s)
    ctx.ob("cap-positive:stores", not bad and set(found) == {"pool", "factor"} and not borrows,
           "cap_positive_position_price_impact stores to *impact only `impact = M` under `impact > M`, !is_negative(impact): bounds found %s%s" % (
               sorted(found), "; OFFENDING: %s" % bad if bad else ""), where=f.where())
    # both clamps on every path from the non-negative edge to Ok
    oks = [bb for bb, k, e in f.exits() if k == "ok"]
    entry = None
    for bb in range(len(f.blocks)):
        t = f.blocks[bb]["t"]
        if t[0] == "switch" and str(f.expr(t[1])) == "Signed::is_negative(impact)":
            entry = [tgt for tgt, lab in f.succ(bb) if lab == ("val", 0)]
    must = bool(entry) and len(switches) == 2 and bool(oks) and all(
        all(ok_bb not in f.reachable_from(entry[0], avoid_blocks=(s,)) for ok_bb in oks) for s in switches)
    ctx.ob("cap-positive:both-on-every-path", must,
           "from the !is_negative(impact) edge every path to Ok passes both comparisons (pool bound and max-factor bound): %d comparison blocks" % len(switches), where=f.where())
    ctx.floor("cap-positive", len(stores), 2)


def _close_size(ctx):
    f = ctx.fn(r"gmsol_model::position::PositionExt::size_delta_in_tokens")
    if f is None:
        return

    def atomize(x):
        s = str(x)
        if s in ("PartialEq::eq(PositionState::size_in_usd(self), size_delta_usd)", "PartialEq::eq(size_delta_usd, PositionState::size_in_usd(self))",
                 "(PositionState::size_in_usd(self) Eq size_delta_usd)"):
            return "full"
        return {"Position::is_long(self)": "is_long"}.get(s)
    cases, bad = 0, []
    try:
        for _r, b, sel in H.finite_eval(f, atomize, [], ["full", "is_long"], ignore=r"trybranch"):
            cases += 1
            vals = [p for p in sel if H.retkind(p.ret) == "value"]
            if not vals:
                bad.append("%s: no value path" % b)
            for p in vals:
                e = H.peel(p.ret, calls=("Option::ok_or",))
                if b["full"]:
                    ok = str(e) == "PositionState::size_in_tokens(self)"
                else:
                    callee = "MulDiv::checked_mul_div_ceil" if b["is_long"] else "MulDiv::checked_mul_div"
                    ok = H.is_call(e, "^%s$" % callee) and sorted(str(a) for a in H.call_args(e)[:2]) == ["PositionState::size_in_tokens(self)", "size_delta_usd"] \
                        and str(H.call_args(e)[2]) == "PositionState::size_in_usd(self)"
                if not ok:
                    bad.append("%s: %s" % (b, str(e)[:140]))
    except H.OutOfFragment as ex:
        bad.append("no longer finitely evaluable: %s" % ex)
    ctx.ob("close-size:table", not bad,
           "size_delta_in_tokens over %d cases: full close -> size_in_tokens; long -> ceil(tokens*delta/size_usd); short -> floor%s" % (cases, "; VIOLATED: %s" % bad if bad else ""),
           where=f.where(), detail={"exhaustive": True, "cases": cases})
    ctx.floor("close-size", cases, 4)


def _close_pay(ctx, prog):
    f = ctx.fn(r"gmsol_model::action::decrease_position::collateral_processor::Context::<'_, '_, M, DECIMALS>::add_price_impact_if_positive")
    if f is None:
        return
    POS = r"^Signed::is_positive\(price_impact\)$"
    # effects of the function and of the private helpers it enters (arguments / guards translated back to this function)
    eff = [v for v in H.vcalls(prog, f) if re.search(r"(apply_delta_to_position_impact_pool|BaseMarketMutExt::apply_delta|add_pnl_token_amount)$", v.short)]
    ctx.ob("close-impact-pay:guard", len(eff) == 3 and all(v.guard(POS) is True for v in eff),
           "all three effects of add_price_impact_if_positive happen only under is_positive(price_impact): %s" % [v.short for v in eff], where=f.where())
    DEBIT = "Unsigned::checked_round_up_div(UnsignedAbs::unsigned_abs(price_impact), Price::pick_price(self.state.prices.index_token_price, false))"
    PAY = "CheckedDiv::checked_div(UnsignedAbs::unsigned_abs(price_impact), Price::pick_price(State::pnl_token_price(self.state), true))"
    rows = {}
    for v in eff:
        a = v.args[-1]
        sign = 1
        x = H.peel(a, calls=("Option::ok_or",))
        if H.is_call(x, r"^Unsigned::to_opposite_signed$"):
            sign = -1
            x = H.peel(H.call_args(x)[0], calls=("Option::ok_or",))
        rows[v.short.split("::")[-1]] = (sign, str(x))
    want = {"apply_delta_to_position_impact_pool": (-1, DEBIT), "apply_delta": (-1, PAY), "add_pnl_token_amount": (1, PAY)}
    ctx.ob("close-impact-pay:amounts", rows == want,
           "impact pool -= ceil(|impact|/index.min); liquidity pool -= floor(|impact|/pnl_token.max); trader += the same floor amount: %s" % rows, where=f.where())
    side = [str(v.arg(1)) for v in eff if v.short == "BaseMarketMutExt::apply_delta"]
    ctx.ob("close-impact-pay:pool-side", side == ["self.state.is_pnl_token_long"], "the paying liquidity side is the pnl token side: %s" % side, where=f.where())
