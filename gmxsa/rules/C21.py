"""C21 Uncommitted market operations never leak into stored state.

The revertible buffer is a copy-on-write cache keyed by a revision stored in the account. Decided on MIR:

 * buffer-sig      every RevertibleBuffer / RevertiblePoolBuffer method except commit_to_storage receives the storage by
                   SHARED reference (so it cannot write it);
 * buffer-pairing  each accessor caches component X of the buffer against component X of the storage (pools[kind] / clocks /
                   other) with the buffer's own `self.rev`; `_mut` accessors use cache_get_mut_with, readers cache_get_with;
 * cache           Cache::cache_get_mut_with copies in (`*self = f()`) and stamps (`set_rev(rev)`) only on the !is_dirty(rev)
                   edge and returns self; cache_get_with returns self only on the dirty edge, else f(); for Clocks, PoolStorage,
                   OtherState: is_dirty(rev) is `self.rev() == rev`, rev() reads self.rev, set_rev stores the given rev;
 * commit-guarded  commit_to_storage: every store into the storage lies on the TRUE edge of is_dirty(<same component of the
                   buffer>, self.rev) and copies that same component (pool kind by pool kind over PoolKind::iter());
 * fresh-rev       start_revertible_operation is `rev = rev.checked_add(1).expect(..)`; it is called only by
                   RevertibleMarket::new / RevertibleVirtualInventory::new, on every Ok path, before the value is built and
                   before any buffer accessor; the structs are built nowhere else;
 * state-writers   Market.state.{pools,clocks,other} is written / mutably borrowed only by commit_to_storage (via
                   RevertibleMarket::commit), Market::init and the tabled ADL clock update; accessors that destructure
                   `&mut Market` hand `state` only to shared-reference parameters;
 * no-direct-state inside states/market/revertible/ nothing projects into Market.state.{pools,clocks,other} directly (tabled:
                   the idempotent next_trade_id read);
 * deferred-cpi    RevertibleLiquidityMarket::{mint,burn} reach no token CPI; mint_to/burn_from are reached only from its commit;
 * commit-last     in every soft-failable perform_* operation no fallible exit is reachable after a Revertible::commit call.
"""
import json
import os
import re

from .. import analyses as A
from .. import h_C as H
from ..model import classify_result, short_path

TABLE = os.path.join(os.path.dirname(os.path.dirname(os.path.dirname(os.path.abspath(__file__)))), "tables", "C21.json")
BUF = "gmsol_store::states::market::revertible::buffer::"
MARKET = "gmsol_store::states::market::Market"
STATE = "gmsol_store::states::market::State"
COMPONENTS = ("pools", "clocks", "other")


def run(ctx):
    prog = ctx.prog(["gmsol_store", "gmsol_model", "gmsol_utils"])
    table = json.load(open(TABLE))
    ctx.explanation = (
        "The copy-on-write protocol is checked piece by piece on the MIR: who can write the stored state (types and stores), "
        "that reads/writes of the buffer pair each component with the same component of the storage and use the buffer's "
        "revision, that copy-in and stamping happen exactly on the not-dirty edge, that commit copies exactly the dirty "
        "components, that every revertible value bumps the revision (fresh, never reused) before anything else, and that "
        "commits come last in soft-failable operations.")
    ctx.not_decided = (
        "Nothing about schedules: Solana executes instructions serially and a failed transaction is rolled back (trusted). "
        "u64 revision overflow is a panic (checked_add + expect), i.e. an aborted transaction.")
    ctx.rule("buffer-sig", "buffer methods other than commit_to_storage take the storage by shared reference")
    ctx.rule("buffer-pairing", "accessor caches component X against storage component X with self.rev; _mut <-> cache_get_mut_with")
    ctx.rule("cache", "copy-in + set_rev only on the !is_dirty edge; readers return self only when dirty; is_dirty == (rev()==rev)")
    ctx.rule("commit-guarded", "stores into storage only under is_dirty(<same component>, self.rev) and from that component")
    ctx.rule("fresh-rev", "rev := checked_add(rev,1); bumped by the two constructors before anything else; built nowhere else")
    ctx.rule("state-writers", "Market.state components are written only by commit_to_storage, Market::init, tabled admin paths")
    ctx.rule("no-direct-state", "no direct projection into Market.state.{pools,clocks,other} inside revertible/ (tabled exceptions)")
    ctx.rule("deferred-cpi", "RevertibleLiquidityMarket mint/burn are deferred: token CPIs only from its commit")
    ctx.rule("commit-last", "perform_*: no fallible exit reachable after a Revertible::commit call")

    _sigs(ctx, prog)
    _pairing(ctx, prog)
    _cache(ctx, prog)
    _commit(ctx, prog)
    _fresh(ctx, prog)
    _writers(ctx, prog, table)
    _deferred(ctx, prog)
    _commit_last(ctx, prog)


# ----------------------------------------------------------------------------- signatures


def _buffer_fns(prog):
    out = []
    for f in prog.fns.values():
        if f.id.startswith((BUF + "RevertibleBuffer::", BUF + "RevertiblePoolBuffer::")) and "{closure" not in f.id:
            out.append(f)
    return sorted(out, key=lambda f: f.id)


def _sigs(ctx, prog):
    n = 0
    for f in _buffer_fns(prog):
        store_params = [(i, t) for i, t in enumerate(f.inputs[1:], 1)
                        if re.search(r"(market::State|pool::PoolStorage)\b", t)]
        if not store_params:
            continue
        n += 1
        ctx.analysed_fns.add(f.id)
        is_commit = f.name == "commit_to_storage"
        mut = [t for _, t in store_params if re.match(r"^&(?:'[a-z_]+ )?mut ", t)]
        if is_commit:
            ctx.ob("buffer-sig:" + f.short, len(mut) == 1, "%s is the one method that takes the storage mutably: %s" % (f.short, [t for _, t in store_params]), where=f.where())
        else:
            ctx.ob("buffer-sig:" + f.short, not mut and all(t.startswith("&") for _, t in store_params),
                   "%s takes the storage by shared reference: %s" % (f.short, [t for _, t in store_params]), where=f.where())
    ctx.floor("buffer-sig", n, 10)


# ----------------------------------------------------------------------------- accessor pairing


def _pairing(ctx, prog):
    n = 0
    for f in _buffer_fns(prog):
        cs = [c for c in f.calls if c.short in ("Cache::cache_get_with", "Cache::cache_get_mut_with")]
        if not cs:
            continue
        n += 1
        ctx.analysed_fns.add(f.id)
        bad = []
        if len(cs) != 1:
            bad.append("%d cache calls" % len(cs))
        c = cs[0]
        want_mut = f.name.endswith("_mut")
        if (c.short == "Cache::cache_get_mut_with") != want_mut:
            bad.append("%s uses %s" % (f.name, c.short))
        a0, a1 = str(c.arg_expr(0)), str(c.arg_expr(1))
        if a1 != "self.rev":
            bad.append("revision argument is %s, not self.rev" % a1)
        cl = prog.closures_of(f)
        src = [str(e) for g in cl for _, _, e in g.exits()]
        storage = f.param_name(f.arg_count - 1)
        if f.id.startswith(BUF + "RevertibleBuffer::"):
            m = re.match(r"^(?:Pools::get(?:_mut)?\(self\.state\.(pools), ([a-z_]+)\)\?|self\.state\.(clocks|other))$", a0)
            if not m:
                bad.append("cached place %s is not a component of self.state" % a0)
            else:
                comp = m.group(1) or m.group(3)
                if comp == "pools":
                    want = r"^Option::expect\(Pools::get\(\^%s\.pools, \^%s\), .*\)$" % (re.escape(storage), re.escape(m.group(2)))
                else:
                    want = r"^\^%s\.%s$" % (re.escape(storage), comp)
                if len(src) != 1 or not re.search(want, src[0]):
                    bad.append("loader closure yields %s, expected the `%s` component of `%s`%s" % (src, comp, storage, " for the same kind" if comp == "pools" else ""))
        else:
            if a0 != "self.pool" or src != ["^" + storage]:
                bad.append("caches %s against %s" % (a0, src))
        ctx.ob("buffer-pairing:" + f.short, not bad, "%s: %s(%s, %s, || %s)%s" % (f.short, c.short, a0, a1, src, "; BAD: " + "; ".join(bad) if bad else ""), where=f.where())
    ctx.floor("buffer-pairing", n, 8)


# ----------------------------------------------------------------------------- cache protocol

DIRTY = r"^Cache::is_dirty\(self, %s\)$"


def _cache(ctx, prog):
    f = ctx.fn("^" + BUF + "Cache::cache_get_mut_with")
    if f is not None:
        rev = f.param_name(1)
        dirty = DIRTY % re.escape(rev)
        bad = []
        writes = _dedupe([w for w in A.field_writes(f, r"^self\b") if w["kind"] == "assign" and not f.blocks[w["bb"]].get("cleanup")]
                         + _deref_stores(f, "self"))
        if not writes:
            bad.append("no copy-in store `*self = f()`")
        for w in writes:
            if not H.guarded_by(f, w["bb"], dirty, False):
                bad.append("store to self in bb%d is not on the !is_dirty edge" % w["bb"])
            if "FnOnce::call_once(%s" % f.param_name(2) not in str(w["rv"]):
                bad.append("copy-in value is %s, not f()" % w["rv"])
        sr = [c for c in f.calls if c.short == "Cache::set_rev"]
        if len(sr) != 1:
            bad.append("%d set_rev calls" % len(sr))
        else:
            if not H.guarded_by(f, sr[0].bb, dirty, False):
                bad.append("set_rev is not on the !is_dirty edge")
            if [str(sr[0].arg_expr(0)), str(sr[0].arg_expr(1))] != ["self", rev]:
                bad.append("set_rev(%s, %s)" % (sr[0].arg_expr(0), sr[0].arg_expr(1)))
            if writes and not all(f.can_reach(w["bb"], sr[0].bb) for w in writes):
                bad.append("set_rev does not follow the copy-in")
        # every non-dirty path passes through both; result is self
        for p in H.paths(f):
            t = H.truth_on_path(p, dirty)
            names = [c.short for c in p["calls"]]
            if t is False and not ("FnOnce::call_once" in names and "Cache::set_rev" in names):
                bad.append("a not-dirty path skips the copy-in or the stamp")
            # the copy-in STORE itself (not only the call of f) lies on every not-dirty path: a stale entry left by an
            # abandoned operation is always overwritten by the storage (added after the independent seed C21-2)
            if t is False and not any(w["bb"] in p.get("blocks", []) for w in writes):
                bad.append("a not-dirty path reaches the return without the copy-in store `*self = f()`")
            if t is True and ("FnOnce::call_once" in names or "Cache::set_rev" in names):
                bad.append("a dirty path reloads from storage (would drop writes)")
            if t is None:
                bad.append("path without is_dirty decision")
            if str(p["ret"]) != "self":
                bad.append("returns %s" % p["ret"])
        ctx.ob("cache:cache_get_mut_with", not bad, "cache_get_mut_with: copy-in `*self = f()` and set_rev(%s) exactly on the !is_dirty(%s) edge, returns self%s" % (
            rev, rev, "; BAD: " + "; ".join(sorted(set(bad))) if bad else ""), where=f.where())
    f = ctx.fn("^" + BUF + "Cache::cache_get_with")
    if f is not None:
        rev = f.param_name(1)
        dirty = DIRTY % re.escape(rev)
        tab = {}
        for p in H.paths(f):
            tab.setdefault(H.truth_on_path(p, dirty), set()).add(str(p["ret"]))
        ok = tab == {True: {"self"}, False: {"FnOnce::call_once(%s, tuple{})" % f.param_name(2)}}
        ctx.ob("cache:cache_get_with", ok, "cache_get_with: dirty -> %s, not dirty -> %s" % (sorted(tab.get(True, [])), sorted(tab.get(False, []))), where=f.where())
    n = 0
    for ty in ("gmsol_store::states::market::Clocks", "gmsol_store::states::market::pool::PoolStorage", "gmsol_store::states::market::OtherState"):
        fns = {g.name: g for g in H.impl_fns(prog, ty) if (g.impl.get("trait") or "").endswith(("::Cache", "::Revision"))}
        sh = ty.rsplit("::", 1)[1]
        if set(fns) != {"is_dirty", "set_rev", "rev"}:
            ctx.ob("anchor-missing:impl:Cache for " + sh, False, "Cache/Revision impl methods found: %s" % sorted(fns), where="(anchor)")
            continue
        n += 1
        for g in fns.values():
            ctx.analysed_fns.add(g.id)
        g = fns["rev"]
        e_rev = [str(e) for _, _, e in g.exits()]
        g = fns["is_dirty"]
        e_dirty = [str(e) for _, _, e in g.exits()]
        c = A.as_cmp(g.exits()[0][2]) if len(g.exits()) == 1 else None
        dirty_ok = bool(c and c[0] == "==" and sorted([str(c[1]), str(c[2])]) == sorted(["Revision::rev(self)", g.param_name(1)]))
        g = fns["set_rev"]
        swaps = [cs for cs in g.calls if cs.short == "mem::swap"]
        direct = [w for w in A.field_writes(g, r"^self\.rev$") if w["kind"] == "assign"]
        set_ok = (len(swaps) == 1 and sorted([str(swaps[0].arg_expr(0)), str(swaps[0].arg_expr(1))]) == sorted([g.param_name(1), "self.rev"]) and not direct) \
            or (len(direct) == 1 and str(direct[0]["rv"]) == g.param_name(1) and not swaps)
        ctx.ob("cache:impl:" + sh, e_rev == ["self.rev"] and dirty_ok and set_ok,
               "%s: rev() -> %s; is_dirty -> %s; set_rev stores the given revision into self.rev: %s" % (sh, e_rev, e_dirty, set_ok), where=g.where())
    ctx.floor("cache-impls", n, 3)


def _dedupe(ws):
    seen = set()
    out = []
    for w in ws:
        k = (w["bb"], w["path"], str(w["rv"]))
        if k not in seen:
            seen.add(k)
            out.append(w)
    return out


def nice(f):
    """`Type::method` for methods (also of trait impls), else the short path."""
    if f.impl and f.impl.get("self"):
        from ..model import strip_generics
        ty = strip_generics(f.impl["self"]).split("::")[-1].strip()
        return "%s::%s" % (ty, f.id.split("::{closure")[0].rsplit("::", 1)[-1]) + ("::{closure}" if "{closure" in f.id else "")
    return f.short


def _deref_stores(f, root):
    """`*p = v` where p resolves to `root` itself (whole-value store through the reference parameter)."""
    out = []
    for bb, si, s in f.statements():
        if f.blocks[bb].get("cleanup"):
            continue
        if s[0] == "=" and len(s[1]) == 2 and s[1][1] == "*" and str(f.local_expr(s[1][0])) == root:
            out.append({"bb": bb, "kind": "assign", "path": root, "rv": f.expr(s[2][1]) if s[2][0] == "use" else f._rvalue_expr(s[2], 0, ())})
    return out


# ----------------------------------------------------------------------------- commit


def _commit(ctx, prog):
    f = ctx.fn("^" + BUF + "RevertibleBuffer::commit_to_storage")
    if f is not None:
        storage = f.param_name(1)
        seen = {}
        bad = []
        for w in A.field_writes(f, r"\b%s\b" % re.escape(storage)):
            m = re.search(r"\b%s\.(pools|clocks|other)\b" % re.escape(storage), w["path"])
            if not m:
                bad.append("store to %s outside the three components" % w["path"])
                continue
            comp = m.group(1)
            cond = r"^Cache::is_dirty\(%s, self\.rev\)$" % (r"Pools::get\(self\.state\.pools, (.*)\)@Some\.0" if comp == "pools" else r"self\.state\.%s" % comp)
            gs = [(str(c), t) for c, t in f.bool_guards(w["bb"])]
            hit = [c for c, t in gs if t and re.search(cond, c)]
            if not hit:
                bad.append("%s of %s in bb%d is not under the dirty edge of the buffer's `%s`" % (w["kind"], w["path"], w["bb"], comp))
                continue
            if w["kind"] == "assign":
                rv = str(w["rv"])
                if comp == "pools":
                    k1 = re.search(cond, hit[0]).group(1)
                    k2 = re.search(r"Pools::get_mut\(%s\.pools, (.*?)\), " % re.escape(storage), w["path"])
                    if not (k2 and k2.group(1) == k1 and rv == "Pools::get(self.state.pools, %s)@Some.0" % k1):
                        bad.append("pool store copies %s into %s under guard on kind %s" % (rv, w["path"], k1))
                        continue
                    it = [c for c in f.calls if c.short == "IntoEnumIterator::iter"]
                    if not (it and re.search(r"PoolKind", (it[0].self_ty or "") + (it[0].resolved or "") + (it[0].gargs or "")) and "IntoEnumIterator::iter()" in k1):
                        bad.append("pool kinds are not enumerated with PoolKind::iter() (%s)" % k1)
                        continue
                elif rv != "self.state.%s" % comp:
                    bad.append("%s receives %s" % (w["path"], rv))
                    continue
                seen[comp] = seen.get(comp, 0) + 1
        ctx.ob("commit-guarded:RevertibleBuffer", not bad and set(seen) == set(COMPONENTS),
               "commit_to_storage: guarded copies of %s%s" % (seen, "; BAD: " + "; ".join(bad) if bad else ""), where=f.where())
    f = ctx.fn("^" + BUF + "RevertiblePoolBuffer::commit_to_storage")
    if f is not None:
        storage = f.param_name(1)
        ws = _dedupe(_deref_stores(f, storage) + [w for w in A.field_writes(f, r"^%s\b" % re.escape(storage))
                                                   if w["kind"] == "assign" and not f.blocks[w["bb"]].get("cleanup")])
        bad = []
        for w in ws:
            if not H.guarded_by(f, w["bb"], r"^Cache::is_dirty\(self\.pool, self\.rev\)$", True):
                bad.append("store in bb%d not under is_dirty(self.pool, self.rev)" % w["bb"])
            if str(w["rv"]) != "self.pool":
                bad.append("copies %s" % w["rv"])
        ctx.ob("commit-guarded:RevertiblePoolBuffer", not bad and len(ws) == 1, "pool commit: `*storage = self.pool` only when dirty%s" % (
            "; BAD: " + "; ".join(bad) if bad else ""), where=f.where())


# ----------------------------------------------------------------------------- fresh revision

ACCESSORS = re.compile(r"^(RevertibleBuffer|RevertiblePoolBuffer)::(pool|pool_mut|clocks|clocks_mut|other|other_mut|commit_to_storage)$")


def _fresh(ctx, prog):
    starts = {}
    for ty in ("RevertibleBuffer", "RevertiblePoolBuffer"):
        f = ctx.fn("^" + BUF + ty + "::start_revertible_operation")
        if f is None:
            continue
        starts[ty] = f
        ws = [w for w in A.field_writes(f, r"^self\.rev$") if w["kind"] == "assign"]
        ok = len(ws) == 1 and re.match(r"^Option::expect\(u64::checked_add\(self\.rev, 1\), .*\)$", str(ws[0]["rv"])) is not None
        others = [w for w in A.field_writes(f, r"^self\b") if w["path"] != "self.rev"]
        ctx.ob("fresh-rev:%s::start" % ty, ok and not others, "%s::start_revertible_operation: self.rev = %s" % (ty, [str(w["rv"]) for w in ws]), where=f.where())
        # nobody else writes the buffer's rev (besides init)
        writers = set()
        for g in prog.fns.values():
            if g.crate != "gmsol_store":
                continue
            for bb, pl, role, mac in H.place_uses(g):
                if role in ("def", "mutref", "calldest") and len(pl) >= 2 and pl[-1] == ".rev":
                    ch = H.place_owner_types(prog, g, pl)
                    if ch and ch[-1][0] == BUF + ty:
                        writers.add(g.short)
        allowed = {"%s::start_revertible_operation" % ty, "%s::init" % ty}
        ctx.ob("fresh-rev:%s::rev-writers" % ty, writers <= allowed and "%s::start_revertible_operation" % ty in writers,
               "the revision of %s is written only by %s" % (ty, sorted(writers)), where=f.where())
    ctors = [("RevertibleBuffer", r"^gmsol_store::states::market::revertible::market::RevertibleMarket::<'a, 'info>::new",
              "gmsol_store::states::market::revertible::market::RevertibleMarket"),
             ("RevertiblePoolBuffer", r"^gmsol_store::states::market::revertible::revertible_virtual_inventory::RevertibleVirtualInventory::<'info>::new",
              "gmsol_store::states::market::revertible::revertible_virtual_inventory::RevertibleVirtualInventory")]
    for ty, cre, adt_id in ctors:
        sf = starts.get(ty)
        c = ctx.fn(cre)
        if sf is None or c is None:
            continue
        callers = [x for x in prog.callers_of(sf.id) if not getattr(x, "is_closure_ref", False)]
        ctx.ob("fresh-rev:%s::callers" % ty, [x.fn.id for x in callers] == [c.id],
               "%s::start_revertible_operation is called only by %s (found: %s)" % (ty, c.short, [x.fn.short for x in callers]), where=sf.where())
        bad = []
        n_ok = 0
        sc = [x for x in c.calls if x.name == sf.id or x.callee == sf.id]
        for p in H.paths(c):
            if p["ret"] is None or classify_result(p["ret"]) != "ok":
                continue
            n_ok += 1
            names = [x.name for x in p["calls"]]
            if sf.id not in names:
                bad.append("an Ok path does not call start_revertible_operation")
                continue
            idx = names.index(sf.id)
            early = [x.short for x in p["calls"][:idx] if ACCESSORS.search(x.rshort)]
            if early:
                bad.append("buffer accessor %s before the revision bump" % early)
        aggs = [(bb, s) for bb, si, s in c.statements() if s[0] == "=" and s[2][0] == "agg" and s[2][1] == "adt" and s[2][2] == adt_id]
        if not aggs:
            bad.append("constructor does not build the value")
        for bb, s in aggs:
            if not any(c.dominates(x.bb, bb) for x in sc):
                bad.append("the value is built on a path that has not bumped the revision")
        ctx.ob("fresh-rev:%s::ctor" % ty, not bad and n_ok >= 1, "%s: %d Ok path(s), each bumps the revision first; value built after the bump%s" % (
            c.short, n_ok, "; BAD: " + "; ".join(sorted(set(bad))) if bad else ""), where=c.where())
        # built nowhere else
        builders = set()
        for g in prog.fns.values():
            if g.crate != "gmsol_store":
                continue
            for bb, si, s in g.statements():
                if s[0] == "=" and s[2][0] == "agg" and s[2][1] == "adt" and s[2][2] == adt_id:
                    builders.add(g.id)
        ctx.ob("fresh-rev:%s::built-only-in-ctor" % ty, builders == {c.id}, "%s values are built only in %s (found: %s)" % (
            short_path(adt_id, 1), c.short, sorted(short_path(b) for b in builders)), where=c.where())


# ----------------------------------------------------------------------------- writers of the stored state


def _writers(ctx, prog, table):
    allowed = table["state_writers"]
    shared_pass = table["state_shared_pass"]
    direct_ok = table["direct_state_reads"]
    found = {}
    direct = {}
    for g in prog.fns.values():
        if g.crate != "gmsol_store":
            continue
        for bb, pl, role, mac in H.place_uses(g):
            if len(pl) < 2:
                continue
            ch = H.place_owner_types(prog, g, pl)
            if not ch:
                continue
            hit = None
            for i, (o, fld) in enumerate(ch):
                if o == MARKET and fld == "state":
                    hit = ("Market.state" + "".join("." + x[1] for x in ch[i + 1:i + 2]))
                    comp = ch[i + 1][1] if i + 1 < len(ch) else None
                    if comp in COMPONENTS and "::revertible::" in g.id:
                        direct.setdefault(nice(g), set()).add(".".join(x[1] for x in ch[i:]))
                    break
                if o == STATE and i == 0 and re.search(r"&(?:'[a-z_]+ )?mut .*market::State$", g.locals[pl[0]][0]) and fld in COMPONENTS:
                    hit = "(&mut State)." + fld
                    break
            if hit and role in ("def", "mutref", "calldest") and not g.blocks[bb].get("cleanup"):
                found.setdefault(nice(g), set()).add(hit)
    n = 0
    for fn_short, hits in sorted(found.items()):
        n += 1
        if fn_short in shared_pass:
            ok, why = _only_shared_pass(prog, fn_short)
            ctx.ob("state-writers:" + fn_short, ok, "%s mutably destructures the market but hands `state` only to shared-reference parameters: %s" % (fn_short, why), where=fn_short)
            continue
        ent = allowed.get(fn_short)
        if fn_short == "RevertibleMarket::commit" and ent is not None:
            ok, why = _only_shared_pass(prog, fn_short, want_mut_callee="RevertibleBuffer::commit_to_storage")
            ctx.ob("state-writers:" + fn_short, ok, "%s hands `&mut state` to commit_to_storage and to nothing else: %s" % (fn_short, why), where=fn_short)
            continue
        ctx.ob("state-writers:" + fn_short, ent is not None, "%s writes/borrows mutably %s — %s" % (
            fn_short, sorted(hits), "tabled: " + ent if ent else "NOT in the reviewed list of writers of the stored market state"), where=fn_short)
    ctx.floor("state-writers", n, 7)
    for k in allowed:
        if k not in found:
            ctx.ob("state-writers:" + k, False, "tabled writer no longer writes the state (table out of date)", where="tables/C21.json")
    bad = {k: sorted(v) for k, v in direct.items() if k not in direct_ok}
    ctx.ob("no-direct-state:revertible", not bad, "direct projections into Market.state.{pools,clocks,other} inside revertible/: %s (tabled: %s)%s" % (
        {k: sorted(v) for k, v in direct.items()}, sorted(direct_ok), "; NOT TABLED: %s" % bad if bad else ""), where="programs/store/src/states/market/revertible")
    for k, why in direct_ok.items():
        ctx.ob("no-direct-state:tabled:" + k, k in direct and bool(why), "tabled direct read %s: %s" % (k, why), where="tables/C21.json", nontrivial=False)


def _only_shared_pass(prog, fn_short, want_mut_callee=None):
    fs = [f for f in prog.fns.values() if f.crate == "gmsol_store" and "::revertible::" in f.id and nice(f) == fn_short]
    if len(fs) != 1:
        return False, "function not unique"
    f = fs[0]
    # locals that are `&mut State` derived from self.market.state
    muts = set()
    for bb, si, s in f.statements():
        if s[0] == "=" and s[2][0] == "ref" and str(s[2][1]).lower().startswith("mut") and ".state" in s[2][2][1:]:
            muts.add(s[1][0])
    if not muts:
        return False, "no mutable borrow of .state found"
    why = []
    # follow copies / reborrows
    changed = True
    while changed:
        changed = False
        for bb, si, s in f.statements():
            if s[0] == "=" and len(s[1]) == 1 and s[1][0] not in muts:
                srcs = [p[0] for p in H.iter_places(s[2])]
                if any(x in muts for x in srcs):
                    muts.add(s[1][0])
                    changed = True
    ok = True
    for bb, si, s in f.statements():
        if s[0] == "=" and len(s[1]) > 1 and s[1][0] in muts:
            ok = False
            why.append("store through the state borrow")
    for cs in f.calls:
        for i, a in enumerate(cs.args):
            if isinstance(a, list) and a[0] in muts:
                gs = prog.callees(cs)
                if len(gs) != 1 or i >= len(gs[0].inputs):
                    ok = False
                    why.append("passed to unresolved callee %s" % cs.short)
                    continue
                t = gs[0].inputs[i]
                shared = t.startswith("&") and not re.match(r"^&(?:'[a-z_]+ )?mut ", t)
                why.append("%s(arg%d: %s)" % (cs.rshort, i, "shared" if shared else "MUTABLE"))
                if want_mut_callee is not None:
                    ok = ok and (shared or cs.rshort == want_mut_callee)
                else:
                    ok = ok and shared
    return ok and bool(why), "; ".join(why)


# ----------------------------------------------------------------------------- deferred mint / burn

CPI_RE = re.compile(r"(TransferUtils::(mint_to|burn_from|to|from)|token::(mint_to|burn|transfer|transfer_checked)|invoke_signed|invoke$|token_interface::)")


def _deferred(ctx, prog):
    lm = "gmsol_store::states::market::revertible::liquidity_market::RevertibleLiquidityMarket"
    fns = {}
    for f in H.impl_fns(prog, lm):
        tr = (f.impl.get("trait") or "")
        fns[(re.sub(r"<.*$", "", tr).rsplit("::", 1)[-1], f.name)] = f
    for nm, field in (("mint", "to_mint"), ("burn", "to_burn")):
        f = fns.get(("LiquidityMarketMut", nm))
        if f is None:
            ctx.ob("anchor-missing:fn:RevertibleLiquidityMarket::" + nm, False, "missing", where="(anchor)")
            continue
        ctx.analysed_fns.add(f.id)
        names, seen = A.reaches_calls(prog, [f], follow_crates={"gmsol_store"})
        cpis = sorted(k for k in names if CPI_RE.search(k))
        ws = sorted({w["path"] for w in A.field_writes(f, r"^self\b") if w["kind"] == "assign"})
        ctx.ob("deferred-cpi:" + nm, not cpis and ws == ["self." + field],
               "RevertibleLiquidityMarket::%s only accumulates into %s (%d functions reachable, token CPIs reached: %s)" % (nm, ws, len(seen), cpis), where=f.where())
    c = fns.get(("Revertible", "commit"))
    if c is not None:
        ctx.analysed_fns.add(c.id)
        mints = [x for x in c.calls if x.short == "TransferUtils::mint_to"]
        burns = [x for x in c.calls if x.short == "TransferUtils::burn_from"]
        base = [x for x in c.calls if x.short == "Revertible::commit" and str(x.arg_expr(0)) == "self.base"]
        ok = len(mints) == 1 and len(burns) == 1 and len(base) == 1 \
            and str(mints[0].arg_expr(2)) == "self.to_mint" and str(burns[0].arg_expr(2)) == "self.to_burn" \
            and all(c.dominates(base[0].bb, rb) for rb in [b for b, blk in enumerate(c.blocks) if blk["t"][0] == "ret"])
        ctx.ob("deferred-cpi:commit", ok, "commit performs mint_to(self.to_mint) / burn_from(self.to_burn) and always commits the base market (%d/%d/%d)" % (
            len(mints), len(burns), len(base)), where=c.where())
        for nm in ("TransferUtils::mint_to", "TransferUtils::burn_from"):
            callers = set()
            for g in prog.fns.values():
                if g.crate == "gmsol_store" and "::revertible::" in g.id:
                    if any(x.short == nm for x in g.calls):
                        callers.add(g.id)
            ctx.ob("deferred-cpi:only-commit:" + nm.split("::")[1], callers == {c.id}, "inside revertible/, %s is called only by %s (found %s)" % (
                nm, c.short, sorted(short_path(x) for x in callers)), where=c.where())


# ----------------------------------------------------------------------------- commit last


def _commit_last(ctx, prog):
    n = 0
    for f in sorted(prog.fns.values(), key=lambda x: x.id):
        if f.crate != "gmsol_store" or "::ops::" not in f.id or not f.name.startswith("perform_") or "{closure" in f.id:
            continue
        cs = [c for c in f.calls if (c.callee or "").endswith("revertible::Revertible::commit")]
        if not cs:
            continue
        n += 1
        ctx.analysed_fns.add(f.id)
        bad = []
        for c in cs:
            ea = A.err_after(f, c.bb)
            if ea:
                bad.append("fallible exit(s) in blocks %s reachable after %s" % (ea[:4], c.rshort))
        ctx.ob("commit-last:" + f.short, not bad, "%s: %d commit call(s), no Err exit reachable after any of them%s" % (
            f.short, len(cs), "; BAD: " + "; ".join(bad) if bad else ""), where=f.where())
    ctx.floor("commit-last", n, 7)
