"""C37 Treasury factors stay valid and GT buyback payouts are proportional.

Decided:
 * factor-capped : Config::set_gt_factor / set_buyback_factor swap the new value into the field only under
                   MARKET_USD_UNIT >= factor; the fields have no other writer in the treasury program;
 * payout-formula: CompleteGtExchange::execute transfers, per bank token, checked_mul_div(get_balance(token), exchange.amount(),
                   remaining_confirmed_gt_amount()) (None => Err) — <u64 as MulDiv>::checked_mul_div is the u128-widened floor division;
                   the division happens under remaining >= gt_amount;
 * payout-paired : the same token / amount (same producing call site) go to record_transferred_out(gt_bank, token, amount) and every
                   path from the Ok edge of the transfer to a return passes through the Ok edge of that record; the transfer goes
                   from the bank's ATA of that token to an account whose token authority is `owner`, authorised by the bank;
 * claimed       : record_claimed(exchange.amount()) dominates every Ok exit with a non-zero amount; the amount is read before the
                   exchange is closed; close_gt_exchange(..)? (which validates confirmation in the store program) dominates every
                   transfer and record;
 * bookkeeping   : record_transferred_out / record_claimed are checked subtractions from the recorded balance / remaining GT
                   (None => Err: never more than recorded); reserve_balances stores floor(amount*num/den) under den >= num and
                   amount >= reserved; who-may-write of TokenBalance.amount and remaining_confirmed_gt_amount.
"""
import re

from .. import analyses as A
from .. import anchor
from .. import h_F as H

CFG = r"gmsol_treasury::states::config::Config::"
BANK = r"gmsol_treasury::states::gt_bank::GtBank::"
# canonical renderings (H.canon): `X!` = success payload of X however unwrapped (`?`, let-else, match)
TOKEN = r"Iterator::next\(Iterator::enumerate\(\[T\]::iter\(Iterator::collect\(GtBank::tokens\(AccountLoader::load\(self\.gt_bank\)!\)\)\)\)\)!\.1"
GT_AMOUNT = r"GtExchange::amount\(AccountLoader::load\(self\.exchange\)!\)"
REMAINING = r"GtBank::remaining_confirmed_gt_amount\(AccountLoader::load\(self\.gt_bank\)!\)"


def _origin(e):
    proj = []
    for _ in range(12):
        e = H.peel(e)
        if e.k == "field":
            proj.insert(0, e.a[1])
            e = e.a[0]
            continue
        if e.k == "cast":
            e = e.a[0]
            continue
        break
    if e.k == "call" and len(e.a) > 2:
        return (e.a[2].bb, e.a[0], tuple(proj))
    return (None, str(e), tuple(proj))


def run(ctx):
    prog = ctx.prog(["gmsol_treasury", "gmsol_store", "gmsol_utils", "gmsol_model"])
    ctx.explanation = (
        "Treasury factor setters are guarded writes (branch fact UNIT >= factor at the mem::swap) with who-may-write over the "
        "program. The exchange completion is decided by provenance and dominance on MIR: the transferred amount is the floor "
        "mul-div of the recorded balance by this claim's GT over the remaining confirmed GT, the same value is subtracted "
        "(checked) from the recorded balance on every path after a successful transfer, the claim's GT is subtracted (checked) "
        "from the remaining GT before Ok, and everything happens behind the successful close of the exchange account.")
    ctx.not_decided = (
        "'Every claimant gets at least the floor share of the ORIGINAL balances' and 'the last claim drains the bank' — arithmetic "
        "over claim orders (the per-claim formula balance*gt/remaining with remaining decreasing by gt is what makes them true, "
        "but the induction is not computed); that recorded balances equal the vaults' real token balances; Anchor/SPL CPI behaviour; "
        "the store program's own validation inside close_gt_exchange (vault confirmed).")
    ctx.rule("factor-capped", "gt_factor / buyback_factor are written only by their setters and only under MARKET_USD_UNIT >= factor")
    ctx.rule("payout-formula", "amount = floor(balance * gt_amount / remaining_confirmed_gt), None => Err, under remaining >= gt_amount")
    ctx.rule("payout-paired", "transfer(amount) is followed by record_transferred_out(token, amount); route vault(bank ATA) -> owner's account")
    ctx.rule("claimed", "close_gt_exchange first; record_claimed(gt_amount) before Ok when gt_amount != 0")
    ctx.rule("bookkeeping", "recorded balances / remaining GT only decrease by checked_sub; reserve is a guarded floor share; writers enumerated")

    # ---------------------------------------------------------------- factors
    for nm, fld in (("set_gt_factor", "gt_factor"), ("set_buyback_factor", "buyback_factor")):
        f = ctx.fn(CFG + nm)
        if not f:
            continue
        sites = [w for w in A.field_writes(f, r"^self\.%s$" % fld)]
        ok = bool(sites)
        for w in sites:
            facts = A.cmp_facts(f, w["bb"])
            ok = ok and A.has_fact(facts, ">=", r"(^|::)MARKET_USD_UNIT$", r"^factor$")
            if w["kind"] == "assign":
                ok = ok and str(w["rv"]) == "factor"
        sw = [c for c in f.calls if c.short == "mem::swap"]
        if sw:
            ok = ok and sorted(str(sw[0].arg_expr(i)) for i in range(2)) == ["factor", "self." + fld]
        ctx.ob("factor-capped:%s" % nm, ok, "%s writes self.%s (%d site(s): %s) only under MARKET_USD_UNIT >= factor, with the argument" % (
            nm, fld, len(sites), sorted(set(w["kind"] for w in sites))), where=f.where())
        ws = H.field_writers(prog, ["gmsol_treasury"], "states::config::Config", fld)
        who = sorted(set(w["fn"].short for w in ws))
        ctx.ob("factor-capped:writers:" + fld, who == ["Config::" + nm], "Config.%s is written by %s" % (fld, who), where=f.where())
        H.atomic_update(ctx, "factor-capped:atomic:" + nm, f)
    unit = ctx.const(r"^gmsol_store::constants::MARKET_USD_UNIT")
    dec = ctx.const(r"^gmsol_store::constants::MARKET_DECIMALS")
    if unit and dec:
        ctx.ob("factor-capped:unit", int(unit["int"]) == 10 ** int(dec["int"]), "MARKET_USD_UNIT = 10^MARKET_DECIMALS = 100%%", where="programs/store/src/constants/mod.rs")

    # ---------------------------------------------------------------- exchange completion
    f = ctx.fn(r"gmsol_treasury::instructions::gt_bank::CompleteGtExchange::<'info>::execute")
    if f:
        _execute(ctx, prog, f)

    # ---------------------------------------------------------------- MulDiv
    md = ctx.fn(r"<u64 as gmsol_model::num::MulDiv>::checked_mul_div")
    if md:
        vals = [(k, str(e)) for _, k, e in md.exits()]
        want = "Result::ok(TryInto::try_into((((self as u128) MulWithOverflow (numerator as u128)).0 Div (denominator as u128))))"
        ok = sorted(v for _, v in vals) == sorted(["Option::None{}", want])
        ctx.ob("payout-formula:mul-div-floor", ok, "<u64 as MulDiv>::checked_mul_div = None (den == 0) | u64::try_from((a as u128 * b as u128) / c as u128).ok(): %s" % [v[:70] for _, v in vals],
               where=md.where())

    # ---------------------------------------------------------------- bookkeeping
    g = ctx.fn(BANK + "record_transferred_out")
    if g:
        ws = [w for w in A.field_writes(g, r"\.amount$") if w["kind"] == "assign"]
        c = H.checked_op(ws[0]["rv"]) if len(ws) == 1 else None
        ok = c is not None and c[0] == "checked" and c[1] == "sub" and str(c[2]) == ws[0]["path"] and str(c[3]) == "amount" and H.unwrap_success(ws[0]["rv"]) is not None and \
            ws[0]["path"] == "GtBank::get_balance_mut(self, token)?.amount"
        ctx.ob("bookkeeping:record-out", ok, "record_transferred_out: balance(token).amount := checked_sub(balance(token).amount, amount)? (never below zero)", where=g.where())
        zero_ok = True
        for bb, k, e in g.exits():
            if k == "ok" and not any(g.can_reach(w["bb"], bb) for w in ws):
                zero_ok = zero_ok and A.has_fact(A.cmp_facts(g, bb), "==", r"^amount$", r"^0$")
        ctx.ob("bookkeeping:record-out-skip", zero_ok, "the subtraction is skipped only for amount == 0", where=g.where())
        H.atomic_update(ctx, "bookkeeping:record-out-atomic", g, accessors=[r"GtBank::get_balance_mut$"])
    g = ctx.fn(BANK + "get_balance_mut")
    if g:
        ex = [str(H.peel(e)) for _, k, e in g.exits()]
        ctx.ob("bookkeeping:balance-lookup", ex == ["TokenBalances::get_mut(self.balances, token)"], "get_balance_mut(token) = balances.get_mut(token) or Err: %s" % ex, where=g.where())
    g = ctx.fn(BANK + "get_balance")
    if g:
        ex = [str(e) for _, k, e in g.exits()]
        cl = [v for c in prog.closures_of(g) for v in H.closure_view(prog, g, c)]
        ctx.ob("bookkeeping:balance-read", len(ex) == 1 and ex[0].startswith("Option::map(TokenBalances::get(self.balances, token), closure<") and cl == ["$1.amount"],
               "get_balance(token) = balances.get(token).map(|b| b.amount): %s / %s" % ([x[:60] for x in ex], cl), where=g.where())
    g = ctx.fn(BANK + "record_claimed")
    if g:
        ws = H.writes_to(g, r"^self\.remaining_confirmed_gt_amount$")
        c = H.checked_op(ws[0][2]) if len(ws) == 1 else None
        ok = c is not None and c[0] == "checked" and c[1] == "sub" and str(c[2]) == "self.remaining_confirmed_gt_amount" and str(c[3]) == "gt_amount" and H.unwrap_success(ws[0][2]) is not None
        ctx.ob("bookkeeping:record-claimed", ok, "record_claimed: remaining := checked_sub(remaining, gt_amount)?", where=g.where())
        H.atomic_update(ctx, "bookkeeping:record-claimed-atomic", g)
    g = ctx.fn(BANK + "remaining_confirmed_gt_amount")
    if g:
        ctx.ob("bookkeeping:remaining-getter", [str(e) for _, _, e in g.exits()] == ["self.remaining_confirmed_gt_amount"], "remaining_confirmed_gt_amount() returns the field", where=g.where())
    g = ctx.fn(BANK + "reserve_balances")
    if g:
        ws = [w for w in A.field_writes(g, r"\.amount$") if w["kind"] == "assign"]
        ok = len(ws) == 1
        if ok:
            w = ws[0]
            rv = w["rv"]
            md_e = [x for x in rv.walk() if x.k == "call" and x.a[0] == "MulDiv::checked_mul_div"]
            ok = len(md_e) == 1 and [str(x) for x in md_e[0].a[1]] == [w["path"], "numerator", "denominator"] and H.unwrap_success(rv) is not None
            facts = A.cmp_facts(g, w["bb"])
            ok = ok and A.has_fact(facts, ">=", r"^denominator$", r"^numerator$")
            ok = ok and any(o in (">=",) and str(a) == w["path"] and str(b) == str(rv) for (o, a, b) in facts if b is not None)
            cl = [v for c in prog.closures_of(g) for v in H.closure_view(prog, g, c) if "try_into" in v]
            ok = ok and cl == ["Result::ok(TryInto::try_into($1))"]
        ctx.ob("bookkeeping:reserve", ok, "reserve_balances: amount := mul_div(amount, numerator, denominator)->u64 or Err, under denominator >= numerator and amount >= new amount",
               where=g.where())
    tabs = (("states::gt_bank::TokenBalance", "amount", ["GtBank::record_all_transferred_out", "GtBank::record_transferred_in", "GtBank::record_transferred_out", "GtBank::reserve_balances"]),
            ("states::gt_bank::GtBank", "remaining_confirmed_gt_amount", ["GtBank::confirm_unchecked", "GtBank::record_claimed"]))
    n = 0
    for adt, fld, allowed in tabs:
        ws = H.field_writers(prog, ["gmsol_treasury"], adt, fld)
        who = sorted(set(w["fn"].short for w in ws))
        n += len(who)
        ctx.ob("bookkeeping:writers:" + fld, bool(who) and not [x for x in who if x not in allowed], "%s.%s is written by %s" % (adt.rsplit("::", 1)[-1], fld, who),
               where="programs/treasury/src/states/gt_bank.rs")
    ctx.floor("bookkeeping-writers", n, 6)
    callers = sorted(set(c.fn.short for c in prog.callers_of("gmsol_treasury::states::gt_bank::GtBank::record_claimed")))
    ctx.ob("bookkeeping:claim-callers", callers == ["CompleteGtExchange::execute"], "record_claimed is called from %s" % callers, where="programs/treasury/src/instructions/gt_bank.rs")


def _execute(ctx, prog, f):
    tcs = [c for c in f.calls if re.search(r"::transfer_checked$|::transfer$", c.name or "") and "anchor_spl" in (c.name or "")]
    cpis = [c for c in f.calls if re.search(r"(^|::)(invoke|invoke_signed)$|anchor_spl::token.*::(transfer|transfer_checked|burn|mint_to|close_account)$", c.name or "")]
    ctx.ob("payout-formula:one-transfer", len(tcs) == 1 and len(cpis) == 1, "one token transfer site in execute (%s)" % [c.rshort for c in cpis], where=f.where())
    if len(tcs) != 1:
        return
    tc = tcs[0]
    amt = tc.arg_expr(1)
    md = H.peel(amt)
    mds = f.calls_to(r"MulDiv>::checked_mul_div$|MulDiv::checked_mul_div$")
    ok = md.k == "call" and md.a[0] == "MulDiv::checked_mul_div" and len(mds) == 1 and H.unwrap_success(amt) is not None
    ctx.ob("payout-formula:amount-source", ok and (mds[0].resolved or "").startswith("<u64 as gmsol_model::num::MulDiv>"),
           "the transferred amount is <u64 as MulDiv>::checked_mul_div(..) with None => Err (%s)" % (mds[0].resolved if mds else "?"), where=f.where(tc.line))
    if mds:
        m = mds[0]
        a0, a1, a2 = [H.canon(m.arg_expr(i)) for i in range(3)]
        ok0 = re.match(r"^Option::(expect|unwrap)\(GtBank::get_balance\(AccountLoader::load\(self\.gt_bank\)!, " + TOKEN + r"\)(, \"[^\"]*\")?\)$", a0) is not None
        ctx.ob("payout-formula:balance", ok0, "multiplicand = gt_bank.get_balance(<current bank token>): %s" % a0[:90], where=f.where(m.line))
        ctx.ob("payout-formula:numerator", re.match("^" + GT_AMOUNT + "$", a1) is not None, "numerator = exchange.amount(): %s" % a1, where=f.where(m.line))
        ctx.ob("payout-formula:denominator", re.match("^" + REMAINING + "$", a2) is not None, "denominator = gt_bank.remaining_confirmed_gt_amount(): %s" % a2, where=f.where(m.line))
        facts = H.canon_facts(f, m.bb)
        ctx.ob("payout-formula:share-at-most-one", A.has_fact(facts, ">=", "^" + REMAINING + "$", "^" + GT_AMOUNT + "$"),
               "the share is computed under remaining_confirmed_gt_amount >= gt_amount (amount <= balance)", where=f.where(m.line))
    # pairing
    ro = f.calls_to(BANK + "record_transferred_out$")
    ok = len(ro) == 1
    if ok:
        r = ro[0]
        ok = _origin(r.arg_expr(2)) == _origin(amt) and _origin(amt)[0] is not None and H.unwrap_success(r.arg_expr(2)) is not None
        ok_tok = re.match("^" + TOKEN + "$", H.canon(r.arg_expr(1))) is not None and H.canon(r.arg_expr(0)) == "AccountLoader::load_mut(self.gt_bank)!"
        ctx.ob("payout-paired:same-amount", ok, "record_transferred_out receives the very value given to transfer_checked", where=f.where(r.line))
        ctx.ob("payout-paired:same-token", ok_tok, "record_transferred_out(gt_bank.load_mut()?, <current bank token>, ..)", where=f.where(r.line))
        ts = H.success_edge(f, tc)
        tr = H.success_edge(f, r)
        ok = ts is not None and tr is not None and H.must_pass_to_ok(f, ts[1], [tr[1]]) and f.dominates(ts[1], r.bb)
        ctx.ob("payout-paired:always-recorded", ok, "from the Ok edge of transfer_checked every path to an Ok exit goes through the Ok edge of record_transferred_out(..)?", where=f.where(r.line))
    else:
        ctx.ob("payout-paired:same-amount", False, "expected one record_transferred_out call, found %d" % len(ro), where=f.where())
    # routing
    cx = H.canon(tc.arg_expr(0))
    facts = H.canon_facts(f, tc.bb)
    va = f.calls_to(r"validate_associated_token_account$")
    ok = len(va) == 1 and f.dominates(va[0].bb, tc.bb)
    if ok:
        v = va[0]
        ts = H.success_edge(f, v)
        ok = ts is not None and f.dominates(ts[1], tc.bb) and H.canon(v.arg_expr(1)) == "Key::key(self.gt_bank)" and re.match("^" + TOKEN + "$", H.canon(v.arg_expr(2))) is not None
        vault = H.canon(v.arg_expr(0))
        ok = ok and ("from: ToAccountInfo::to_account_info(%s)" % vault) in cx
    ctx.ob("payout-paired:from-bank-vault", ok, "the source is validated (?) as the associated token account of (gt_bank, token) before the transfer", where=f.where(tc.line))
    ok = any(o == "==" and re.search(r"accessor::authority\(", str(a) + str(b)) and re.search(r"Key::key\(self\.owner\)", str(a) + str(b)) for (o, a, b) in facts if b is not None)
    au = f.calls_to(r"accessor::authority$")
    tgt = H.canon(au[0].arg_expr(0)) if au else "?"
    ok = ok and ("to: ToAccountInfo::to_account_info(%s)" % tgt) in cx
    ctx.ob("payout-paired:to-owner", ok, "the destination is the account whose SPL authority was compared equal to self.owner.key()", where=f.where(tc.line))
    ctx.ob("payout-paired:authority", "authority: ToAccountInfo::to_account_info(self.gt_bank)" in cx and "GtBank::signer(AccountLoader::load(self.gt_bank)!)" in cx,
           "the transfer is authorised by the gt_bank PDA (its own signer seeds)", where=f.where(tc.line))
    ok = any(o == "==" and re.search(TOKEN, str(a) + "|" + str(b)) and re.search(r"\.key", str(a) + "|" + str(b)) for (o, a, b) in facts if b is not None)
    ctx.ob("payout-paired:mint-is-token", ok, "the mint account passed for this slot has the bank token's key", where=f.where(tc.line))
    # close first / claimed
    cl = f.calls_to(r"gmsol_store::cpi::close_gt_exchange$")
    am = f.calls_to(r"gmsol_store::states::gt::GtExchange::amount$")
    rc = f.calls_to(BANK + "record_claimed$")
    ok = len(cl) == 1 and len(am) == 1 and f.dominates(am[0].bb, cl[0].bb) and H.canon(am[0].arg_expr(0)) == "AccountLoader::load(self.exchange)!"
    ctx.ob("claimed:amount-read-before-close", ok, "exchange.amount() is read (once) before the exchange account is closed", where=f.where())
    if len(cl) == 1:
        ts = H.success_edge(f, cl[0])
        eff = [tc.bb] + [c.bb for c in ro] + [c.bb for c in rc] + [bb for bb, k, e in f.exits() if k == "ok"]
        ok = ts is not None and all(f.dominates(ts[1], b) for b in eff)
        ctx.ob("claimed:close-first", ok, "the Ok edge of close_gt_exchange(..)? dominates the transfer, both records and every Ok exit (%d sites)" % len(eff), where=f.where(cl[0].line))
        cc = f.calls_to(r"CompleteGtExchange::<'info>::close_gt_exchange_ctx$|close_gt_exchange_ctx$")
        ok = "CompleteGtExchange::close_gt_exchange_ctx(self)" in H.canon(cl[0].arg_expr(0)) and "Config::signer(AccountLoader::load(self.config)!)" in H.canon(cl[0].arg_expr(0))
        g = ctx.fn(r"gmsol_treasury::instructions::gt_bank::CompleteGtExchange::<'info>::close_gt_exchange_ctx")
        if g:
            ex = " ".join(str(e) for _, _, e in g.exits())
            ok = ok and all(s in ex for s in ("owner: ToAccountInfo::to_account_info(self.owner)", "vault: ToAccountInfo::to_account_info(self.gt_exchange_vault)",
                                              "exchange: ToAccountInfo::to_account_info(self.exchange)", "authority: ToAccountInfo::to_account_info(self.config)"))
        ctx.ob("claimed:close-accounts", ok, "the closed exchange is (self.exchange, self.gt_exchange_vault, self.owner) under the treasury config's authority", where=f.where(cl[0].line))
    ok = len(rc) == 1 and re.match("^" + GT_AMOUNT + "$", H.canon(rc[0].arg_expr(1))) is not None and H.canon(rc[0].arg_expr(0)) == "AccountLoader::load_mut(self.gt_bank)!"
    n_zero = n_full = 0
    if ok:
        tr = H.success_edge(f, rc[0])
        for bb, k, e in f.exits():
            if k != "ok":
                continue
            fs = H.canon_facts(f, bb)
            if A.has_fact(fs, "==", "^" + GT_AMOUNT + "$", r"^0$"):
                n_zero += 1
                ok = ok and not f.can_reach(tc.bb, bb)
            else:
                n_full += 1
                ok = ok and tr is not None and f.dominates(tr[1], bb)
    ctx.ob("claimed:recorded", ok and n_zero == 1 and n_full >= 1,
           "Ok exits: %d with gt_amount == 0 (no transfer), %d behind record_claimed(gt_bank.load_mut()?, exchange.amount())?" % (n_zero, n_full), where=f.where())
    # the bank used for balance, share and records is the one constrained by the accounts struct
    a = ctx.adt(r"gmsol_treasury::instructions::gt_bank::CompleteGtExchange")
    if a:
        from ..accounts import AccountsStruct
        have = set(AccountsStruct(a).facts())
        want = ["signer:owner", "has_one:gt_bank->treasury_vault_config", "has_one:gt_bank->gt_exchange_vault", "has_one:config->store", "has_one:treasury_vault_config->config"]
        missing = [w for w in want if w not in have]
        ctx.ob("claimed:accounts", not missing, "CompleteGtExchange binds gt_bank to the exchange vault / treasury vault config and owner signs%s" % ("; MISSING %s" % missing if missing else ""),
               where="%s:%d" % (a.file, a.line), detail=sorted(have))
