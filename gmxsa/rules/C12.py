"""C12 Funding rates stay within bounds and funding indices only grow.

Decided (structural, necessary):
 * next_funding_factor_per_second, adaptive mode (increase factor != 0): on every success path the result is
   (|B2|, B2 > 0, B1) with B1 = bound_magnitude(x, 0, max_factor_per_second)? and
   B2 = bound_magnitude(B1, min_factor_per_second, max_factor_per_second)?  — the magnitude handed on is the clamped one;
   the increase is added with the sign of the skew (long < short -> negative);
 * fallback mode (increase factor == 0): the factor is apply_factor(..) unless it exceeds max_factor_per_second, in
   which case it is max_factor_per_second; the payer flag is `long_open_interest > short_open_interest`; the stored
   next factor is zero;
 * bound_magnitude: result table (min>max -> Err; |v|<min -> min with v's sign; |v|>max -> max with v's sign; else v);
 * FundingFeeParams::change: evaluated on all of its paths against the specification
   (skew in the funding direction: > stable threshold -> Increase, < decrease threshold -> Decrease, else NoChange;
    otherwise Increase);
 * indices only grow: UpdateFundingState::execute applies to_signed() of the unsigned report entries (never
   to_opposite_signed) with the same (is_long, is_long_collateral) for getter and setter, over a MATRIX constant that
   lists all four flag pairs; flags_to_index is a bijection onto 0..3; the apply_* helpers select pool by is_long and
   side by is_long_collateral; report entries are unsigned (type) and written only by set_deltas from pack(..);
 * pending fee: unpack_to_funding_amount_delta starts from checked_sub(latest, position) on an unsigned type.
"""
import re

from .. import analyses as A
from .. import h_B as H
from ..model import short_path

PARAMS = r"PerpMarket::funding_fee_params\(self\.market\)\?"
MAXF = "FundingFeeParams::max_factor_per_second(PerpMarket::funding_fee_params(self.market)?)"
MINF = "FundingFeeParams::min_factor_per_second(PerpMarket::funding_fee_params(self.market)?)"
INCF = "Zero::is_zero(FundingFeeParams::increase_factor_per_second(PerpMarket::funding_fee_params(self.market)?))"


def run(ctx):
    prog = ctx.prog(["gmsol_model"])
    ctx.explanation = (
        "All 17 success paths of next_funding_factor_per_second are enumerated: adaptive paths must return the doubly "
        "clamped value (bound_magnitude with (0,max) then (min,max) of the funding params), fallback paths the capped "
        "factor with payer = long>short. bound_magnitude, FundingFeeParams::change and flags_to_index are evaluated "
        "path by path against their specification tables (finite case analysis over the comparison outcomes). The index "
        "updates are shown to add to_signed() of unsigned report entries for all four flag pairs, and the pending fee to "
        "start from a checked unsigned subtraction.")
    ctx.not_decided = (
        "In fallback (non-adaptive) mode the code, like GMX Synthetics, applies only the max bound; the minimum is not "
        "enforced there and is not demanded (the minimum clause is read as the adaptive-mode clause its mechanism anchor "
        "names). The early return (0, true, 0) for a zero skew in fallback mode is accepted likewise. Not decided: the min "
        "bound when the raw adaptive factor is exactly zero (sign of zero), boundedness of the indices, overflow.")
    for rid, txt in (
            ("adaptive-bounds", "adaptive paths return (|B2|, B2>0, B1), B1=bound(x,0,max), B2=bound(B1,min,max) with the funding params' own min/max"),
            ("adaptive-direction", "the increase carries the sign of the skew: long < short -> to_opposite_signed, else to_signed"),
            ("fallback-cap", "fallback paths return min(factor, max_factor_per_second), payer = long_oi > short_oi, next factor 0"),
            ("bound-table", "bound_magnitude result table"),
            ("change-table", "FundingFeeParams::change agrees with its specification on every path"),
            ("index-monotone", "execute adds to_signed() of unsigned report entries, same flags on getter and setter, all 4 pairs; flags_to_index bijective"),
            ("pending-nonneg", "unpack_to_funding_amount_delta: checked_sub(latest, position) on unsigned values")):
        ctx.rule(rid, txt)
    _factor(ctx, prog)
    _bound(ctx, prog)
    _change(ctx, prog)
    _indices(ctx, prog)


def _tb(lab):
    return isinstance(lab, tuple) or lab != 0


def _factor(ctx, prog):
    f = ctx.fn(r"UpdateFundingState::<M, DECIMALS>::next_funding_factor_per_second")
    if f is None:
        return
    ps = H.success_paths(f)
    ctx.floor("adaptive-bounds:paths", len(ps), 10)
    n_ad = n_fb = n_early = 0
    bad_ad, bad_fb, bad_dir = [], [], []
    for p in ps:
        inc = [_tb(l) for c, l, ty in p["conds"] if str(c) == INCF]
        try:
            t = dict(dict(p["ret"].a[1])["0"].a[1])
            r0, r1, r2 = t["0"], t["1"], t["2"]
        except Exception:
            bad_ad.append("return shape")
            continue
        if not inc:
            bad_ad.append("success path that never tests the increase factor")
            continue
        if inc[-1] is False:
            n_ad += 1
            # r0 = unsigned_abs(B2?) ; r1 = is_positive(B2?) ; r2 = B1?
            ok = r0.k == "call" and r0.a[0] == "UnsignedAbs::unsigned_abs" and r1.k == "call" and r1.a[0] == "Signed::is_positive" and \
                str(r0.a[1][0]) == str(r1.a[1][0])
            b2 = r0.a[1][0] if ok else None
            if ok:
                b2c = b2.a[0] if b2.k == "try" else None
                ok = b2c is not None and b2c.k == "call" and b2c.a[0] == "Unsigned::bound_magnitude" and \
                    str(b2c.a[1][1]) == MINF and str(b2c.a[1][2]) == MAXF and str(b2c.a[1][0]) == str(r2)
                if ok:
                    b1c = r2.a[0] if r2.k == "try" else None
                    ok = b1c is not None and b1c.k == "call" and b1c.a[0] == "Unsigned::bound_magnitude" and \
                        str(b1c.a[1][1]) == "Zero::zero()" and str(b1c.a[1][2]) == MAXF
            if not ok:
                bad_ad.append("adaptive path returns (%s, %s, %s)" % (str(r0)[:80], str(r1)[:40], str(r2)[:80]))
            # direction of the increase
            lt = [_tb(l) for c, l, ty in p["conds"] if str(c) == "PartialOrd::lt(long_open_interest, short_open_interest)"]
            adds = [x for x in r2.calls(r"^CheckedAdd::checked_add$") if str(x.a[1][0]) == "PerpMarket::funding_factor_per_second(self.market)"]
            if adds:
                inc_e = adds[0].a[1][1]
                m = inc_e.a[0] if inc_e.k == "try" else inc_e
                nm = m.a[0] if m.k == "call" else "?"
                if len(lt) != 1 or nm != ("Unsigned::to_opposite_signed" if lt[0] else "Unsigned::to_signed"):
                    bad_dir.append("long<short=%s but increase is %s" % (lt, nm))
        else:
            both_zero = [_tb(l) for c, l, ty in p["conds"] if str(c) == "Zero::is_zero(Unsigned::diff(long_open_interest, short_open_interest))"]
            if str(r0) == "Zero::zero()" and both_zero == [True] and len(inc) == 1:
                n_early += 1
                if str(r2) != "Zero::zero()":
                    bad_fb.append("early return stores %s" % r2)
                continue
            n_fb += 1
            gts = [(c, _tb(l)) for c, l, ty in p["conds"] if c.k == "call" and c.a[0] == "PartialOrd::gt" and str(c.a[1][1]) == MAXF]
            if len(gts) != 1:
                bad_fb.append("fallback path without the comparison with max_factor_per_second")
                continue
            c, t = gts[0]
            raw = str(c.a[1][0])
            want0 = MAXF if t else raw
            if str(r0) != want0 or "utils::apply_factor(" not in raw:
                bad_fb.append("factor > max is %s but returns %s" % (t, str(r0)[:80]))
            if str(r1) != "PartialOrd::gt(long_open_interest, short_open_interest)":
                bad_fb.append("payer flag = %s" % r1)
            if str(r2) != "Zero::zero()":
                bad_fb.append("next factor = %s" % r2)
    ctx.ob("adaptive-bounds:all-paths", not bad_ad and n_ad >= 6,
           "%d adaptive success paths all return (|B2|, B2>0, B1) with B1=bound_magnitude(x, 0, params.max) and B2=bound_magnitude(B1, params.min, params.max)%s" % (
               n_ad, "; VIOLATED: %s" % bad_ad[:2] if bad_ad else ""), where=f.where())
    ctx.ob("adaptive-direction:increase-sign", not bad_dir and n_ad >= 6,
           "the increase value is negated exactly when long_open_interest < short_open_interest%s" % ("; %s" % bad_dir[:2] if bad_dir else ""), where=f.where())
    ctx.ob("fallback-cap:all-paths", not bad_fb and n_fb >= 2 and n_early >= 1,
           "%d fallback paths return the factor capped at params.max_factor_per_second with payer = long_oi > short_oi and next factor 0 "
           "(+%d early return for zero skew)%s" % (n_fb, n_early, "; VIOLATED: %s" % bad_fb[:2] if bad_fb else ""), where=f.where())
    for nm in ("min_factor_per_second", "max_factor_per_second", "increase_factor_per_second"):
        g = ctx.fn(r"gmsol_model::params::fee::FundingFeeParams::<T>::%s" % nm)
        if g is not None:
            ex = [str(e) for _, _, e in g.exits()]
            ctx.ob("adaptive-bounds:getter:" + nm, ex == ["self.%s" % nm], "FundingFeeParams::%s returns %s" % (nm, ex), where=g.where())


def _bound(ctx, prog):
    g = ctx.fn(r"gmsol_model::num::Unsigned::bound_magnitude")
    if g is None:
        return
    ps = H.success_paths(g, kinds=("ok", "unknown"))
    tab = {}
    bad = []
    for p in ps:
        d = {str(c): _tb(l) for c, l, ty in p["conds"] if ty == "bool"}
        if d.get("PartialOrd::gt(min, max)") is not False:
            bad.append("a non-error path with min > max not excluded")
        lo = d.get("PartialOrd::lt(UnsignedAbs::unsigned_abs(value), min)")
        hi = d.get("PartialOrd::gt(UnsignedAbs::unsigned_abs(value), max)")
        key = "below" if lo else ("above" if hi else ("inside" if lo is False and hi is False else "?"))
        tab[key] = str(p["ret"])
    want = {"below": "Unsigned::to_signed_with_sign(min, Signed::is_negative(value))",
            "above": "Unsigned::to_signed_with_sign(max, Signed::is_negative(value))",
            "inside": "Result::Ok{0: value}"}
    ctx.ob("bound-table:bound_magnitude", tab == want and not bad, "bound_magnitude: %s%s" % (tab, "; %s" % bad[:1] if bad else ""), where=g.where())
    errs = [(str(c), t) for bb, k, e in g.exits() if k == "err" for c, t in g.bool_guards(bb)]
    ctx.ob("bound-table:min-gt-max", ("PartialOrd::gt(min, max)", True) in errs, "min > max is rejected", where=g.where())


def _change(ctx, prog):
    g = ctx.fn(r"gmsol_model::params::fee::FundingFeeParams::<T>::change")
    if g is None:
        return
    ps = H.success_paths(g)
    ctx.floor("change-table:paths", len(ps), 8)
    names = {
        "Signed::is_positive(funding_factor_per_second)": "pos",
        "Signed::is_negative(funding_factor_per_second)": "neg",
        "PartialOrd::gt(long_open_interest, short_open_interest)": "lgt",
        "PartialOrd::lt(long_open_interest, short_open_interest)": "llt",
        "PartialOrd::gt(diff_factor, self.threshold_for_stable_funding)": "gs",
        "PartialOrd::lt(diff_factor, self.threshold_for_decrease_funding)": "ld",
    }

    def and3(a, b):
        if a is False or b is False:
            return False
        if a is None or b is None:
            return None
        return True

    def or3(a, b):
        if a is True or b is True:
            return True
        if a is None or b is None:
            return None
        return False

    bad = []
    seen = set()
    for p in ps:
        v = {}
        unknown = []
        for c, l, ty in p["conds"]:
            s = str(c)
            if s in names:
                v[names[s]] = _tb(l)
            elif s not in ("true", "false"):
                unknown.append(s[:60])
        same = or3(and3(v.get("pos"), v.get("lgt")), and3(v.get("neg"), v.get("llt")))
        if same is None:
            exp = None
        elif same is False:
            exp = "Increase"
        elif v.get("gs") is True:
            exp = "Increase"
        elif v.get("gs") is False and v.get("ld") is True:
            exp = "Decrease"
        elif v.get("gs") is False and v.get("ld") is False:
            exp = "NoChange"
        else:
            exp = None
        got = str(p["ret"]).replace("FundingRateChangeType::", "").replace("{}", "")
        seen.add(got)
        if exp != got or unknown:
            bad.append("%s -> %s (spec: %s)%s" % (v, got, exp, " unknown conds %s" % unknown if unknown else ""))
    ctx.ob("change-table:spec", not bad and seen == {"Increase", "Decrease", "NoChange"},
           "FundingFeeParams::change matches the specification on all %d paths (same-direction skew: >stable -> Increase, <decrease -> Decrease, "
           "else NoChange; otherwise Increase)%s" % (len(ps), "; MISMATCH %s" % bad[:2] if bad else ""), where=g.where())


def _indices(ctx, prog):
    ex = ctx.fn(r"UpdateFundingState<M, DECIMALS> as gmsol_model::action::MarketAction>::execute")
    if ex is not None:
        pairs = (("PerpMarketMutExt::apply_delta_to_funding_amount_per_size", "UpdateFundingReport::delta_funding_amount_per_size"),
                 ("PerpMarketMutExt::apply_delta_to_claimable_funding_amount_per_size", "UpdateFundingReport::delta_claimable_funding_amount_per_size"))
        for setter, getter in pairs:
            cs = [c for c in ex.calls if c.short == setter]
            ok = len(cs) == 1
            msg = "%d call(s)" % len(cs)
            if ok:
                a = [cs[0].arg_expr(i) for i in range(4)]
                d = a[3]
                m = d.a[0] if d.k == "try" else d
                ok = m.k == "call" and m.a[0] == "Unsigned::to_signed" and m.a[1][0].k == "call" and m.a[1][0].a[0] == getter and \
                    str(m.a[1][0].a[1][1]) == str(a[1]) and str(m.a[1][0].a[1][2]) == str(a[2]) and str(a[0]) == "self.market" and \
                    re.search(r"next_funding_amount_per_size\(self, ", str(m.a[1][0].a[1][0])) is not None and \
                    re.search(r"MATRIX\)@Some\.0\.0$", str(a[1])) is not None and re.search(r"MATRIX\)@Some\.0\.1$", str(a[2])) is not None
                msg = "%s(market, i.0, i.1, %s)" % (setter.split("::")[1], str(m)[:40] + "..")
            ctx.ob("index-monotone:execute:" + setter.split("apply_delta_to_")[1], ok,
                   "delta = to_signed(report.%s(same flags)) over MATRIX: %s" % (getter.split("::")[1], msg), where=ex.where())
        neg = [c.short for c in ex.calls if re.search(r"(to_opposite_signed|checked_neg|Neg::neg)$", c.short)]
        ctx.ob("index-monotone:execute:no-negation", not neg, "execute negates nothing (%s)" % neg, where=ex.where())
        mc = ctx.const(r"UpdateFundingState<M, DECIMALS> as gmsol_model::action::MarketAction>::execute::MATRIX")
        if mc is not None:
            pairs_ = set(re.findall(r"\((true|false), (true|false)\)", mc.get("val", "")))
            ctx.ob("index-monotone:matrix", len(pairs_) == 4 and mc.get("ty") == "[(bool, bool); 4]", "MATRIX lists all four (is_long, is_long_collateral) pairs: %s" % mc.get("val"),
                   where=ex.where())
    fi = ctx.fn(r"gmsol_model::action::update_funding_state::flags_to_index")
    if fi is not None:
        ps = H.success_paths(fi, kinds=("ok", "unknown"))
        tab = {}
        for p in ps:
            d = {str(c): _tb(l) for c, l, ty in p["conds"]}
            tab[(d.get("is_long"), d.get("is_long_collateral"))] = str(p["ret"])
        ctx.ob("index-monotone:flags_to_index", len(tab) == 4 and sorted(tab.values()) == ["0", "1", "2", "3"] and None not in [x for k in tab for x in k],
               "flags_to_index is a bijection {(is_long, is_long_collateral)} -> 0..3: %s" % {("%s,%s" % k): v for k, v in sorted(tab.items())}, where=fi.where())
    for nm, idxfld in (("delta_funding_amount_per_size", "delta_funding_amount_per_size"),
                       ("delta_claimable_funding_amount_per_size", "delta_claimable_funding_amount_per_size")):
        g = ctx.fn(r"UpdateFundingReport::<T, <T as gmsol_model::num::Unsigned>::Signed>::%s" % nm)
        if g is not None:
            exs = [str(e) for _, _, e in g.exits()]
            ok = len(exs) == 1 and re.match(r"^self\.%s\[(update_funding_state::)?flags_to_index\(is_long, is_long_collateral\)\]$" % idxfld, exs[0]) is not None
            ctx.ob("index-monotone:getter:" + nm, ok, "report.%s(is_long, c) = %s" % (nm, exs), where=g.where())
    rep = ctx.adt(r"gmsol_model::action::update_funding_state::UpdateFundingReport")
    if rep is not None:
        tys = {f["name"]: f["ty"] for f in rep.fields}
        a, b = tys.get("delta_funding_amount_per_size", ""), tys.get("delta_claimable_funding_amount_per_size", "")
        sgn = tys.get("next_funding_factor_per_second", "?")
        ctx.ob("index-monotone:report-types", re.match(r"^\[\w+; 4\]$", a) is not None and a == b and a != "[%s; 4]" % sgn,
               "report deltas are arrays of the unsigned type: %s" % {k: v for k, v in tys.items() if k.startswith("delta")}, where="%s:%d" % (rep.file, rep.line))
    for nm, pool in (("apply_delta_to_funding_amount_per_size", "funding_amount_per_size_pool_mut"),
                     ("apply_delta_to_claimable_funding_amount_per_size", "claimable_funding_amount_per_size_pool_mut")):
        g = ctx.fn(r"gmsol_model::market::perp::PerpMarketMutExt::%s" % nm)
        if g is not None:
            cs = [c for c in g.calls if c.short == "PoolExt::apply_delta_amount"]
            ok = len(cs) == 1 and str(cs[0].arg_expr(0)) == "PerpMarketMut::%s(self, is_long)?" % pool and \
                str(cs[0].arg_expr(1)) == "is_long_collateral" and str(cs[0].arg_expr(2)) == "delta" and cs[0].dest[0] == 0
            ctx.ob("index-monotone:" + nm, ok, "%s = %s(is_long)?.apply_delta_amount(is_long_collateral, delta)" % (nm, pool), where=g.where())
    up = ctx.fn(r"gmsol_model::action::update_funding_state::unpack_to_funding_amount_delta")
    if up is not None:
        first = [c for c in up.calls if c.short == "CheckedSub::checked_sub"]
        ok = len(first) == 1 and [str(first[0].arg_expr(i)) for i in (0, 1)] == ["latest_funding_amount_per_size", "position_funding_amount_per_size"]
        negs = [c.short for c in up.calls if re.search(r"(to_signed|to_opposite_signed|checked_neg)$", c.short)]
        ts = anchor_try(up, first[0]) if ok else False
        ctx.ob("pending-nonneg:unpack", ok and not negs and ts and up.ret.startswith("std::option::Option<T>"),
               "unpack_to_funding_amount_delta = size * checked_sub(latest, position)? / adjustment on the unsigned type (returns %s; signed conversions: %s)" % (up.ret, negs),
               where=up.where())


def anchor_try(fn, cs):
    from .. import anchor
    return anchor.try_switch_of(fn, cs) is not None
