"""C03 Price impact penalises imbalance and cannot be farmed by round trips.

Decided (A10 finite-case evaluation over orderings of opaque values, A1 who-calls):

 * adjusted-factors : `PriceImpactParams::adjusted_factors` over the 3 orderings of (positive, negative):
                      result.0 == min(positive, negative), result.1 == negative  (so result.0 <= result.1 always).
 * factor-source    : the impact functions take their factors only from `adjusted_factors()`; the raw accessor
                      `positive_factor()` has no caller in the model; same-side uses ONE factor for both terms,
                      cross-over uses .0 for the initial and .1 for the next imbalance.
 * balance-change   : `PoolDelta::price_impact` over the orderings of (next diff, initial diff) x same-side flag:
                      Less -> Improved, Equal -> Unchanged, Greater -> Worsened; dispatch to same-side / cross-over with
                      (initial, next, params) in that order; initial = |current.long - current.short|, next likewise of `next`.
 * impact-sign      : same-side: next < initial -> +delta with the positive factor, otherwise -delta (checked_neg) with
                      the negative factor  => a worsening same-side change never gets a positive impact and an improving
                      one never a negative impact; cross-over: +delta iff positive_impact > negative_impact, else -delta.
                      The sign-selecting branch may live in the formula itself or in a private helper of pool::delta that
                      the formula tail-calls: the helper's decision table is substituted (parameters := argument
                      expressions), so the fact is established through the helper too.
 * worse-of         : `swap_impact_value` / `position_price_impact` over orderings of (virtual, real) x {real negative,
                      include flag, virtual inventory present}: the virtual inventory is consulted only when the real
                      impact is negative and enabled, and then the smaller of the two impacts is returned.
"""
import re

from .. import analyses as A
from .. import h_A as H

PD = r"gmsol_model::pool::delta::PoolDelta::<T>::"


def run(ctx):
    prog = ctx.prog(["gmsol_model"])
    ctx.explanation = (
        "Finite-case evaluation (every ordering of the compared opaque values x every boolean) of the functions that decide "
        "the SIGN of a price impact and which factor it uses: adjusted_factors never lets the positive factor exceed the "
        "negative one; impact computation reads factors only through it; the ordering -> BalanceChange map; the sign arms "
        "of the same-side and cross-over formulas; and the worse-of(real, virtual) selection in the swap and position paths.")
    ctx.not_decided = (
        "The round-trip inequality itself (needs monotonicity/convexity of x^e, value reasoning); that a cross-over change "
        "with positive_impact > negative_impact is indeed an improvement (follows from positive factor <= negative factor "
        "and monotone apply_factors, not shown).")
    ctx.rule("adjusted-factors", "adjusted_factors() = (min(pos, neg), neg) on every ordering")
    ctx.rule("factor-source", "impact formulas read factors only via adjusted_factors(); raw positive_factor() has no caller")
    ctx.rule("balance-change", "cmp(next diff, initial diff) -> BalanceChange map and dispatch of PoolDelta::price_impact")
    ctx.rule("impact-sign", "sign of the impact follows the improvement test in both formulas")
    ctx.rule("worse-of", "virtual inventory only when real impact negative; the smaller impact is returned")

    _adjusted(ctx)
    _source(ctx, prog)
    _balance(ctx, prog)
    _signs(ctx, prog)
    _worse(ctx)


def _adjusted(ctx):
    f = ctx.fn(r"gmsol_model::params::price_impact::PriceImpactParams::<T>::adjusted_factors")
    if f is None:
        return

    def atomize(x):
        s = str(x)
        return {"self.positive_factor": "pos", "self.negative_factor": "neg"}.get(s)
    cases = 0
    bad = []
    try:
        for ranks, _b, sel in H.finite_eval(f, atomize, ["pos", "neg"]):
            cases += 1
            for p in sel:
                e = p.ret
                if not (e.k == "agg" and len(e.a[1]) == 2):
                    bad.append("result is not a pair: %s" % e)
                    continue
                r0, r1 = atomize(e.a[1][0][1]), atomize(e.a[1][1][1])
                if r0 is None or r1 is None:
                    bad.append("pair component is not a factor field: %s" % e)
                    continue
                if not (ranks[r0] == min(ranks["pos"], ranks["neg"]) and ranks[r1] == ranks["neg"]):
                    bad.append("ordering %s: returns (%s, %s)" % (ranks, r0, r1))
            if not sel:
                bad.append("ordering %s: no path" % ranks)
    except H.OutOfFragment as ex:
        bad.append("no longer finitely evaluable: %s" % ex)
    ctx.ob("adjusted-factors:table", not bad, "adjusted_factors over %d orderings of (positive, negative): (min(pos,neg), neg)%s" % (
        cases, "; VIOLATED: %s" % bad if bad else ""), where=f.where(), detail={"exhaustive": True, "cases": cases})
    ctx.floor("adjusted-factors", cases, 3)


def _source(ctx, prog):
    pos = ctx.fn(r"gmsol_model::params::price_impact::PriceImpactParams::<T>::positive_factor")
    adj = ctx.fn(r"gmsol_model::params::price_impact::PriceImpactParams::<T>::adjusted_factors")
    for g, nm in ((pos, "positive_factor"),):
        if g is not None:
            cs = [c.fn.short for c in prog.callers_of(g.id)]
            ctx.ob("factor-source:raw-accessor:" + nm, not cs, "raw accessor %s() has no caller in gmsol_model (callers: %s)" % (nm, cs), where=g.where())
    if adj is not None:
        cs = sorted(set(c.fn.id for c in prog.callers_of(adj.id)))
        want = sorted([PD.replace("\\", "") + "price_impact_for_same_side_rebalance", PD.replace("\\", "") + "price_impact_for_cross_over_rebalance"])
        ctx.ob("factor-source:adjusted-callers", cs == want, "adjusted_factors() is called by exactly the two impact formulas: %s" % [c.split("::")[-1] for c in cs], where=adj.where())
    n = 0
    for nm in ("price_impact_for_same_side_rebalance", "price_impact_for_cross_over_rebalance"):
        f = ctx.fn(PD + nm)
        if f is None:
            continue
        calls = f.calls_to(r"utils::apply_factors$")
        facs = []
        ok = len(calls) == 2
        for c in calls:
            n += 1
            a = [str(c.arg_expr(i)) for i in range(3)]
            facs.append(a)
            alts = c.arg_expr(1).alts()
            ok = ok and all(re.match(r"^PriceImpactParams::adjusted_factors\(params\)\.[01]$", str(x)) for x in alts) \
                and a[2] == "PriceImpactParams::exponent(params)"
        ctx.ob("factor-source:" + nm, ok, "%s: both apply_factors calls take factor from adjusted_factors(params).{0,1} and exponent from params.exponent(): %s" % (nm, facs),
               where=f.where())
    ctx.floor("factor-source:apply_factors-sites", n, 4)


def _balance(ctx, prog):
    f = ctx.fn(PD + "price_impact")
    if f is None:
        return

    def atomize(x):
        s = str(x)
        return {"PoolDelta::next_diff_value(self)": "next", "PoolDelta::initial_diff_value(self)": "initial",
                "PoolDelta::is_same_side_rebalance(self)": "same"}.get(s)
    cases, bad = 0, []
    want_bc = {-1: "BalanceChange::Improved", 0: "BalanceChange::Unchanged", 1: "BalanceChange::Worsened"}
    try:
        for ranks, bools, sel in H.finite_eval(f, atomize, ["next", "initial"], ["same"], ignore=r"trybranch"):
            cases += 1
            sel = [p for p in sel if H.retkind(p.ret) == "value"]
            if not sel:
                bad.append("%s/%s: no value path" % (ranks, bools))
            for p in sel:
                e = H.peel(p.ret)
                fl = dict(e.a[1]) if e.k == "agg" else {}
                bc = str(fl.get("balance_change"))
                v = H.peel(fl["value"]) if "value" in fl else None
                sign = (ranks["next"] > ranks["initial"]) - (ranks["next"] < ranks["initial"])
                callee = "PoolDelta::price_impact_for_same_side_rebalance" if bools["same"] else "PoolDelta::price_impact_for_cross_over_rebalance"
                good = bc.startswith(want_bc[sign]) and v is not None and H.is_call(v, "^%s$" % callee) and \
                    [str(a) for a in H.call_args(v)] == ["PoolDelta::initial_diff_value(self)", "PoolDelta::next_diff_value(self)", "params"]
                if not good:
                    bad.append("next %s initial, same_side=%s: balance_change=%s value=%s" % ("<=>"[sign + 1], bools["same"], bc, v))
    except H.OutOfFragment as ex:
        bad.append("no longer finitely evaluable: %s" % ex)
    ctx.ob("balance-change:table", not bad,
           "PoolDelta::price_impact over %d cases: next<initial -> Improved, == -> Unchanged, > -> Worsened; formula by is_same_side_rebalance with (initial, next, params)%s" % (
               cases, "; VIOLATED: %s" % bad if bad else ""), where=f.where(), detail={"exhaustive": True, "cases": cases})
    ctx.floor("balance-change", cases, 6)
    # wiring of initial / next / same-side
    for nm, fld in (("initial_diff_value", "current"), ("next_diff_value", "next")):
        g = ctx.fn(PD + nm)
        if g is not None:
            vs = [str(H.peel(p.ret)) for p in H.value_paths(g)]
            ctx.ob("balance-change:" + nm, vs == ["PoolValue::diff_value(self.%s)" % fld], "%s = %s" % (nm, vs), where=g.where())
    g = ctx.fn(r"gmsol_model::pool::delta::PoolValue::<T>::diff_value")
    if g is not None:
        vs = [H.peel(p.ret) for p in H.value_paths(g)]
        ok = len(vs) == 1 and H.is_call(vs[0], r"^Unsigned::diff$") and sorted(str(a) for a in H.call_args(vs[0])) == ["self.long_token_usd_value", "self.short_token_usd_value"]
        ctx.ob("balance-change:diff_value", ok, "diff_value = |long usd - short usd|: %s" % [str(v) for v in vs], where=g.where())
    g = ctx.fn(PD + "is_same_side_rebalance")
    if g is not None:
        vs = [str(H.peel(p.ret)) for p in H.value_paths(g)]
        want = "(PartialOrd::le(self.current.long_token_usd_value, self.current.short_token_usd_value) Eq PartialOrd::le(self.next.long_token_usd_value, self.next.short_token_usd_value))"
        ctx.ob("balance-change:is_same_side_rebalance", vs == [want], "is_same_side_rebalance = (cur.long<=cur.short) == (next.long<=next.short): %s" % vs, where=g.where())


def _sign_and_core(e, core_atom):
    """linear form of a returned impact over one core atom"""
    return H.linform(e, core_atom)


INLINE = r"^gmsol_model::pool::delta::"   # private helpers of the module may hold the sign-selecting branch


def _signs(ctx, prog):
    # same side
    f = ctx.fn(PD + "price_impact_for_same_side_rebalance")
    if f is not None:
        def atomize(x):
            return {"next": "next", "initial": "initial"}.get(str(x))

        def core(x):
            if H.is_call(x, r"^Unsigned::diff$"):
                a = [H.peel(y) for y in H.call_args(x)]
                if all(H.is_call(y, r"^utils::apply_factors$") for y in a):
                    vals = sorted(str(H.call_args(y)[0]) for y in a)
                    facs = set(str(H.call_args(y)[1]) for y in a)
                    if vals == ["initial", "next"] and len(facs) == 1:
                        return "DELTA[%s]" % facs.pop()
            return None
        cases, bad = 0, []
        try:
            for ranks, _b, sel in H.finite_eval(f, atomize, ["next", "initial"], ignore=r"trybranch", prog=prog, inline=INLINE):
                cases += 1
                sel = [p for p in sel if H.retkind(p.ret) == "value"]
                improving = ranks["next"] < ranks["initial"]
                if not sel:
                    bad.append("%s: no value path" % ranks)
                for p in sel:
                    try:
                        lf = H.linform(p.ret, core)
                    except H.NotLinear as ex:
                        lf = {"nonlinear": str(ex)}
                    want = {"DELTA[PriceImpactParams::adjusted_factors(params).0]": 1} if improving else {"DELTA[PriceImpactParams::adjusted_factors(params).1]": -1}
                    if lf != want:
                        bad.append("next %s initial: impact = %s, specification %s" % ("<" if improving else ">=", lf, want))
        except H.OutOfFragment as ex:
            bad.append("no longer finitely evaluable: %s" % ex)
        ctx.ob("impact-sign:same-side", not bad,
               "same-side rebalance over %d orderings: next<initial -> +|f+(initial)-f+(next)| (positive factor), otherwise -|f-(initial)-f-(next)| (negative factor)%s" % (
                   cases, "; VIOLATED: %s" % bad if bad else ""), where=f.where(), detail={"exhaustive": True, "cases": cases})
        ctx.floor("impact-sign:same-side", cases, 3)
    f = ctx.fn(PD + "price_impact_for_cross_over_rebalance")
    if f is not None:
        P = "utils::apply_factors(initial, PriceImpactParams::adjusted_factors(params).0, PriceImpactParams::exponent(params))"
        N = "utils::apply_factors(next, PriceImpactParams::adjusted_factors(params).1, PriceImpactParams::exponent(params))"

        def atomize(x):
            return {P: "P", N: "N"}.get(str(H.peel(x)))

        def core(x):
            if H.is_call(x, r"^Unsigned::diff$") and sorted(atomize(y) or "?" for y in H.call_args(x)) == ["N", "P"]:
                return "DELTA"
            return None
        cases, bad = 0, []
        try:
            for ranks, _b, sel in H.finite_eval(f, atomize, ["P", "N"], ignore=r"trybranch", prog=prog, inline=INLINE):
                cases += 1
                sel = [p for p in sel if H.retkind(p.ret) == "value"]
                if not sel:
                    bad.append("%s: no value path" % ranks)
                for p in sel:
                    try:
                        lf = H.linform(p.ret, core)
                    except H.NotLinear as ex:
                        lf = {"nonlinear": str(ex)}
                    want = {"DELTA": 1} if ranks["P"] > ranks["N"] else {"DELTA": -1}
                    if lf != want:
                        bad.append("P %s N: impact = %s, specification %s" % (">" if ranks["P"] > ranks["N"] else "<=", lf, want))
        except H.OutOfFragment as ex:
            bad.append("no longer finitely evaluable: %s" % ex)
        ctx.ob("impact-sign:cross-over", not bad,
               "cross-over rebalance over %d orderings of P=f+(initial), N=f-(next): P>N -> +|P-N|, otherwise -|P-N|%s" % (
                   cases, "; VIOLATED: %s" % bad if bad else ""), where=f.where(), detail={"exhaustive": True, "cases": cases})
        ctx.floor("impact-sign:cross-over", cases, 3)


def _worse(ctx):
    for tag, pat, virt_re, params_re in (
            ("swap_impact_value", r"gmsol_model::market::swap::SwapMarketExt::swap_impact_value", r"virtual_inventory_for_swaps_pool", r"^SwapMarket::swap_impact_params\(self\)$"),
            ("position_price_impact", r"gmsol_model::position::PositionExt::position_price_impact", r"virtual_inventory_for_positions_pool",
             r"^PositionImpactMarket::position_impact_params\(Position::market\(self\)\)$")):
        f = ctx.fn(pat)
        if f is None:
            continue

        def kind(x):
            """REAL / VIRT for a PoolDelta::price_impact(..) result expression"""
            x = H.peel(x)
            if not H.is_call(x, r"^PoolDelta::price_impact$"):
                return None
            return "virt" if re.search(virt_re, str(H.call_args(x)[0])) else "real"

        def atomize(x):
            x0 = H.peel(x)
            s = str(x0)
            if x0.k == "field" and x0.a[1] == "value":
                return kind(x0.a[0])
            if H.is_call(x0, r"^Signed::is_negative$"):
                a = H.peel(H.call_args(x0)[0])
                if a.k == "field" and a.a[1] == "value" and kind(a.a[0]) == "real":
                    return "real_negative"
                return None
            if s == "include_virtual_inventory_impact":
                return "include"
            if x0.k == "discr" and re.search(virt_re + r"\(.*\)\?$", str(x0.a[0])):
                return "has_virtual"
            return None
        cases, bad = 0, []
        params_ok = True
        try:
            for ranks, bools, sel in H.finite_eval(f, atomize, ["virt", "real"], ["real_negative", "include", "has_virtual"],
                                                   ignore=r"trybranch|^Signed::is_negative\(size_delta_usd\)$"):
                cases += 1
                sel = [p for p in sel if H.retkind(p.ret) == "value"]
                if not sel:
                    bad.append("%s/%s: no value path" % (ranks, bools))
                for p in sel:
                    r = H.peel(p.ret)
                    k = kind(r)
                    if k is None:
                        bad.append("result is not a price_impact(..) value: %s" % str(r)[:120])
                        continue
                    if not re.search(params_re, str(H.peel(H.call_args(H.peel(r))[1]))):
                        params_ok = False
                    if not (bools["real_negative"] and bools["include"] and bools["has_virtual"]):
                        want = {"real"}
                    elif ranks["virt"] < ranks["real"]:
                        want = {"virt"}
                    elif ranks["virt"] > ranks["real"]:
                        want = {"real"}
                    else:
                        want = {"real", "virt"}
                    if k not in want:
                        bad.append("virt %s real, %s: returns %s impact, specification %s" % (
                            "<" if ranks["virt"] < ranks["real"] else (">" if ranks["virt"] > ranks["real"] else "=="), bools, k, sorted(want)))
        except H.OutOfFragment as ex:
            bad.append("no longer finitely evaluable: %s" % ex)
        ctx.ob("worse-of:" + tag, not bad and params_ok,
               "%s over %d cases (orderings of virtual/real impact x real-negative x include flag x inventory present): real impact unless all three hold, "
               "then the smaller one; both computed with the same impact params=%s%s" % (tag, cases, params_ok, "; VIOLATED: %s" % bad[:6] if bad else ""),
               where=f.where(), detail={"exhaustive": True, "cases": cases})
        ctx.floor("worse-of:" + tag, cases, 24)
