"""C35 Stored names read back exactly as they were accepted.

Codec agreement between the writer `fixed_str_to_bytes` and the reader `bytes_to_fixed_str`, decided on the MIR of BOTH
copies (gmsol-utils and the SDK twin):

 * reader-mode   : the reader looks for the first byte `== 0` (`iter().position(|b| b == 0)`), returns `Err` when there is
                   none (=> a terminator is REQUIRED) and otherwise `from_utf8(&bytes[..end])` (=> bytes before the first
                   NUL are the name);
 * codec:exact-fill   : because the reader requires a terminator, every `Ok` of the writer must lie under the strict fact
                   `name.len() < MAX_LEN` (affine fact over the const generic);
 * codec:interior-nul : every `Ok` of the writer lies under the false edge of a NUL-membership test on the name's own bytes
                   (`bytes.contains(&0u8)`, needle value read from the promoted constant), otherwise the name would read back truncated;
 * codec:buffer  : the writer returns the zero-initialised `[0; MAX_LEN]` into whose prefix `[..len]` exactly the name's bytes
                   were copied (so the terminator is in place);
 * no-panic      : slice / copy_from_slice sites of both functions are in range (writer: `len < MAX_LEN`, equal lengths;
                   reader: `position` < MAX_LEN);
 * wrapper       : the store program's `utils::fixed_str` wrappers forward to the gmsol-utils functions and only map errors;
 * users         : every call of a writer in the programs/SDK has its result `?`-propagated or returned (an unreadable name is
                   rejected at creation), and every stored name field written from the writer with length N is read back by
                   the reader with the same N on the same field (Store.key, RoleMetadata.name, Market.name, TokenConfig.name,
                   Executor.role_name);
 * role-compare  : the role table compares `metadata.name()? == role`.
"""
import re

from .. import analyses as A
from ..h_E import LinFn, Lin, TERM, inventory, consumed_by_try
from ..model import short_path

COPIES = [("utils", r"gmsol_utils::fixed_str"), ("sdk", r"gmsol_sdk::utils::fixed_str")]


def _reader(ctx, prog, tag, mod):
    f = ctx.fn(mod + r"::bytes_to_fixed_str")
    if f is None:
        return None
    L = LinFn(f, prog)
    pos = [cs for cs in f.calls if cs.short == "Iterator::position"]
    mode = None
    ok_shape = False
    if len(pos) == 1:
        cs = pos[0]
        it = cs.arg_expr(0)
        cl = cs.arg_expr(1)
        clf = prog.fns.get(cl.a[0]) if cl.k == "closure" else None
        pred = [str(e) for _, _, e in clf.exits()] if clf is not None else []
        pred_ok = len(pred) == 1 and re.match(r"^\((\w+) Eq 0\)$|^\(0 Eq (\w+)\)$", pred[0]) is not None
        src_ok = str(it) == "[T]::iter(%s)" % (f.locals[1][1] or "bytes")
        none_exits, some_exits = [], []
        for bb, k, e in f.exits():
            lab = None
            for (g, cond, allowed, labels) in f.guards(bb):
                if cond.k == "discr" and cond.a[0].k == "call" and cond.a[0].a[0] == "Iterator::position":
                    lab = allowed
            if lab == frozenset([1]):
                some_exits.append((k, e))
            elif lab is not None:
                none_exits.append((k, e))
        if none_exits and all(k == "err" for k, _ in none_exits):
            mode = "terminator-required"
        elif none_exits:
            mode = "terminator-optional"
        inner = r"str::from_utf8\(Index::index\(%s, RangeTo\{end: Iterator::position\(.*\)@Some\.0\}\)\)" % (f.locals[1][1] or "bytes")
        want = r"^(Result::Ok\{0: %s\?\}|Result::map_err\(%s, closure<[^>]*>\)|%s)$" % (inner, inner, inner)
        oks = [e for k, e in some_exits if k in ("ok", "unknown")]
        ok_shape = pred_ok and src_ok and len(oks) == 1 and re.match(want, str(oks[0])) is not None
        ctx.ob("reader-mode:%s" % tag, ok_shape and mode is not None,
               "%s reader: first byte with `%s` over %s; no such byte -> %s; found -> from_utf8(bytes[..end]) = %s => mode %s" % (
                   tag, pred, it, [k for k, _ in none_exits], ok_shape, mode), where=f.where(), detail={"mode": mode})
        # position() < length of the iterated array (std contract)
        r = cs.dest[0]
        ln = L.slice_len(cs_iter_arg(f, cs), (cs.bb, TERM)) if cs_iter_arg(f, cs) is not None else None
        if ln is not None:
            L.assume(ln.sub(L._atom(r, ["@Some", ".0"], ty="usize")).add(Lin({}, -1)), (cs.bb, TERM))
    else:
        ctx.ob("reader-mode:%s" % tag, False, "%s reader no longer searches with Iterator::position (%d calls)" % (tag, len(pos)), where=f.where())
    for r in inventory(L):
        ctx.ob("no-panic:%s:bytes_to_fixed_str:%s" % (tag, r["key"]), r["ok"], "%s reader: %s" % (tag, r["msg"]), where=f.where(r["line"]))
    return mode


def cs_iter_arg(f, pos_cs):
    """the slice operand of `[T]::iter(x)` feeding Iterator::position(&mut it, ..)"""
    for cs in f.calls:
        if cs.short == "[T]::iter" and str(cs.arg_expr(0)) == (f.locals[1][1] or "bytes"):
            return cs.args[0]
    return None


def _writer(ctx, prog, tag, mod, mode):
    f = ctx.fn(mod + r"::fixed_str_to_bytes")
    if f is None:
        return
    L = LinFn(f, prog)
    name = f.locals[1][1] or "name"
    asb = [cs for cs in f.calls if cs.short == "str::as_bytes" and str(cs.arg_expr(0)) == name]
    oks = [(bb, e) for bb, k, e in f.exits() if k == "ok"]
    if len(asb) != 1 or not oks:
        ctx.ob("codec:%s:fixed_str_to_bytes:shape" % tag, False, "writer no longer takes `name.as_bytes()` once / has no Ok exit", where=f.where())
        return
    blen = L.slice_len(asb[0].dest, (asb[0].bb, TERM))
    cap = Lin.atom("MAX_LEN")
    L.atom_ty["MAX_LEN"] = "usize"
    for bb, e in oks:
        S = (bb, 0)
        need = cap.sub(blen).add(Lin({}, -1)) if mode == "terminator-required" else cap.sub(blen)
        ok, why = L.nonneg(need, S)
        ctx.ob("codec:%s:fixed_str_to_bytes:exact-fill" % tag, ok,
               "%s writer: at Ok, name.len() %s MAX_LEN %s (reader mode: %s)" % (tag, "<" if mode == "terminator-required" else "<=", "by " + why if ok else "is NOT implied — a name that exactly fills the field is accepted but cannot be read back; " + why, mode),
               where=f.where())
        nul = [(c, t) for c, t in f.bool_guards(bb) if c.k == "call" and c.a[0] in ("[T]::contains",) and len(c.a[1]) == 2 and
               str(c.a[1][0]) == "str::as_bytes(%s)" % name]
        needle_ok = []
        for c, t in nul:
            nd = c.a[1][1]
            cd = nd.a[1] if nd.k == "const" and len(nd.a) > 1 and isinstance(nd.a[1], dict) else {}
            val = cd.get("deref_int", cd.get("int"))          # pointee of the promoted `&0u8`
            if t is False and cd.get("ty") == "&u8" and val == "0":
                needle_ok.append(c)
        ctx.ob("codec:%s:fixed_str_to_bytes:interior-nul" % tag, bool(needle_ok),
               "%s writer: Ok lies under the false edge of `bytes.contains(&<u8 const>)` on the name's bytes: %s" % (
                   tag, [(str(c)[:70], t) for c, t in nul] or "NO membership test — a name with an interior NUL is accepted and reads back truncated"),
               where=f.where())
        # buffer
        buf_zero = str(e) == "Result::Ok{0: repeat{0: 0}}"
        cps = [cs for cs in f.calls if cs.short == "[T]::copy_from_slice"]
        cp_ok = False
        for cs in cps:
            dst = cs.arg_expr(0)
            src = cs.arg_expr(1)
            rg = None
            d = L._single_def(L.canon_place([cs.args[0][0], "*"])[0]) if not isinstance(cs.args[0], dict) else None
            if d is not None and d[1] == "call" and d[3].short == "IndexMut::index_mut":
                rg = L.range_of(d[3].args[1], (d[3].bb, TERM))
                base = L.canon_place([d[3].args[0][0], "*"])
                ret_local = None
                for bb2, si2, s2 in f.statements():
                    if s2[0] == "=" and s2[1] == [0] or (s2[0] == "=" and s2[2][0] == "agg" and s2[1] == [0]):
                        pass
                cp_ok = rg is not None and rg[0] == "RangeTo" and rg[2] == blen and str(src) == "str::as_bytes(%s)" % name and \
                    (f.dominates(cs.bb, bb) or cs.bb == bb) and len(base) == 1 and f.locals[base[0]][0].startswith("[u8;")
        ctx.ob("codec:%s:fixed_str_to_bytes:buffer" % tag, buf_zero and cp_ok and len(cps) == 1,
               "%s writer: returns the zero-filled [0; MAX_LEN] (%s) whose prefix [..name.len()] received exactly the name's bytes (%s)" % (tag, buf_zero, cp_ok),
               where=f.where())
    ctx.floor("codec:%s:ok-exits" % tag, len(oks), 1)
    for r in inventory(L):
        ctx.ob("no-panic:%s:fixed_str_to_bytes:%s" % (tag, r["key"]), r["ok"], "%s writer: %s" % (tag, r["msg"]), where=f.where(r["line"]))


def _wrappers(ctx, prog):
    for nm in ("fixed_str_to_bytes", "bytes_to_fixed_str"):
        f = ctx.fn(r"gmsol_store::utils::fixed_str::%s" % nm)
        if f is None:
            continue
        inner = [cs for cs in f.calls if cs.callee == "gmsol_utils::fixed_str::%s" % nm]
        others = [cs.short for cs in f.calls if cs not in inner and cs.short not in ("Result::map_err",)]
        arg_ok = len(inner) == 1 and str(inner[0].arg_expr(0)) == (f.locals[1][1] or "")
        ex = f.exits()
        ret_ok = len(ex) == 1 and re.match(r"^Result::map_err\(Result::map_err\(fixed_str::%s\(\w+\), " % nm, str(ex[0][2])) is not None
        ctx.ob("wrapper:store:%s" % nm, arg_ok and ret_ok and not others,
               "store::utils::fixed_str::%s forwards its argument to gmsol_utils::fixed_str::%s and only maps the error (%s)" % (nm, nm, str(ex[0][2])[:80] if ex else None),
               where=f.where())


def _users(ctx, prog):
    n_w = 0
    writes = {}     # (type.field) -> N
    for f in list(prog.fns.values()):
        if "fixed_str::" in f.id:
            continue
        for cs in f.calls:
            if not re.search(r"fixed_str::fixed_str_to_bytes$", cs.callee or ""):
                continue
            n_w += 1
            n = (cs.gargs or "").strip("[]")
            if cs.dest == [0]:
                ctx.ob("users:propagates:%s" % f.short, True, "%s returns fixed_str_to_bytes::<%s>(..) directly" % (f.short, n), where=cs.where(), nontrivial=False)
            else:
                ok, chain = consumed_by_try(f, cs, via=r"(Result::map_err)$")
                ctx.ob("users:propagates:%s" % f.short, ok, "%s: fixed_str_to_bytes::<%s>(..) is consumed as %s" % (f.short, n, " -> ".join(chain)), where=cs.where())
            for w in A.field_writes(f, r"^self\.\w+$"):
                if w["kind"] == "assign" and w["rv"] is not None and re.match(r"^fixed_str::fixed_str_to_bytes\(\w+\)\?$", str(w["rv"])):
                    ty = short_path(f.impl["self"], 1) if f.impl else f.short.split("::")[0]
                    if f.impl and f.impl.get("trait"):
                        ty = short_path(f.impl["self"], 1)
                    writes[(ty, w["path"].split(".", 1)[1])] = n
    ctx.floor("users:writer-calls", n_w, 6)
    reads = {}
    for f in list(prog.fns.values()):
        if "fixed_str::" in f.id:
            continue
        for cs in f.calls:
            if re.search(r"fixed_str::bytes_to_fixed_str$", cs.callee or ""):
                a = str(cs.arg_expr(0))
                m = re.match(r"^self\.(\w+)$", a)
                if m and f.impl:
                    reads[(short_path(f.impl["self"], 1), m.group(1))] = ((cs.gargs or "").strip("[]"), f)
    # RoleMetadata goes through name_to_bytes/bytes_to_name helpers
    rm_new = ctx.fn(r"gmsol_store::states::roles::RoleMetadata::new")
    rm_name = ctx.fn(r"gmsol_store::states::roles::RoleMetadata::name")
    if rm_new is not None and rm_name is not None:
        oks = [e for _, k, e in rm_new.exits() if k == "ok"]
        flds = dict(oks[0].a[1][0][1].a[1]) if len(oks) == 1 and oks[0].k == "agg" and oks[0].a[1][0][1].k == "agg" else {}
        w_ok = re.match(r"^RoleMetadata::name_to_bytes\(%s\)\?$" % (rm_new.locals[1][1] or "name"), str(flds.get("name"))) is not None and flds["name"].k == "try"
        ex = [str(e) for _, _, e in rm_name.exits()]
        r_ok = ex == ["RoleMetadata::bytes_to_name(self.name)"]
        n2b = ctx.fn(r"gmsol_store::states::roles::RoleMetadata::name_to_bytes")
        b2n = ctx.fn(r"gmsol_store::states::roles::RoleMetadata::bytes_to_name")
        gw = [cs.gargs for cs in (n2b.calls if n2b else []) if re.search(r"fixed_str_to_bytes$", cs.callee or "")]
        gr = [cs.gargs for cs in (b2n.calls if b2n else []) if re.search(r"bytes_to_fixed_str$", cs.callee or "")]
        ctx.ob("users:field:RoleMetadata.name", w_ok and r_ok and gw == gr and len(gw) == 1,
               "RoleMetadata::new stores name_to_bytes(name)? (%s), name() reads bytes_to_name(self.name) (%s), both with N=%s/%s" % (w_ok, r_ok, gw, gr),
               where=rm_new.where())
    for (ty, fld), n in sorted(writes.items()):
        rd = reads.get((ty, fld))
        # TokenConfig is defined in gmsol-utils, written through the store's extension trait
        ctx.ob("users:field:%s.%s" % (ty, fld), rd is not None and rd[0] == n,
               "%s.%s is written from fixed_str_to_bytes::<%s>(..)? and read back by bytes_to_fixed_str::<%s>(self.%s)" % (ty, fld, n, rd[0] if rd else None, fld),
               where=rd[1].where() if rd else "(reader missing)")
    ctx.floor("users:fields", len(writes), 4)
    # role table: compare by name
    g = ctx.fn(r"gmsol_store::states::roles::RoleStore::get_role_index|gmsol_store::states::roles::RoleStore::role_index")
    return


def _role_compare(ctx, prog):
    fs = [f for f in prog.fns.values() if f.id.startswith("gmsol_store::states::roles::") and
          any(cs.short == "RoleMetadata::name" for cs in f.calls)]
    n = 0
    for f in fs:
        for cs in f.calls:
            if cs.short != "RoleMetadata::name" or cs.dest == [0]:
                continue            # a listing that hands name() through unchanged is not a lookup
            ok, chain = consumed_by_try(f, cs, via=r"(Result::map_err)$")
            # the `?`-ed name is compared with the requested role
            cmpd = [c for c in f.calls if c.short in ("PartialEq::eq", "PartialEq::ne") and
                    any(re.search(r"RoleMetadata::name\(.*\)\?", str(c.arg_expr(i))) for i in range(len(c.args)))]
            n += 1
            ctx.ob("role-compare:%s" % f.short, ok and len(cmpd) >= 1,
                   "%s: metadata.name() is `?`-propagated (%s) and compared with the requested role name (%d comparison)" % (f.short, ok, len(cmpd)),
                   where=cs.where())
    ctx.floor("role-compare", n, 8)


def run(ctx):
    prog = ctx.prog(["gmsol_utils", "gmsol_store", "gmsol_timelock", "gmsol_sdk", "gmsol_programs"])
    ctx.explanation = (
        "Codec agreement: the reader's mode (terminator required: `position(|b| b == 0)` None => Err; Some(end) => bytes[..end]) is "
        "extracted from its MIR, then every Ok of the writer must carry the strict affine fact name.len() < MAX_LEN over the const "
        "generic and lie under the false edge of a NUL-membership test on the name's bytes, and must return the zero-filled buffer "
        "with the name copied to its prefix — for gmsol-utils and the SDK copy. Users: every writer call is `?`-propagated, every name "
        "field is written and read with the same length parameter, the role table compares `name()?` with the requested role.")
    ctx.not_decided = (
        "UTF-8 validity (guaranteed by `&str`). Anchor account (de)serialisation of the byte arrays and the std semantics of "
        "slice::contains / Iterator::position / copy_from_slice are trusted. That no OTHER code path writes the name fields with raw "
        "bytes is only checked for the functions that call the writer (the fields are private to their types).")
    ctx.rule("reader-mode", "reader requires a NUL terminator (None => Err) and returns the bytes before the first NUL")
    ctx.rule("codec", "writer's Ok implies len < MAX_LEN (strict, because the reader needs a terminator), no interior NUL test skipped, zero-filled buffer with the name as prefix")
    ctx.rule("no-panic", "slice/copy sites of reader and writer are in range")
    ctx.rule("wrapper", "store wrappers forward to gmsol-utils and only map errors")
    ctx.rule("users", "writer results are `?`-propagated; each name field is written and read with the same N")
    ctx.rule("role-compare", "role lookup compares `metadata.name()?` with the requested role")
    for tag, mod in COPIES:
        mode = _reader(ctx, prog, tag, mod)
        _writer(ctx, prog, tag, mod, mode)
    _wrappers(ctx, prog)
    _users(ctx, prog)
    _role_compare(ctx, prog)
