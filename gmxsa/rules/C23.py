"""C23 User actions complete or cancel exactly once and escrow always goes home.

Decided:
 * state-machine  : `ActionState::completed/cancelled` map Pending to Completed/Cancelled and every other variant to
                    Err (full match table over the enum's variants); Pending has discriminant 0 (a zeroed header is
                    Pending); `is_completed_or_cancelled` is true exactly for the two terminal variants.
 * state-writer   : the header field `action_state` is stored only in `ActionHeader::set_action_state`, which is
                    called only by `ActionHeader::completed/cancelled` with the value returned by the corresponding
                    `ActionState` transition applied to the current state.
 * close-preprocess: finite-case table of `Close::preprocess`: Ok(true) iff authority == header.owner; otherwise
                    Ok(false) only behind the Ok edge of `only_role(expected_keeper_role())` and under
                    `skip_completion_check_for_keeper() || is_completed_or_cancelled()`; else Err. No impl overrides
                    `preprocess`/`close`/`close_action_account`; overriders of the skip hook are tabled.
 * close-order    : `Close::close` runs validate -> preprocess -> process(is_caller_owner = preprocess()?) ->
                    close_action_account, the last only on the `process == true` edge.
 * execute-arms   : every handler that calls `header.completed()/cancelled()` (8 execute handlers + position cut +
                    keeper cancel) branches on the execution result, calls `completed` only on the executed edge and
                    `cancelled` only on the not-executed edge, and no Ok exit is reachable without exactly one of them.
 * refund         : a handler that moved escrow in (`X_in`) before executing calls `X_out` on the not-executed edge, on
                    every path to an Ok exit.
 * soft-fail      : the six execute operations return `true`/`Some` only on the Ok edge of their `perform_*`, and
                    `false`/`None` only on an Err edge with `throw_on_execution_error == false` (complete path table);
                    orders: `set_executed(true)` only on the Ok edge of `perform_execution`, failed = NOT_EXECUTED.
"""
import json
import os
import re

from .. import analyses as A
from .. import h_D as H
from ..model import short_path

TABLE = os.path.join(os.path.dirname(os.path.dirname(os.path.dirname(os.path.abspath(__file__)))), "tables", "C23.json")

HANDLERS = [
    r"gmsol_store::instructions::exchange::execute_deposit::unchecked_execute_deposit",
    r"gmsol_store::instructions::exchange::execute_withdrawal::unchecked_execute_withdrawal",
    r"gmsol_store::instructions::exchange::execute_order::ExecuteIncreaseOrSwapOrderV2::<'info>::invoke",
    r"gmsol_store::instructions::exchange::execute_order::ExecuteDecreaseOrderV2::<'info>::invoke",
    r"gmsol_store::instructions::exchange::execute_shift::unchecked_execute_shift",
    r"gmsol_store::instructions::glv::deposit::unchecked_execute_glv_deposit",
    r"gmsol_store::instructions::glv::shift::unchecked_execute_glv_shift",
    r"gmsol_store::instructions::glv::withdrawal::unchecked_execute_glv_withdrawal",
]


def run(ctx):
    prog = ctx.prog(["gmsol_store", "gmsol_utils"])
    table = json.load(open(TABLE))
    ctx.explanation = (
        "The action life cycle is decided structurally: the two state transitions are total match tables over the "
        "ActionState enum; the state byte has a single writer fed only by those transitions; Close::preprocess is an "
        "exhaustive path table (owner / keeper role / terminal state); every handler that finishes an action is "
        "shown, by dominating branch edges and must-pass-through on the MIR CFG, to mark completed on the executed "
        "edge and cancelled (plus the escrow refund matching its transfer-in) on the other edge, exactly once per Ok "
        "exit; the execute operations' result tables show that `false`/`None` arise only from an Err edge with "
        "throw_on_execution_error == false.")
    ctx.not_decided = (
        "Token amounts moved by the refund / close paths and the execution-fee arithmetic; that a failed perform_* "
        "left no market write behind (that is C21: commit is the last step of perform_*); Anchor account closing; "
        "interleavings across transactions beyond what the single state byte's transition table implies.")
    ctx.rule("state-machine", "ActionState transitions: Pending -> terminal, terminal -> Err; Pending == 0")
    ctx.rule("state-writer", "action_state has one writer, fed only by the transition functions")
    ctx.rule("close-preprocess", "Close::preprocess decision table; no overrides except the tabled skip hook")
    ctx.rule("close-order", "Close::close: validate, preprocess, process(is_caller_owner), close only if processed")
    ctx.rule("execute-arms", "completed only on executed edge, cancelled only on the other; exactly one per Ok exit")
    ctx.rule("refund", "escrow moved in before execution is moved out on the not-executed edge on every Ok path")
    ctx.rule("soft-fail", "execute operations: result tables (true only after perform_* Ok; false only on Err && !throw)")

    _state_machine(ctx, prog)
    _state_writer(ctx, prog)
    _close(ctx, prog, table)
    _arms(ctx, prog)
    _soft_fail(ctx, prog)


# ------------------------------------------------------------------------------------------------ state machine

def _state_machine(ctx, prog):
    adt = ctx.adt(r"gmsol_utils::action::ActionState")
    if adt is None:
        return
    dm = adt.discr_map()
    ctx.ob("state-machine:pending-is-zero", dm.get(0) == "Pending" and sorted(dm.values()) == ["Cancelled", "Completed", "Pending"],
           "ActionState discriminants %s: a zero-initialised header decodes to Pending; the only other states are the two terminal ones" % dm,
           where="%s:%d" % (adt.file, adt.line))
    for nm, tgt in (("completed", "Completed"), ("cancelled", "Cancelled")):
        f = ctx.fn(r"gmsol_utils::action::ActionState::" + nm)
        if f is None:
            continue
        t = A.match_table(f, prog, r"^self$", adt)
        rows = {k: sorted(str(x) for x in v) for k, v in t.items()}
        ok = rows.get("Pending") == ["Result::Ok{0: ActionState::%s{}}" % tgt]
        others = [k for k in rows if k != "Pending"]
        ok = ok and bool(others) and all(all(s.startswith("Result::Err{") for s in rows[k]) for k in others)
        # totality: every non-Pending variant is covered by an explicit arm or the wildcard
        covered = set(rows) - {"_"}
        ok = ok and ("_" in rows or covered == set(dm.values()))
        ctx.ob("state-machine:ActionState::" + nm, ok,
               "ActionState::%s: %s" % (nm, {k: [H.sx(s, 70) for s in v] for k, v in rows.items()}), where=f.where())
    f = ctx.fn(r"gmsol_utils::action::ActionState::is_completed_or_cancelled")
    if f is not None:
        t = A.match_table(f, prog, r"^self$", adt)
        rows = {k: sorted(str(x) for x in v) for k, v in t.items()}
        true_for = sorted(k for k, v in rows.items() if v == ["true"])
        rest = [k for k in rows if k not in true_for]
        ok = true_for == ["Cancelled", "Completed"] and all(rows[k] == ["false"] for k in rest) and bool(rest)
        ctx.ob("state-machine:ActionState::is_completed_or_cancelled", ok, "is_completed_or_cancelled: %s" % rows, where=f.where())
    ctx.floor("state-machine", 4, 4)


def _state_writer(ctx, prog):
    AH = r"gmsol_store::states::common::action::ActionHeader::"
    setter = ctx.fn(AH + "set_action_state")
    if setter is None:
        return
    # every store whose place projects through `.action_state` anywhere in the store program
    writers = {}
    for f in prog.fns.values():
        if f.crate != "gmsol_store":
            continue
        for bb, si, s in f.statements():
            if s[0] != "=" or len(s[1]) < 2:
                continue
            if any(p == ".action_state" for p in s[1][1:] if isinstance(p, str)):
                writers.setdefault(f.id, []).append(bb)
        for cs in f.calls:
            if len(cs.dest) > 1 and any(p == ".action_state" for p in cs.dest[1:] if isinstance(p, str)):
                writers.setdefault(f.id, []).append(cs.bb)
    # aggregate construction of a whole ActionHeader (struct literal) would also write the field
    ctx.ob("state-writer:field-stores", sorted(writers) == [setter.id],
           "stores through `.action_state` occur only in ActionHeader::set_action_state: %s" % sorted(short_path(w) for w in writers),
           where=setter.where())
    ws = H.state_stores(setter)
    ctx.ob("state-writer:set_action_state", len(ws) == 1 and ws[0]["path"] == "self.action_state" and str(ws[0]["rv"]) == "new_state",
           "set_action_state stores its argument: %s" % [(w["path"], str(w["rv"])) for w in ws], where=setter.where())
    cs = prog.callers_of(setter.id)
    want = {"completed": "ActionState::completed", "cancelled": "ActionState::cancelled"}
    bad = []
    for c in cs:
        nm = c.fn.name
        if c.fn.id not in (AH.replace("\\", "") + "completed", AH.replace("\\", "") + "cancelled"):
            bad.append("%s (unexpected caller)" % c.fn.short)
            continue
        a = str(c.arg_expr(1))
        m = re.match(r"^Result::map_err\(Result::map_err\(%s\(ActionHeader::action_state\(self\)\?\), fn:From::from\), closure<.*>\)\?$" % want[nm], a) \
            or re.match(r"^(Result::map_err\()*%s\(ActionHeader::action_state\(self\)\?\)" % want[nm], a)
        if not m or str(c.arg_expr(0)) != "self":
            bad.append("%s passes %s" % (c.fn.short, H.sx(a, 120)))
    ctx.ob("state-writer:callers", not bad and len(cs) == 2,
           "set_action_state is called from %s with the result of the matching ActionState transition on the current state; problems: %s" % (
               sorted(c.fn.short for c in cs), bad), where=setter.where())
    for nm in ("completed", "cancelled"):
        f = ctx.fn(AH + nm)
        if f is not None:
            H.atomic(ctx, "state-writer:atomic:ActionHeader::" + nm, f, floor=1)
    rd = ctx.fn(AH + "action_state")
    if rd is not None:
        ex = [str(e) for _, _, e in rd.exits()]
        ctx.ob("state-writer:reader", len(ex) == 1 and ex[0].startswith("Result::map_err(TryFrom::try_from(self.action_state), "),
               "ActionHeader::action_state decodes the same byte: %s" % [H.sx(e, 90) for e in ex], where=rd.where())
    ctx.floor("state-writer", 6, 6)


# ------------------------------------------------------------------------------------------------ close

def _close(ctx, prog, table):
    CL = r"gmsol_store::utils::internal::action::Close::"
    pre = ctx.fn(CL + "preprocess")
    close = ctx.fn(CL + "close")
    if pre is None or close is None:
        return

    def cls(e, p):
        return H.classify_bool_result(e)

    atoms = [("is_owner", r"^PartialEq::eq\(Authentication::authority\(self\)\.key, Action::header\(AccountLoader::load\(Close::action\(self\)\)\?\)\.owner\)$"
                          r"|^PartialEq::eq\(Action::header\(AccountLoader::load\(Close::action\(self\)\)\?\)\.owner, Authentication::authority\(self\)\.key\)$"),
             ("skip", r"^Close::skip_completion_check_for_keeper\(self\)\?$"),
             ("terminal", r"^ActionState::is_completed_or_cancelled\(ActionHeader::action_state\(Action::header\(AccountLoader::load\(Close::action\(self\)\)\?\)\)\?\)$")]
    rows = H.path_table(pre, atoms, cls)
    want = {((None, None, None), "err?"), ((True, None, None), "true"), ((False, None, None), "err?"),
            ((False, True, None), "false"), ((False, False, None), "err?"), ((False, False, True), "false"), ((False, False, False), "err")}
    ctx.ob("close-preprocess:table", rows == want,
           "Close::preprocess over (authority==owner, skip hook, terminal state): %s; specification %s" % (H.fmt_rows(rows), H.fmt_rows(want)),
           where=pre.where(), detail={"rows": H.fmt_rows(rows)})
    # every Ok(false) exit is behind the Ok edge of only_role(self, expected_keeper_role(self))
    gates = [c for c in pre.calls if c.short == "Authentication::only_role"]
    ok = len(gates) == 1 and [str(gates[0].arg_expr(i)) for i in range(2)] == ["self", "Close::expected_keeper_role(self)"]
    if ok:
        cont = H.ok_edge(pre, gates[0])
        falses = [bb for bb, e in H.ok_exits(pre) if str(e) == "Result::Ok{0: false}"]
        ok = H.propagated(pre, gates[0]) and bool(falses) and all(pre.dominates(cont, bb) for bb in falses)
    ctx.ob("close-preprocess:keeper-role", ok,
           "every Ok(false) exit of preprocess is dominated by the Ok edge of only_role(self, expected_keeper_role()): %s" % ok, where=pre.where())
    # overrides
    over = {}
    for f in prog.fns.values():
        if f.trait_item and f.trait_item.startswith(CL.replace("\\", "")) and f.impl:
            over.setdefault(f.trait_item.rsplit("::", 1)[-1], []).append(f)
    forbidden = [f.id for k in ("preprocess", "close", "close_action_account") for f in over.get(k, [])]
    ctx.ob("close-preprocess:no-override", not forbidden,
           "no impl of Close overrides preprocess/close/close_action_account: %s" % forbidden, where=pre.where())
    n_impl = len(over.get("process", []))
    ctx.floor("close-impls", n_impl, 7)
    skips = over.get("skip_completion_check_for_keeper", [])
    tab = table["skip_completion_check_overrides"]
    seen = set()
    for f in skips:
        who = short_path(f.impl["self"], 1) if f.impl else f.id
        seen.add(who)
        ent = tab.get(who)
        oks = [str(e) for _, e in H.ok_exits(f)]
        ok = ent is not None and len(oks) == 1 and re.match(ent["returns_re"], oks[0]) is not None
        ctx.ob("close-preprocess:skip-override:" + who, ok,
               "%s overrides skip_completion_check_for_keeper returning %s — %s" % (who, oks, (ent or {}).get("reason", "NOT TABLED")), where=f.where())
    for who in tab:
        if who not in seen:
            ctx.ob("close-preprocess:skip-override:" + who, False, "tabled override no longer exists", where="(table)")
    dflt = ctx.fn(CL + "skip_completion_check_for_keeper")
    if dflt is not None:
        ex = [str(e) for _, _, e in dflt.exits()]
        ctx.ob("close-preprocess:skip-default", ex == ["Result::Ok{0: false}"], "default skip hook returns Ok(false): %s" % ex, where=dflt.where())
    ctx.floor("close-preprocess", 5, 5)

    # close ordering
    def one(name):
        cs = [c for c in close.calls if c.short == name]
        return cs[0] if len(cs) == 1 else None
    v, p, pr, ca = one("Close::validate"), one("Close::preprocess"), one("Close::process"), one("Close::close_action_account")
    if None in (v, p, pr, ca):
        ctx.ob("close-order:Close::close", False, "expected exactly one call each of validate/preprocess/process/close_action_account", where=close.where())
    else:
        chain = all(H.propagated(close, x) for x in (v, p, pr, ca)) \
            and close.dominates(H.ok_edge(close, v), p.bb) and close.dominates(H.ok_edge(close, p), pr.bb) and close.dominates(H.ok_edge(close, pr), ca.bb)
        arg = str(pr.arg_expr(1)) == "Close::preprocess(ctx.accounts)?" and all(str(x.arg_expr(0)) == "ctx.accounts" for x in (v, p, pr, ca))
        g = H.guarded(close, ca.bb, r"^Close::process\(ctx\.accounts, Close::preprocess\(ctx\.accounts\)\?, .*\)\?$", True)
        ctx.ob("close-order:Close::close", chain and arg and g,
               "validate? -> preprocess? -> process(is_caller_owner = preprocess()?)? -> close_action_account? by dominance of Ok edges: %s; "
               "argument provenance: %s; account closed only on process()==true: %s" % (chain, arg, g), where=close.where())
    caa = ctx.fn(CL + "close_action_account")
    if caa is not None:
        ex = [str(e) for _, _, e in caa.exits()]
        ctx.ob("close-order:close_action_account", ex == ["AccountsClose::close(Close::action(self), Close::rent_receiver(self))"],
               "close_action_account closes the action account to rent_receiver(): %s" % ex, where=caa.where())
    ctx.floor("close-order", 2, 2)


# ------------------------------------------------------------------------------------------------ execute arms

def _result_switch(fn, perf_re):
    """The branch on the execution result: -> (switch_bb, executed_target, failed_target, description) or None."""
    for sw in H.bool_switches(fn, r"^(TransferOut::executed\()?%s" % perf_re):
        return (sw["bb"], sw["true"], sw["false"], "bool " + H.sx(sw["cond"], 70))
    for sw in H.discr_switches(fn, r"^%s" % perf_re):
        if "trybranch" in str(sw["scrut"]):
            continue
        some, none = H.variant_target(fn, sw, 1), H.variant_target(fn, sw, 0)
        return (sw["bb"], some, none, "Option " + H.sx(sw["scrut"], 70))
    return None


def _arms(ctx, prog):
    comp = ctx.fn(r"gmsol_store::states::common::action::ActionHeader::completed")
    canc = ctx.fn(r"gmsol_store::states::common::action::ActionHeader::cancelled")
    if comp is None or canc is None:
        return
    owners = {}
    nsites = 0
    for f in (comp, canc):
        for cs in prog.callers_of(f.id):
            owners[cs.fn.id] = cs.fn
            nsites += 1
    ctx.floor("execute-arms:call-sites", nsites, 18)
    known = set()
    n_ref = 0
    for pat in HANDLERS:
        fn = ctx.fn(pat)
        if fn is None:
            continue
        known.add(fn.id)
        key = fn.short
        perf = [c for c in fn.calls if re.search(r"::perform_execution$", c.short)]
        cc = [c for c in fn.calls if c.short == "ActionHeader::completed"]
        cn = [c for c in fn.calls if c.short == "ActionHeader::cancelled"]
        if len(perf) != 1 or len(cc) != 1 or len(cn) != 1:
            ctx.ob("execute-arms:" + key, False, "%s: expected one perform_execution / completed / cancelled call, found %d/%d/%d" % (
                key, len(perf), len(cc), len(cn)), where=fn.where())
            continue
        pshort = re.escape(perf[0].short)
        rs = _result_switch(fn, pshort + r"\(ctx\.accounts, ")
        if rs is None:
            ctx.ob("execute-arms:" + key, False, "%s: no branch on the result of %s found" % (key, perf[0].short), where=fn.where())
            continue
        sw, t_ok, t_fail, desc = rs
        # the header marked is the action account of the handler
        hdr = [str(c.arg_expr(0)) for c in (cc[0], cn[0])]
        same_hdr = hdr[0] == hdr[1] and re.match(r"^(GlvShift::header_mut\()?AccountLoader::load_mut\(ctx\.accounts\.[a-z_]+\)\??(\.header|\))$", hdr[0]) is not None
        a = fn.dominates(t_ok, cc[0].bb) and t_ok != t_fail and not fn.dominates(t_ok, cn[0].bb)
        b = fn.dominates(t_fail, cn[0].bb) and not fn.dominates(t_fail, cc[0].bb)
        prop = H.propagated(fn, cc[0]) and H.propagated(fn, cn[0])
        oks = sorted(fn.ok_exit_blocks())
        # exactly one: no Ok exit reachable from the branch without completed (on the executed edge) / cancelled (other edge)
        c1 = H.must_pass(fn, t_ok, oks, [cc[0].bb]) and H.must_pass(fn, t_fail, oks, [cn[0].bb])
        # and no Ok exit at all without passing the result branch
        c2 = H.must_pass(fn, 0, oks, [sw]) and bool(oks)
        # not both: from the Ok edge of one the other is unreachable
        c3 = cn[0].bb not in fn.reachable_from(cc[0].bb) and cc[0].bb not in fn.reachable_from(cn[0].bb)
        ctx.ob("execute-arms:" + key, a and b and prop and c1 and c2 and c3 and same_hdr,
               "%s: branch on %s; completed only on executed edge: %s; cancelled only on the other: %s; both `?`-propagated: %s; "
               "every Ok exit passes the branch and exactly one transition: %s/%s/%s; same header %s: %s" % (
                   key, desc, a, b, prop, c2, c1, c3, hdr[0][-60:], same_hdr), where=fn.where())
        # refund
        ins = [c for c in fn.calls if re.search(r"::transfer_[a-z_]*_in$", c.short) and str(c.arg_expr(0)) == "ctx.accounts"]
        for ci in ins:
            out_name = ci.short[:-3] + "_out"
            outs = [c for c in fn.calls if c.short == out_name and fn.dominates(t_fail, c.bb)]
            n_ref += 1
            r_ok = len(outs) >= 1 and fn.dominates(ci.bb, perf[0].bb) and H.propagated(fn, ci) \
                and all(H.propagated(fn, o) for o in outs) and H.must_pass(fn, t_fail, oks, [o.bb for o in outs])
            ctx.ob("refund:" + key + ":" + ci.short.split("::")[-1], r_ok,
                   "%s moves escrow in with %s before executing; on the not-executed edge every Ok path calls %s (%d site(s)): %s" % (
                       key, ci.short, out_name, len(outs), r_ok), where=ci.where())
    ctx.floor("refund", n_ref, 5)
    # position cut: completed requires executed
    pc = ctx.fn(r"gmsol_store::ops::order::PositionCutOperation::<'_, '_>::execute")
    if pc is not None:
        known.add(pc.id)
        cc = [c for c in pc.calls if c.short == "ActionHeader::completed"]
        cn = [c for c in pc.calls if c.short == "ActionHeader::cancelled"]
        ok = len(cc) == 1 and not cn and H.guarded(pc, cc[0].bb, r"^TransferOut::executed\(PositionCutOperation::execute_order\(self\)\?", True) \
            and H.must_pass(pc, 0, sorted(pc.ok_exit_blocks()), [cc[0].bb]) and H.propagated(pc, cc[0])
        ctx.ob("execute-arms:PositionCutOperation::execute", ok,
               "position cut: completed() only under transfer_out.executed()==true of its own execute_order, on every Ok path; never cancelled: %s" % ok, where=pc.where())
    ko = ctx.fn(r"gmsol_store::instructions::exchange::order::unchecked_cancel_order_if_no_position")
    if ko is not None:
        known.add(ko.id)
        real = [c for c in ko.calls if c.short not in H.TRIV and c.short not in ("DerefMut::deref_mut", "Deref::deref")]
        names = [c.short for c in real]
        ok = names == ["AccountLoader::load_mut", "ActionHeader::cancelled"] and real[1].dest == [0] \
            and str(real[1].arg_expr(0)) == "AccountLoader::load_mut(ctx.accounts.order)?.header"
        ctx.ob("execute-arms:unchecked_cancel_order_if_no_position", ok,
               "keeper cancellation only performs header.cancelled() on ctx.accounts.order and returns its result (calls %s)" % names, where=ko.where())
    extra = sorted(short_path(i) for i in owners if i not in known)
    ctx.ob("execute-arms:enumeration", not extra and len(owners) == 10,
           "functions calling header.completed()/cancelled(): %d, all analysed above; unreviewed: %s" % (len(owners), extra), where=comp.where())
    ctx.floor("execute-arms", len(known), 10)


# ------------------------------------------------------------------------------------------------ soft fail

OPS = [
    (r"gmsol_store::ops::deposit::ExecuteDepositOperation::<'_, '_>::execute", "perform_deposit", "bool"),
    (r"gmsol_store::ops::withdrawal::ExecuteWithdrawalOperation::<'_, '_>::execute", "perform_withdrawal", "option"),
    (r"gmsol_store::ops::shift::ExecuteShiftOperation::<'_, '_>::execute", "perform_shift", "bool"),
    (r"gmsol_store::ops::glv::ExecuteGlvDepositOperation::<'_, '_>::unchecked_execute", "perform_glv_deposit", "bool"),
    (r"gmsol_store::ops::glv::ExecuteGlvWithdrawalOperation::<'_, '_>::unchecked_execute", "perform_glv_withdrawal", "option"),
    (r"gmsol_store::ops::glv::ExecuteGlvShiftOperation::<'_, '_>::unchecked_execute", "perform_glv_shift", "bool"),
]


def _is_ok(v):
    """Edge label of a branch on a Result's discriminant (as rendered by H.path_table) -> True (Ok edge) / False (Err
    edge) / None (not tested). Independent of which variant the `match`/`if let` names explicitly: `0 => ..`,
    `1 => .. else ..` and `otherwise` excluding one of the two variants all denote a definite variant."""
    if v is None:
        return None
    if v is False:          # label 0
        return True
    if v is True:           # label 1, or `otherwise` excluding 0
        return False
    if isinstance(v, tuple) and v[0] == "otherwise":
        rest = {0, 1} - set(v[1])
        if rest == {0}:
            return True
        if rest == {1}:
            return False
    return None


def _soft_fail(ctx, prog):
    n = 0
    for pat, perf, kind in OPS:
        fn = ctx.fn(pat)
        if fn is None:
            continue
        ty = fn.short.split("::")[0]

        def cls(e, p, ty=ty, perf=perf):
            s = str(e)
            if s == "Result::Ok{0: true}" or s == "Result::Ok{0: Option::Some{0: %s::%s(self)@Ok.0}}" % (ty, perf):
                return "executed"
            if s in ("Result::Ok{0: false}", "Result::Ok{0: Option::None{}}"):
                return "not-executed"
            if s.startswith("Result::Err{") or s.startswith("FromResidual::from_residual("):
                return "err"
            return s

        atoms = [("oracle_ok", r"^discr\(%s::validate_oracle\(self\)\)$" % ty),
                 ("perform_ok", r"^discr\(%s::%s\(self\)\)$" % (ty, perf)),
                 ("throw", r"^self\.throw_on_execution_error$")]
        rows = set()
        for vals, res in H.path_table(fn, atoms, cls):
            # discriminants: 0 = Ok, 1 = Err
            o, pf, th = vals
            o, pf = _is_ok(o), _is_ok(pf)
            rows.add(((o, pf, th), res))
        bad = []
        for (o, pf, th), res in rows:
            if res == "executed" and not (o is True and pf is True):
                bad.append("executed without validate_oracle Ok && %s Ok: %s" % (perf, (o, pf, th)))
            if res == "not-executed" and not (th is False and (o is False or pf is False)):
                bad.append("not-executed without (Err edge && !throw_on_execution_error): %s" % ((o, pf, th),))
            if res not in ("executed", "not-executed", "err", "err?"):
                bad.append("unclassified result %s" % H.sx(res, 80))
        have = {r for _, r in rows}
        n += 1
        ctx.ob("soft-fail:" + fn.short, not bad and {"executed", "not-executed"} <= have,
               "%s over (validate_oracle Ok, %s Ok, throw_on_execution_error): %s%s" % (
                   fn.short, perf, H.fmt_rows(rows), "; VIOLATIONS: %s" % bad if bad else ""), where=fn.where(), detail={"rows": H.fmt_rows(rows)})
        # the operation performed is the only place that can commit: perform_* is not called on the oracle-Err edge
        pcs = [c for c in fn.calls if c.short == "%s::%s" % (ty, perf)]
        osw = H.discr_switches(fn, r"^%s::validate_oracle\(self\)$" % ty)
        ok = len(pcs) == 1 and len(osw) == 1 and fn.dominates(H.variant_target(fn, osw[0], 0), pcs[0].bb)
        ctx.ob("soft-fail:%s:perform-after-oracle" % fn.short, ok,
               "%s is called only on the Ok edge of validate_oracle: %s" % (perf, ok), where=fn.where())
    ctx.floor("soft-fail", n, 6)
    # orders
    eo = ctx.fn(r"gmsol_store::ops::order::ExecuteOrderOperation::<'_, '_>::execute")
    if eo is not None:
        ses = [c for c in eo.calls if c.short == "TransferOut::set_executed"]
        PE = r"ExecuteOrderOperation::perform_execution\(self, "
        ok = len(ses) == 1 and A.bool_shape(ses[0].arg_expr(1)) == "true" and re.match("^" + PE + r".*\)@Ok\.0\.1", str(ses[0].arg_expr(0))) is not None \
            and H.discr_guarded(eo, ses[0].bb, "^" + PE, {0})
        nf = [c for c in eo.calls if c.short == "TransferOut::new_failed"]
        ok2 = len(nf) == 1 and H.guarded(eo, nf[0].bb, r"^self\.throw_on_execution_error$", False) \
            and H.discr_guarded(eo, nf[0].bb, r"^ExecuteOrderOperation::validate_oracle\(self\)$", {1})
        ctx.ob("soft-fail:ExecuteOrderOperation::execute", ok and ok2,
               "orders: set_executed(true) only on the Ok payload/edge of perform_execution (%s); new_failed() only on the validate_oracle Err edge with !throw_on_execution_error (%s)" % (ok, ok2),
               where=eo.where())
    T = r"gmsol_store::states::order::TransferOut::"
    ex, nf, se = ctx.fn(T + "executed"), ctx.fn(T + "new_failed"), ctx.fn(T + "set_executed")
    c1, c2 = ctx.const(T + "EXECUTED"), ctx.const(T + "NOT_EXECUTED")
    if None not in (ex, nf, se, c1, c2):
        v1, v2 = str(c1.get("int", c1.get("val"))), str(c2.get("int", c2.get("val")))
        e = [str(x) for _, _, x in ex.exits()]
        a = e in (["(Not(self.executed) Eq TransferOut::NOT_EXECUTED)"], ["(self.executed Eq TransferOut::EXECUTED)"]) and v1 == "255" and v2 == "0"
        nfe = [str(x) for _, x in H.ok_exits(nf)] or [str(x) for _, _, x in nf.exits()]
        b = len(nfe) == 1 and "executed: TransferOut::NOT_EXECUTED" in nfe[0]
        t = A.decision_table(se)
        vals = set()
        for pth in t:
            if not pth["conds"]:
                continue
            for bb, si, st in se.statements():
                if st[0] == "=" and bb in pth["blocks"] and len(st[1]) > 1 and st[1][-1] == ".executed" and st[2][0] == "use":
                    vals.add("%s=%s:%s" % (pth["conds"][0][0], pth["conds"][0][1] != 0, se.expr_on_path(st[2][1], pth["blocks"])))
        vals = sorted(vals)
        c = vals == ["executed=False:TransferOut::NOT_EXECUTED", "executed=True:TransferOut::EXECUTED"]
        ctx.ob("soft-fail:TransferOut:encoding", a and b and c,
               "TransferOut: EXECUTED=%s NOT_EXECUTED=%s (Default = 0 = not executed); executed() = %s; new_failed() = NOT_EXECUTED: %s; set_executed: %s" % (v1, v2, e, b, vals),
               where=ex.where())
