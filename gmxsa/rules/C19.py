"""C19 Privileged instructions reject callers without the required role.

Decided structurally for EVERY instruction of the store, treasury, timelock, liquidity-provider and
competition programs (enumerated from the dispatcher functions `#[program]` generates):

 * role-gated  : the handler's first call is an `Authenticate::*` / `CpiAuthenticate::only` check on
                 `ctx`, propagated with `?`; every other call is reachable only through its Ok edge
                 (must-pass-through on the MIR CFG); the demanded role, resolved through the helper
                 bodies to a `RoleKey`/`roles` constant, equals the tabled role and is the role named by
                 the instruction's own documentation (lib.rs doc comment / `CHECK: only X` comment of the
                 unchecked callee);
 * not gated   : must be listed in tables/C19.json with a class and the structural witness of that
                 class (read-only: no `mut` account; signer-bound: Signer field + binding constraints;
                 handler-gated: an in-handler check dominates every effect; close-delegating:
                 `Close::close`; pda-signer-gated; permissionless-by-design with reason + anchors);
 * every `unchecked_*` handler is reachable only from a role-gated entrypoint (who-may-call);
 * the authorisation primitives themselves return Ok only on the true edge of the role test;
 * no binding constraint (`has_one`, `constraint`, `seeds`, `Signer`, `close`, token authority) recorded
   for an instruction's accounts on the reviewed tree has been removed.
"""
import json
import os
import re

from .. import anchor
from ..accounts import AccountsStruct
from ..model import short_path

PROGS = ["gmsol_store", "gmsol_treasury", "gmsol_timelock", "gmsol_liquidity_provider", "gmsol_competition"]
FLOORS = {"gmsol_store": 132, "gmsol_treasury": 19, "gmsol_timelock": 11, "gmsol_liquidity_provider": 15,
          "gmsol_competition": 7}
GATED_FLOOR = 102
TABLE = os.path.join(os.path.dirname(os.path.dirname(os.path.dirname(os.path.abspath(__file__)))), "tables", "C19.json")


def _role_documented(role, text):
    if role == "<ADMIN>":
        return re.search(r"\badmin\b|\bADMIN\b", text) is not None
    return re.search(r"\b%s\b" % re.escape(role), text) is not None


def _doc_roles(text):
    return set(re.findall(r"\b([A-Z]+(?:_[A-Z]+)*_(?:KEEPER|CONTROLLER|ADMIN|OWNER|WITHDRAWER))\b", text))


def ok_exits_guarded(ctx, key, fn, cond_re, truth=True):
    """Every Ok-constructing exit of `fn` lies under the `truth` edge of a branch whose condition matches cond_re."""
    oks = [(bb, e) for bb, k, e in fn.exits() if k == "ok"]
    unknown = [(bb, e) for bb, k, e in fn.exits() if k == "unknown"]
    good = True
    for bb, e in oks:
        gs = fn.bool_guards(bb)
        hit = [str(c) for c, t in gs if t == truth and re.search(cond_re, str(c))]
        if not hit:
            good = False
            ctx.ob(key, False, "an Ok exit of %s is not guarded by the %s edge of /%s/" % (fn.short, truth, cond_re),
                   where=fn.where(), detail={"exit_bb": bb, "guards": [[str(c), t] for c, t in gs][:6]})
    if good:
        ctx.ob(key, len(oks) > 0, "every Ok exit of %s (%d) lies under the %s edge of /%s/; other exits: %s" % (
            fn.short, len(oks), truth, cond_re, sorted(set(short_path(str(e).split("(")[0]) for _, e in unknown))),
            where=fn.where(), detail={"ok_exits": len(oks)})
    return good, unknown


def run(ctx):
    prog = ctx.prog(PROGS + ["gmsol_utils"])
    table = json.load(open(TABLE))
    ctx.explanation = (
        "Who-may-do-it for every instruction of the five programs: enumerated from the #[program] dispatchers; "
        "role-gated handlers are shown (MIR dominance) to run nothing before the role check and to continue only "
        "on its Ok edge, with the role resolved to a constant and compared with the documented role; all other "
        "instructions must carry the structural witness of their tabled class; unchecked_* handlers are reachable "
        "only from gated entrypoints; the auth primitives return Ok only under a positive role test.")
    ctx.not_decided = ("Correctness of Anchor's generated constraint code and of the runtime's signer/ownership checks; "
                       "the role store's own set semantics (C18). 'Rejection leaves accounts unchanged' relies on "
                       "nothing running before the check (shown) plus transaction atomicity (trusted).")
    ctx.rule("enumerate", "each program's instruction count is at least the count confirmed on the reviewed tree")
    ctx.rule("gate-dominates", "role check is the first call; all other calls only via its Ok edge; Err edge only propagates")
    ctx.rule("gate-role", "resolved role constant == tabled role; documented role (entry docs / callee CHECK comment) names it")
    ctx.rule("classified", "every non-gated instruction is tabled with a class; every tabled instruction exists")
    ctx.rule("witness", "class witness: read_only/no mut account; signer_bound/Signer + anchors; handler_gated/gate dominates; ...")
    ctx.rule("constraint-kept", "no reviewed binding constraint of an instruction's accounts struct was removed")
    ctx.rule("unchecked-callers", "unchecked_* / invoke_unchecked handlers are called only from role-gated entrypoints (after the gate)")
    ctx.rule("auth-primitive", "only_role/only_admin/ensure_has_any_role/CpiAuthenticate::only return Ok only under the positive role test")

    gated_entries = {}
    n_gated = 0
    seen_keys = set()
    for cr in PROGS:
        es = anchor.entrypoints(prog, cr)
        ctx.floor("enumerate:" + cr, len(es), FLOORS[cr])
        for e in es:
            key = cr + "::" + e.name
            seen_keys.add(key)
            ctx.analysed_fns.add(e.user.id)
            gate = anchor.gate_of(e.user)
            if gate is not None:
                n_gated += 1
                gated_entries[e.user.id] = (e, gate)
                _check_gated(ctx, prog, table, key, e, gate)
            else:
                _check_non_gated(ctx, prog, table, key, e)
            _check_constraints(ctx, table, key, e)
    ctx.floor("gated-instructions", n_gated, GATED_FLOOR)
    for k in list(table["gated_roles"]) + list(table["non_gated"]):
        if k not in seen_keys:
            ctx.ob("classified:" + k, False, "tabled instruction no longer exists (table and program disagree)", where=k)

    _check_unchecked_callers(ctx, prog, gated_entries)
    _check_primitives(ctx, prog)
    _check_handover(ctx, prog)


def _check_gated(ctx, prog, table, key, e, gate):
    ok, why, n = anchor.check_gate_dominates(e.user, gate)
    a0 = str(gate.arg_expr(0))
    ctx.ob("gate-dominates:" + key, ok and a0 == "ctx",
           "%s: %s (gate %s on `%s`, %d calls behind it)" % (key, why, gate.short, a0, n),
           where=e.user.where(gate.line), detail={"gate": gate.callee, "calls_after": n})
    try:
        roles = sorted(anchor.role_of_gate(prog, gate))
    except Exception as ex:
        ctx.ob("gate-role:" + key, False, "cannot resolve the role demanded by %s: %s" % (gate.short, ex), where=e.user.where())
        return
    want = table["gated_roles"].get(key)
    if want is None:
        ctx.ob("gate-role:" + key, False, "role-gated instruction is not in the reviewed role table (new instruction?) — "
               "resolved role %s" % roles, where=e.user.where())
        return
    # documentation oracle
    docs = e.user.docs
    callee_docs = ""
    for c in e.user.calls:
        if c is gate or c.short in anchor.TRIVIAL_CALLS:
            continue
        for t in prog.callees(c):
            if re.search(r"(?i)\bonly\b", t.docs or ""):
                callee_docs += t.docs + "\n"
    documented = all(_role_documented(r, docs) or _role_documented(r, callee_docs) for r in roles)
    other_doc_roles = (_doc_roles(callee_docs)) - set(roles)
    # a callee CHECK comment naming only OTHER roles (and not this entrypoint) contradicts the gate
    contradiction = bool(other_doc_roles) and not any(_role_documented(r, callee_docs) for r in roles) \
        and e.name not in callee_docs
    ctx.ob("gate-role:" + key, roles == sorted(want) and not contradiction,
           "%s demands %s; tabled %s; documented=%s%s" % (key, roles, sorted(want), documented,
                                                          "; callee comment names %s instead" % sorted(other_doc_roles) if contradiction else ""),
           where=e.user.where(gate.line), detail={"resolved": roles, "doc_agrees": documented})
    # helper-name agreement: only_<x> <-> RoleKey::<X>
    nm = gate.callee.rsplit("::", 1)[-1]
    if nm.startswith("only_") and nm != "only_admin":
        ctx.ob("gate-helper-name:" + nm, roles == [nm[5:].upper()],
               "auth helper `%s` demands %s (naming agreement only_<x> <-> RoleKey::<X>)" % (nm, roles), where=e.user.where(gate.line))


def _check_non_gated(ctx, prog, table, key, e):
    ent = table["non_gated"].get(key)
    if ent is None:
        ctx.ob("classified:" + key, False,
               "instruction has no role gate and is not in the reviewed table of non-gated instructions "
               "(unclassified-instruction; an access_control attribute removed, or a new instruction)", where=e.user.where())
        return
    ctx.ob("classified:" + key, True, "%s: class %s — %s" % (key, ent["class"], ent["reason"]), where=e.user.where(), nontrivial=False)
    acc = e.accounts()
    if acc is None:
        ctx.ob("witness:" + key, False, "accounts struct of the instruction not found", where=e.user.where())
        return
    facts = set(acc.facts())
    cls = ent["class"]
    missing = [a for a in ent.get("anchors", []) if a not in facts]
    ok = not missing
    msg = ""
    if cls == "read_only":
        muts = [f["name"] for f in acc.fields if acc.is_mut(f)]
        ok = ok and not muts
        msg = "no `mut`/init/close account (found %s)" % muts
    elif cls in ("signer_bound", "pda_signer_gated"):
        s = ent.get("signer")
        ok = ok and s in acc.signers()
        msg = "`%s` is a Signer=%s; anchors %s" % (s, s in acc.signers(), ent.get("anchors"))
    elif cls == "close_delegating":
        first = [c for c in e.user.calls if c.short not in anchor.TRIVIAL_CALLS]
        ok = ok and bool(first) and first[0].short == "Close::close" and ent.get("signer") in acc.signers()
        msg = "first call is Close::close (preprocess decides owner/keeper), signer `%s`" % ent.get("signer")
    elif cls == "handler_gated":
        fn = ctx.fn(ent["fn"])
        if fn is None:
            return
        gates = fn.calls_to(ent["gate"])
        if not gates:
            ok = False
            msg = "in-handler check /%s/ not found in %s" % (ent["gate"], fn.short)
        else:
            g = gates[0]
            g_ok, why, n = anchor.check_gate_dominates(_Lenient(fn), g)
            ok = ok and g_ok
            msg = "in-handler check %s: %s (%d calls behind it)" % (g.rshort, why, n)
    elif cls == "permissionless":
        ok = ok and bool(ent.get("reason"))
        msg = "permissionless by design: %s; anchors %s" % (ent["reason"], ent.get("anchors"))
    else:
        ok = False
        msg = "unknown class %s" % cls
    ctx.ob("witness:" + key, ok, "%s [%s] %s%s" % (key, cls, msg, "; MISSING anchors %s" % missing if missing else ""),
           where="%s:%d" % (acc.adt.file, acc.adt.line), detail={"class": cls, "anchors": ent.get("anchors")})


class _Lenient:
    """View of a Fn in which pure accessors preceding an in-handler gate are ignored."""
    PURE = re.compile(r"(AccountLoader::load|Store::validate_not_restarted|Key::key|ToAccountInfo|roles::timelocked_role|"
                      r"Config::signer|GtExchange::amount|close_gt_exchange_ctx|CpiContext::with_signer|as_seeds|"
                      r"ZeroCopy|Deref|AsRef|String|str::|fmt::|Option::|Result::|msg|sol_log)")

    def __init__(self, fn):
        self._fn = fn

    def __getattr__(self, k):
        return getattr(self._fn, k)

    @property
    def calls(self):
        return [c for c in self._fn.calls if not (self.PURE.search(c.name or "") or self.PURE.search(c.short))]

    def call_in_block(self, bb):
        c = self._fn.call_in_block(bb)
        if c is not None and (self.PURE.search(c.name or "") or self.PURE.search(c.short)):
            return None
        return c


def _check_constraints(ctx, table, key, e):
    acc = e.accounts()
    if acc is None:
        return
    want = table["constraints"].get(acc.adt.id)
    if want is None:
        ctx.ob("constraint-kept:" + short_path(acc.adt.id, 1), False,
               "accounts struct %s is not in the reviewed constraint table" % acc.adt.id, where="%s:%d" % (acc.adt.file, acc.adt.line))
        return
    have = set(acc.facts())
    missing = [w for w in want if w not in have]
    ctx.ob("constraint-kept:%s" % short_path(acc.adt.id, 1), not missing,
           "%s: %d reviewed binding constraints present%s" % (short_path(acc.adt.id, 1), len(want) - len(missing),
                                                              "; REMOVED: %s" % missing if missing else ""),
           where="%s:%d" % (acc.adt.file, acc.adt.line), detail={"reviewed": len(want)}, nontrivial=len(want) > 0)


def _check_unchecked_callers(ctx, prog, gated_entries):
    n = 0
    for f in list(prog.fns.values()):
        if f.crate not in PROGS or "{closure" in f.id:
            continue
        if not (re.match(r"unchecked_", f.name) or re.search(r"invoke(_[a-z]+)?_unchecked$", f.name)):
            continue
        if "::instructions::" not in f.id:
            continue
        n += 1
        callers = prog.callers_of(f.id)
        bad = []
        for cs in callers:
            cf = cs.fn
            if cf.id in gated_entries:
                e, gate = gated_entries[cf.id]
                ts = anchor.try_switch_of(cf, gate)
                if ts and cf.dominates(ts[1], cs.bb):
                    continue
                bad.append("%s (not behind its gate)" % cf.short)
            elif re.match(r"unchecked_", cf.name) or re.search(r"_unchecked$", cf.name):
                continue
            else:
                bad.append(cf.short)
        ctx.ob("unchecked-callers:" + f.short, not bad and len(callers) > 0,
               "%s is called from %d site(s), all role-gated entrypoints or other unchecked handlers%s" % (
                   f.short, len(callers), "; OFFENDING callers: %s" % bad if bad else ""),
               where=f.where(), detail={"callers": sorted(set(c.fn.short for c in callers))[:8]})
    ctx.floor("unchecked-handlers", n, 91)


def _check_primitives(ctx, prog):
    f = ctx.fn(r"authentication::Authentication::only_role")
    if f:
        good, unk = ok_exits_guarded(ctx, "auth-primitive:only_role", f,
                                     r"^Store::has_role\(.*Authentication::store\(self\).*Authentication::authority\(self\)\.key, role\)\?$")
        ctx.ob("auth-primitive:only_role:no-other-exit", not unk, "only_role has no non-Ok/Err exit (%d)" % len(unk), where=f.where())
    f = ctx.fn(r"authentication::Authentication::only_admin")
    if f:
        good, unk = ok_exits_guarded(ctx, "auth-primitive:only_admin", f,
                                     r"^Store::has_admin_role\(.*Authentication::store\(self\).*Authentication::authority\(self\)\.key\)\?$")
        ctx.ob("auth-primitive:only_admin:no-other-exit", not unk, "only_admin has no non-Ok/Err exit (%d)" % len(unk), where=f.where())
    f = ctx.fn(r"authentication::Authentication::ensure_has_any_role")
    if f:
        ok_exits_guarded(ctx, "auth-primitive:ensure_has_any_role", f,
                         r"^Store::has_role\(.*Authentication::authority\(self\)\.key, Iterator::next\(.*roles.*\)@Some\.0\)\?$")
    # forwarding helpers
    for nm, inner in (("only", r"Authentication::only_role"), ("only_admin", r"Authentication::only_admin"),
                      ("ensure_has_any_role_with_ctx", r"Authentication::ensure_has_any_role")):
        f = ctx.fn(r"authentication::Authenticate::%s" % nm)
        if f:
            cs = [c for c in f.calls if c.short not in anchor.TRIVIAL_CALLS]
            ok = len(cs) == 1 and re.search(inner, cs[0].callee or "") and cs[0].dest[0] == 0 \
                and str(cs[0].arg_expr(0)) == "ctx.accounts"
            ctx.ob("auth-primitive:Authenticate::" + nm, bool(ok),
                   "Authenticate::%s forwards to %s on ctx.accounts and returns its result" % (nm, inner), where=f.where())
    f = ctx.fn(r"authentication::Authenticate::ensure_can_update_market_config")
    if f:
        cs = [c for c in f.calls if c.short not in anchor.TRIVIAL_CALLS]
        roles = sorted(set(re.findall(r"RoleKey::([A-Z_]+)", str(cs[0].arg_expr(1))))) if cs else []
        ctx.ob("auth-primitive:ensure_can_update_market_config", roles == ["MARKET_CONFIG_KEEPER", "MARKET_KEEPER"] and cs[0].dest[0] == 0,
               "ensure_can_update_market_config demands exactly %s" % roles, where=f.where())
    # CPI variant
    for nm, cond in (("only", r"^Return::get\(cpi::check_role\(CpiAuthentication::check_role_ctx\(ctx\.accounts\), ToString::to_string\(role\)\)\?\)$"),
                     ("only_admin", r"^Return::get\(cpi::check_admin\(CpiAuthentication::check_role_ctx\(ctx\.accounts\)\)\?\)$")):
        f = ctx.fn(r"gmsol_store::utils::cpi::CpiAuthenticate::%s" % nm)
        if f:
            good, unk = ok_exits_guarded(ctx, "auth-primitive:CpiAuthenticate::" + nm, f, cond)
            bad = [str(e) for _, e in unk if not str(e).startswith("CpiAuthentication::on_error(")]
            ctx.ob("auth-primitive:CpiAuthenticate::%s:else" % nm, not bad,
                   "the negative edge of CpiAuthenticate::%s returns on_error() (%d such exits)" % (nm, len(unk)), where=f.where())
    # on_error impls never return Ok
    impls = [g for g in prog.fns.values() if g.trait_item and g.trait_item.endswith("CpiAuthentication::on_error")]
    for g in impls:
        kinds = sorted(set(k for _, k, _ in g.exits()))
        ctx.ob("auth-primitive:on_error:" + short_path(g.impl["self"], 1) if g.impl else g.short, kinds == ["err"],
               "%s returns only Err (exits: %s)" % (g.short, kinds), where=g.where())
    ctx.floor("on_error-impls", len(impls), 20)
    # authority() of every Authentication / CpiAuthentication impl is a Signer field of the accounts struct
    n = 0
    for g in prog.fns.values():
        if g.trait_item and re.search(r"(Authentication|CpiAuthentication)::authority$", g.trait_item) and g.impl:
            n += 1
            exits = g.exits()
            e = exits[0][2] if len(exits) == 1 else None
            m = re.match(r"^(?:ToAccountInfo::to_account_info\()?self\.([a-z_]+)\)?$", str(e)) if e is not None else None
            adt = prog.adts.get(g.impl.get("self_adt"))
            okk = False
            fld = m.group(1) if m else None
            if adt is not None and fld:
                acc = AccountsStruct(adt)
                okk = fld in acc.signers()
            ctx.ob("auth-primitive:authority:" + short_path(g.impl["self"], 1), okk,
                   "authority() of %s returns field `%s`, which is a Signer: %s" % (short_path(g.impl["self"], 1), fld, okk), where=g.where())
    ctx.floor("authority-impls", n, 98)


# Two-step handovers of the privileged identities: who may write the identity fields, and with which value.
HANDOVER = [
    # (adt regex, field, {writer fn.short: regex the stored value's provenance must match})
    (r"gmsol_store::states::store::Store$", "authority",
     {"Store::init": r"^authority$", "Store::update_authority": r"^self\.next_authority$"}),
    (r"gmsol_store::states::store::Store$", "next_authority",
     {"Store::init": r"^authority$", "Store::set_next_authority": r"^next_authority$"}),
    (r"gmsol_store::states::store::Treasury$", "receiver",
     {"Treasury::init": r"^receiver$", "Treasury::update_receiver": r"^self\.next_receiver$"}),
    (r"gmsol_store::states::store::Treasury$", "next_receiver",
     {"Treasury::init": r"^receiver$", "Treasury::set_next_receiver": r"^next_receiver$"}),
    (r"gmsol_liquidity_provider::GlobalState$", "authority",
     {"gmsol_liquidity_provider::initialize": r"^Key::key\(ctx\.accounts\.authority\)$",
      "gmsol_liquidity_provider::accept_authority": r"^Key::key\(ctx\.accounts\.pending_authority\)$"}),
    (r"gmsol_liquidity_provider::GlobalState$", "pending_authority",
     {"gmsol_liquidity_provider::initialize": r"^Default::default\(\)$",
      "gmsol_liquidity_provider::transfer_authority": r"^new_authority$",
      "gmsol_liquidity_provider::accept_authority": r"^Default::default\(\)$"}),
]


def _check_handover(ctx, prog):
    """A3(a): the admin / receiver / LP-authority identity fields are written only by the tabled functions and only
    with the tabled value (the accepted identity is the nominated one; a completed handover leaves no stale nominee
    that could accept again)."""
    from .. import analyses as A
    ctx.rule("identity-writes", "privileged identity fields (store authority/next_authority, treasury receiver/next_receiver, "
             "LP authority/pending_authority) are written only by the tabled functions, by plain assignment of the tabled value")
    n = 0
    for adt_re, field, writers in HANDOVER:
        ws = A.writers_of_field(prog, adt_re, field)
        seen = set()
        for w in ws:
            n += 1
            fs = w["fn"].short
            key = "identity-writes:%s.%s:%s" % (adt_re.split("::")[-1].rstrip("$"), field, fs)
            want = writers.get(fs)
            if want is None:
                ctx.ob(key, False, "%s writes %s.%s but is not a tabled writer of that identity field (%s)" % (
                    fs, adt_re.split("::")[-1].rstrip("$"), field, w["kind"]), where=w["fn"].where(w["line"]))
                continue
            seen.add(fs)
            okv = w["kind"] == "assign" and w["value"] is not None and re.search(want, str(w["value"])) is not None
            ctx.ob(key, okv, "%s stores `%s` into %s (expected /%s/, by assignment; found %s)" % (
                fs, w["value"], field, want, w["kind"]), where=w["fn"].where(w["line"]))
        for fs in writers:
            if fs not in seen:
                ctx.ob("identity-writes:%s.%s:%s" % (adt_re.split("::")[-1].rstrip("$"), field, fs), False,
                       "tabled writer %s no longer assigns %s (anchor missing)" % (fs, field), where="(anchor)")
    ctx.floor("identity-writes", n, 13)
    # guards of the accepting step: authority != next (a completed handover cannot be replayed)
    for fpat, a, b in ((r"states::store::Store::update_authority", r"self\.authority", r"self\.next_authority"),
                       (r"states::store::Treasury::update_receiver", r"self\.receiver", r"self\.next_receiver")):
        f = ctx.fn(fpat)
        if not f:
            continue
        ws = [w for w in A.field_writes(f, r"^self\.") if w["kind"] == "assign"]
        ok = bool(ws) and all(A.has_fact(A.cmp_facts(f, w["bb"]), "!=", a, b) for w in ws)
        ctx.ob("identity-writes:guard:" + f.short, ok, "%s assigns only under the fact %s != %s" % (f.short, a, b), where=f.where())
