"""C26 Price decimal conversion never rounds up and never silently truncates.

Decided (structural, on the MIR of gmsol-utils):

 * input-guard    : `Decimal::try_from_price` reaches `Ok` only with token_decimals, precision, decimals
                    <= MAX_DECIMALS and token_decimals + precision <= MAX_DECIMALS (dominating branch facts);
 * sub-discharged : every raw `-` (try_from_price, decimal_multiplier_from_precision at each of its call sites,
                    convert_to_u128_storage) is covered by a dominating comparison of the same operands
                    (affine forms, so `20 - (2*td + (20 - td - p))` is recognised as `p - td`);
 * pow-bounded    : every `10u128.pow(e)` in try_from_price has e <= 38 by interval evaluation of the affine
                    form of e under the dominating guards (no tabled exception is needed);
 * small-arith    : the u8 `+`/`<<` stay below 256;
 * value-path     : the u128 price is only multiplied by `checked_mul` whose `None` becomes `Err` through `?`,
                    divided by plain `/` by a `10u128.pow(..)` (floor; no ceil / wrapping / saturating primitive,
                    no other raw u128 arithmetic), never narrowed by `as`, and leaves through
                    `TryInto::<u32>::try_into` + `?`; the stored `decimal_multiplier` is
                    `decimal_multiplier_from_precision(token_decimals, precision)` <= MAX_DECIMAL_MULTIPLIER;
 * round-flag     : `with_unit_price`: `round_up` => `div_ceil`, else `/`, both by `self.multiplier()`, result
                    through `try_into().ok()?`;
 * unit-price     : `to_unit_price` = `value as u128 * 10^decimal_multiplier`; constants keep that product and
                    every power inside u128;
 * caller-args    : every workspace call of try_from_price passes (price, <feed decimals>, TokenConfig::token_decimals,
                    TokenConfig::precision) in this order; `try_to_price` maps min_price->min, max_price->max.
"""
import re

from .. import analyses as A
from ..h_E import LinFn, Lin, TERM, INF, consumed_by_try, in_debug_assert
from ..model import short_path

U128_MAX = 2 ** 128 - 1
POW10_U128_MAX_EXP = 38     # 10^38 < 2^128 <= 10^39


def _sites_sub(ctx, L, label, floor_counter):
    fn = L.fn
    n = 0
    for bb, si, a, b, ty, s in L.sub_sites():
        if in_debug_assert(fn, s[4] if len(s) > 4 else []):
            continue
        S = (bb, si)
        la, lb = L.lin_op(a, S), L.lin_op(b, S)
        n += 1
        if la is None or lb is None:
            ctx.ob("sub-discharged:%s:?" % label, False, "cannot express the operands of a raw `-` in %s" % fn.short,
                   where=fn.where(fn.stmt_line(s)))
            continue
        d = la.sub(lb)
        ok, why = L.nonneg(d, S)
        ctx.ob("sub-discharged:%s:%s" % (label, L.render(d)), ok,
               "raw `-` in %s: (%s) - (%s) = %s >= 0 %s" % (fn.short, L.render(la), L.render(lb), L.render(d),
                                                            "by " + why if ok else "NOT implied; " + why),
               where=fn.where(fn.stmt_line(s)), detail={"type": ty})
    return n


def run(ctx):
    prog = ctx.prog(["gmsol_utils"])
    ctx.explanation = (
        "Decimal::try_from_price / with_unit_price / to_unit_price and the U192 helpers are analysed on MIR: affine "
        "forms of the u8 exponent arithmetic plus dominating comparison facts discharge every raw subtraction, bound "
        "every power-of-ten exponent (<= 38) and the u8 additions; the u128 price flows only through checked_mul (None -> "
        "Err via `?`), plain division by a power of ten (floor) and a checked try_into::<u32>; no rounding-up, "
        "wrapping or saturating primitive and no narrowing cast occurs; with_unit_price rounds up exactly under its "
        "flag; callers pass the decimals arguments in the declared order.")
    ctx.not_decided = (
        "The numeric statement itself — that the result equals the exact price truncated to the configured precision "
        "and is off by less than one step — is not decided (value semantics). `to_unit_price`/`with_unit_price` on a "
        "Decimal whose `decimal_multiplier` did not come from try_from_price (deserialised bytes > 38) would panic in "
        "`pow`; only the invariant at construction is shown. `convert_to_u128_storage`'s `try_into().unwrap()` relies "
        "on the power-bounds table (value argument, not shown).")
    ctx.rule("const-bounds", "MAX_DECIMALS / MAX_DECIMAL_MULTIPLIER keep u32::MAX*10^m, 10^MAX and 2*MAX+m inside their types")
    ctx.rule("input-guard", "Ok of try_from_price implies each decimals input <= MAX_DECIMALS and token_decimals+precision <= MAX_DECIMALS")
    ctx.rule("sub-discharged", "every raw `-` is implied non-negative by a dominating comparison of the same affine operands")
    ctx.rule("pow-bounded", "every 10u128.pow(e) has e <= 38 under the dominating guards")
    ctx.rule("small-arith", "u8 `+` and `<<` results stay <= 255")
    ctx.rule("value-path", "price only through checked_mul->Err, `/ 10^e` (floor), try_into::<u32>?; no ceil/wrapping/saturating/raw u128 arithmetic/narrowing cast")
    ctx.rule("round-flag", "with_unit_price: round_up => div_ceil, else div, same divisor self.multiplier(); overflow -> None")
    ctx.rule("unit-price", "to_unit_price = (value as u128) * 10^decimal_multiplier; multiplier() = 10u128.pow(decimal_multiplier)")
    ctx.rule("caller-args", "callers pass (price, feed decimals, TokenConfig::token_decimals, TokenConfig::precision) in order; min->min, max->max")

    cmax = ctx.const(r"price::decimal::Decimal::MAX_DECIMALS")
    cmul = ctx.const(r"price::decimal::Decimal::MAX_DECIMAL_MULTIPLIER")
    if cmax is None or cmul is None:
        return
    MAXD, MAXM = int(cmax["int"]), int(cmul["int"])
    ctx.ob("const-bounds:unit-price-product", (2 ** 32 - 1) * 10 ** MAXM <= U128_MAX,
           "u32::MAX * 10^MAX_DECIMAL_MULTIPLIER(%d) <= u128::MAX" % MAXM, where="%s:%d" % (cmul["file"], cmul["line"]))
    ctx.ob("const-bounds:pow", MAXD <= POW10_U128_MAX_EXP and MAXM <= POW10_U128_MAX_EXP,
           "10^MAX_DECIMALS(%d) and 10^MAX_DECIMAL_MULTIPLIER(%d) fit u128" % (MAXD, MAXM), where="%s:%d" % (cmax["file"], cmax["line"]))
    ctx.ob("const-bounds:u8-sum", 2 * MAXD + MAXM <= 255, "2*MAX_DECIMALS + MAX_DECIMAL_MULTIPLIER = %d <= u8::MAX" % (2 * MAXD + MAXM),
           where="%s:%d" % (cmax["file"], cmax["line"]))

    f = ctx.fn(r"gmsol_utils::price::decimal::Decimal::try_from_price")
    dm = ctx.fn(r"gmsol_utils::price::decimal::Decimal::decimal_multiplier_from_precision")
    if f is None or dm is None:
        return
    L = LinFn(f, prog)
    if f.arg_count != 4:
        ctx.ob("anchor-missing:try_from_price-signature", False, "try_from_price no longer takes (price, decimals, token_decimals, precision)",
               where=f.where())
        return
    P_DEC, P_TD, P_PREC = 2, 3, 4        # MIR locals of the parameters (by position in the public signature)
    names = {i: f.locals[i][1] or "arg%d" % (i - 1) for i in (P_DEC, P_TD, P_PREC)}

    # ---------------------------------------------------------------- input-guard
    oks = [bb for bb, k, e in f.exits() if k == "ok"]
    n_guard = 0
    for bb in oks:
        S = (bb, 0)
        for i in (P_DEC, P_TD, P_PREC):
            u = L.ub(L.lin_op([i], S), S)
            n_guard += 1
            ctx.ob("input-guard:%s" % names[i], u <= MAXD,
                   "at Ok of try_from_price `%s` <= %s (needs <= MAX_DECIMALS = %d)" % (names[i], u, MAXD), where=f.where())
        s = Lin({}, MAXD).sub(L.lin_op([P_TD], S)).sub(L.lin_op([P_PREC], S))
        ok, why = L.nonneg(s, S)
        n_guard += 1
        ctx.ob("input-guard:%s+%s" % (names[P_TD], names[P_PREC]), ok,
               "at Ok of try_from_price MAX_DECIMALS - %s - %s >= 0 %s" % (names[P_TD], names[P_PREC], "by " + why if ok else "NOT implied: " + why),
               where=f.where())
    ctx.floor("input-guard", n_guard, 4)

    # ---------------------------------------------------------------- sub-discharged
    n_sub = _sites_sub(ctx, L, "try_from_price", None)
    # interprocedural: decimal_multiplier_from_precision's raw subtractions at each call site
    Ld = LinFn(dm, prog, inline=False)
    callers = [cs for g in prog.fns.values() for cs in g.calls
               if cs.callee and short_path(cs.callee) == "Decimal::decimal_multiplier_from_precision"]
    ctx.ob("sub-discharged:decimal_multiplier_from_precision:callers", len(callers) >= 1,
           "decimal_multiplier_from_precision has %d workspace call site(s) in gmsol-utils" % len(callers), where=dm.where(), nontrivial=False)
    for cs in callers:
        Lc = LinFn(cs.fn, prog)
        S = (cs.bb, TERM)
        args = [Lc.lin_op(a, S) for a in cs.args]
        for bb, si, a, b, ty, s in Ld.sub_sites():
            la, lb = Ld.lin_op(a, (bb, si)), Ld.lin_op(b, (bb, si))
            d = la.sub(lb) if la is not None and lb is not None else None
            sub = None
            if d is not None and all(x is not None for x in args):
                sub = Lin({}, d.k)
                for atom, c in d.c.items():
                    m = re.match(r"_(\d+)$", atom)
                    if not m or not (0 < int(m.group(1)) <= dm.arg_count):
                        sub = None
                        break
                    sub = sub.add(args[int(m.group(1)) - 1].scale(c))
            n_sub += 1
            if sub is None:
                ctx.ob("sub-discharged:decimal_multiplier_from_precision@%s:?" % cs.fn.short, False,
                       "cannot express a raw `-` of decimal_multiplier_from_precision over its arguments", where=cs.where())
                continue
            ok, why = Lc.nonneg(sub, S)
            ctx.ob("sub-discharged:decimal_multiplier_from_precision@%s:%s" % (cs.fn.short, Lc.render(sub)), ok,
                   "raw `-` inside decimal_multiplier_from_precision as called from %s: %s >= 0 %s" % (
                       cs.fn.short, Lc.render(sub), "by " + why if ok else "NOT implied; " + why), where=cs.where())
    g = ctx.fn(r"gmsol_utils::price::convert_to_u128_storage")
    if g is not None:
        n_sub += _sites_sub(ctx, LinFn(g, prog), "convert_to_u128_storage", None)
    ctx.floor("sub-discharged", n_sub, 9)

    # ---------------------------------------------------------------- pow-bounded
    pows = [cs for cs in f.calls if re.search(r"::pow$", cs.callee or "")]
    for cs in pows:
        S = (cs.bb, TERM)
        base = L.lin_op(cs.args[0], S)
        e = L.lin_op(cs.args[1], S)
        is_u128 = "u128" in (cs.callee or "")
        if e is None or base is None:
            ctx.ob("pow-bounded:try_from_price:?", False, "cannot express a pow exponent", where=cs.where())
            continue
        u = L.ub(e, S)
        ctx.ob("pow-bounded:try_from_price:%s" % L.render(e), is_u128 and base.is_const() and base.k == 10 and u <= POW10_U128_MAX_EXP,
               "%s(%s, %s): exponent <= %s (10^38 < 2^128)" % (cs.short, L.render(base), L.render(e), u), where=cs.where(),
               detail={"ub": u if u != INF else "inf"})
    ctx.floor("pow-bounded", len(pows), 6)

    # ---------------------------------------------------------------- small-arith
    n_sm = 0
    for bb, si, a, b, ty, s in L.bin_sites(("Add", "Shl", "Mul")):
        if ty == "u128" or in_debug_assert(f, s[4] if len(s) > 4 else []):
            continue
        S = (bb, si)
        r = L.lin_op([s[1][0], ".0"] if s[2][1].endswith("WithOverflow") else s[1], (bb, si + 1))
        la, lb = L.lin_op(a, S), L.lin_op(b, S)
        n_sm += 1
        full = None
        if la is not None and lb is not None:
            op = s[2][1].replace("WithOverflow", "")
            if op == "Add":
                full = la.add(lb)
            elif op == "Shl" and lb.is_const():
                full = la.scale(2 ** lb.k)
            elif op == "Mul" and (la.is_const() or lb.is_const()):
                full = lb.scale(la.k) if la.is_const() else la.scale(lb.k)
        u = L.ub(full, S) if full is not None else INF
        lim = {"u8": 255, "u16": 65535, "u32": 2 ** 32 - 1}.get(ty, 0)
        ctx.ob("small-arith:try_from_price:%s:%s" % (s[2][1].replace("WithOverflow", ""), L.render(full) if full is not None else "?"),
               u <= lim, "%s `%s` of (%s, %s) <= %s (limit %s)" % (ty, s[2][1], L.render(la) if la else "?", L.render(lb) if lb else "?", u, lim),
               where=f.where(f.stmt_line(s)))
    ctx.floor("small-arith", n_sm, 3)

    # ---------------------------------------------------------------- value-path
    ar = [a for a in A.arith_sites(f) if a["ty"] == "u128"]
    bad = [a for a in ar if a["op"] != "Div"]
    ctx.ob("value-path:raw-u128-arith", not bad and len(ar) >= 1,
           "raw u128 arithmetic in try_from_price: %s — only `/` (floor) is allowed%s" % (
               sorted(set(a["op"] for a in ar)), "; OFFENDING %s" % [(a["op"], a["line"]) for a in bad] if bad else ""), where=f.where())
    n_div = 0
    for a in ar:
        if a["op"] != "Div":
            continue
        n_div += 1
        dv = a["b"]
        alts = dv.alts()
        okd = all(x.k == "call" and re.search(r"u128::pow$", x.a[0]) and str(x.a[1][0]) == "10" for x in alts)
        ctx.ob("value-path:divisor-is-pow10", okd, "divisor of a price division is %s" % (str(dv)[:80]), where=f.where(a["line"]))
    ctx.floor("value-path:div", n_div, 3)
    deny = re.compile(r"(div_ceil|next_multiple_of|wrapping_|saturating_|overflowing_|unchecked_|div_euclid|::round|unwrap_or|unwrap_or_default|abs_diff)")
    offenders = [cs.short for cs in f.calls if deny.search(cs.name or "") or deny.search(cs.short)]
    for c in prog.closures_of(f):
        offenders += [cs.short for cs in c.calls if deny.search(cs.name or "")]
    ctx.ob("value-path:no-rounding-or-wrapping-primitive", not offenders,
           "try_from_price calls no ceil/round/wrapping/saturating/defaulting primitive%s" % ("; FOUND %s" % offenders if offenders else ""),
           where=f.where())
    muls = [cs for cs in f.calls if re.search(r"::(checked_mul|mul|wrapping_mul|saturating_mul)$", cs.callee or "")]
    for cs in muls:
        ok, chain = consumed_by_try(f, cs, via=r"(Option::ok_or|Option::ok_or_else)$")
        arg0 = str(cs.arg_expr(0))
        pw = cs.arg_expr(1)
        ok_pow = all(x.k == "call" and re.search(r"u128::pow$", x.a[0]) and str(x.a[1][0]) == "10" for x in pw.alts())
        ctx.ob("value-path:mul-checked", ok and cs.short == "u128::checked_mul" and ok_pow,
               "multiplication of `%s` is %s by a power of ten (%s), consumed as %s" % (arg0[:30], cs.short, ok_pow, " -> ".join(chain)),
               where=cs.where())
    ctx.floor("value-path:mul", len(muls), 3)
    casts = [c for c in A.cast_sites(f) if c["e"].k != "const" and (c["narrowing"] or c["sign_change"])]
    ctx.ob("value-path:no-lossy-cast", not casts, "no narrowing / sign-changing `as` cast in try_from_price%s" % (
        "; FOUND %s" % [(c["from"], c["to"], c["line"]) for c in casts] if casts else ""), where=f.where())
    n_ok = 0
    for bb, k, e in f.exits():
        if k != "ok":
            continue
        n_ok += 1
        val = mul = None
        if e.k == "agg" and e.a[1] and e.a[1][0][1].k == "agg":
            flds = dict(e.a[1][0][1].a[1])
            val, mul = flds.get("value"), flds.get("decimal_multiplier")
        conv = [c for c in (val.walk() if val is not None else []) if c.k == "call" and c.a[0] == "TryInto::try_into"]
        conv_ok = bool(conv) and val.k == "try" and all(re.match(r"\[u128, u32\]", c.a[2].gargs or "") for c in conv)
        ctx.ob("value-path:ok-value-checked-conversion", conv_ok,
               "Ok(Decimal).value is `TryInto::<u32>::try_into(u128)?` (found %s)" % (str(val)[:60] if val is not None else None), where=f.where())
        want = "Decimal::decimal_multiplier_from_precision(%s, %s)" % (names[P_TD], names[P_PREC])
        ctx.ob("value-path:ok-decimal-multiplier", mul is not None and str(mul) == want,
               "Ok(Decimal).decimal_multiplier is %s (want %s)" % (mul, want), where=f.where())
        # representation invariant at construction
        S = (bb, 0)
        ml = None
        for cs in f.calls:
            if short_path(cs.callee or "") == "Decimal::decimal_multiplier_from_precision":
                ml = L.lin_op(cs.dest, (bb, 0))
        u = L.ub(ml, S) if ml is not None else INF
        ctx.ob("value-path:ok-decimal-multiplier-bounded", u <= MAXM,
               "decimal_multiplier at Ok = %s <= %s (MAX_DECIMAL_MULTIPLIER = %d)" % (L.render(ml) if ml is not None else "?", u, MAXM), where=f.where())
    ctx.floor("value-path:ok-exit", n_ok, 1)
    # the callee really computes MAX_DECIMALS - decimals - precision
    r = Ld.lin_op([0], ([i for i, b in enumerate(dm.blocks) if b["t"][0] == "ret"][0], TERM))
    ctx.ob("value-path:decimal_multiplier_from_precision", r is not None and r == Lin({"_1": -1, "_2": -1}, MAXD),
           "decimal_multiplier_from_precision(d, p) = %s (want MAX_DECIMALS - d - p)" % (Ld.render(r) if r is not None else "?"), where=dm.where())

    _with_unit_price(ctx, prog)
    _to_unit_price(ctx, prog)
    _callers(ctx, prog)


def _with_unit_price(ctx, prog):
    f = ctx.fn(r"gmsol_utils::price::decimal::Decimal::with_unit_price")
    if f is None:
        return
    flag = f.locals[3][1] or "round_up"
    if f.locals[3][0] != "bool":
        ctx.ob("anchor-missing:with_unit_price-signature", False, "third parameter of with_unit_price is not the bool round flag", where=f.where())
        return
    ceil = [cs for cs in f.calls if re.search(r"::div_ceil$", cs.callee or "")]
    flo = [cs for cs in f.calls if cs.short == "Div::div" or re.search(r"::(checked_div|div_floor)$", cs.callee or "")]
    raw = [a for a in A.arith_sites(f) if a["op"] == "Div"]

    def under(bb, truth):
        return any(str(c) == flag and t == truth for c, t in f.bool_guards(bb))

    okc = len(ceil) >= 1 and all(under(cs.bb, True) and not under(cs.bb, False) for cs in ceil)
    okf = (len(flo) + len(raw)) >= 1 and all(under(cs.bb, False) for cs in flo) and all(under(a["bb"], False) for a in raw)
    ctx.ob("round-flag:with_unit_price:ceil-under-true", okc, "div_ceil (%d site) only on the true edge of `%s`" % (len(ceil), flag), where=f.where())
    ctx.ob("round-flag:with_unit_price:floor-under-false", okf, "floor division (%d site) only on the false edge of `%s`" % (len(flo) + len(raw), flag), where=f.where())
    args_ok = all(str(cs.arg_expr(0)) == (f.locals[2][1] or "price") and str(cs.arg_expr(1)) == "Decimal::multiplier(self)" for cs in ceil + flo)
    ctx.ob("round-flag:with_unit_price:operands", args_ok and not raw, "both divisions are price / self.multiplier(): %s" % (
        [(cs.short, str(cs.arg_expr(0)), str(cs.arg_expr(1))) for cs in ceil + flo]), where=f.where())
    n = 0
    for bb, k, e in f.exits():
        if k != "ok":
            continue
        n += 1
        flds = dict(e.a[1][0][1].a[1]) if e.k == "agg" and e.a[1] and e.a[1][0][1].k == "agg" else {}
        v, m = flds.get("value"), flds.get("decimal_multiplier")
        conv = [c for c in (v.walk() if v is not None else []) if c.k == "call" and c.a[0] == "TryInto::try_into"]
        ctx.ob("round-flag:with_unit_price:checked-conversion",
               v is not None and v.k == "try" and bool(conv) and all(re.match(r"\[u128, u32\]", c.a[2].gargs or "") for c in conv),
               "Some(Decimal).value is a checked u128->u32 conversion propagated with `?` (%s)" % (str(v)[:70]), where=f.where())
        ctx.ob("round-flag:with_unit_price:keeps-multiplier", m is not None and str(m) == "self.decimal_multiplier",
               "decimal_multiplier is kept (%s)" % m, where=f.where())
    ctx.floor("round-flag:ok-exit", n, 1)
    casts = [c for c in A.cast_sites(f) if c["e"].k != "const" and (c["narrowing"] or c["sign_change"])]
    ctx.ob("round-flag:with_unit_price:no-lossy-cast", not casts, "no narrowing cast in with_unit_price", where=f.where())


def _to_unit_price(ctx, prog):
    f = ctx.fn(r"gmsol_utils::price::decimal::Decimal::to_unit_price")
    m = ctx.fn(r"gmsol_utils::price::decimal::Decimal::multiplier")
    if f is None or m is None:
        return
    ex = m.exits()
    s = str(ex[0][2]) if len(ex) == 1 else ""
    ctx.ob("unit-price:multiplier", s == "u128::pow(10, (self.decimal_multiplier as u32))", "multiplier() = %s" % s, where=m.where())
    ar = A.arith_sites(f)
    ok = len(ar) == 1 and ar[0]["op"] == "Mul" and ar[0]["ty"] == "u128" and \
        sorted([str(ar[0]["a"]), str(ar[0]["b"])]) == sorted(["(self.value as u128)", "Decimal::multiplier(self)"])
    ctx.ob("unit-price:product", ok, "to_unit_price = %s" % ([(a["op"], str(a["a"]), str(a["b"])) for a in ar]), where=f.where())
    ctx.ob("unit-price:no-other-call", all(cs.short in ("Decimal::multiplier",) for cs in f.calls),
           "to_unit_price calls only multiplier(): %s" % [cs.short for cs in f.calls], where=f.where())


def _flows(prog, cs, depth=0):
    """What finally reaches one `Decimal::try_from_price(..)` call: list of (entry_fn, [arg strings]) — the call site's own
    argument provenance, with arguments that are bare parameters of a NON-PUBLIC forwarding helper replaced by what each of
    the helper's callers passes (one level), provided the helper is called on the caller's own `self`."""
    f = cs.fn
    args = [cs.arg_expr(i) for i in range(len(cs.args))]
    pidx = {}
    for i, a in enumerate(args):
        if a.k == "param" and (f.locals[a.a[0] + 1][1] or "") != "self":
            pidx[i] = a.a[0]
    callers = [c for c in prog.callers_of(f.id) if not getattr(c, "is_closure_ref", False)]
    if not pidx or depth > 0 or f.vis.lower().startswith("pub") or not callers:
        return [(f, [str(a) for a in args])]
    out = []
    for c in callers:
        sub = [str(a) for a in args]
        ok_self = True
        for i, pi in pidx.items():
            sub[i] = str(c.arg_expr(pi))
        # `self.x` inside the helper denotes the caller's `self.x` only if the helper runs on the caller's self
        if f.arg_count and (f.locals[1][1] or "") == "self":
            ok_self = str(c.arg_expr(0)) == "self"
        out.append((c.fn, sub if ok_self else ["<helper called on %s>" % c.arg_expr(0)] + sub[1:]))
    return out


def _price_source(prog, e):
    """`Decimal::try_from_price(X, ..)?` or `<non-public helper forwarding its parameter>(.., X, ..)?` -> str(X)"""
    if e is None or e.k != "try":
        return None
    c = e.a[0]
    if c.k != "call" or len(c.a) < 3:
        return None
    cs = c.a[2]
    if short_path(cs.callee or "") == "Decimal::try_from_price":
        return str(c.a[1][0])
    g = prog.fns.get(cs.resolved) or prog.fns.get(cs.callee) or (prog.callees(cs) or [None])[0]
    if g is None or g.vis.lower().startswith("pub"):
        return None
    inner = [x for x in g.calls if short_path(x.callee or "") == "Decimal::try_from_price"]
    ex = g.exits()
    if len(inner) != 1 or len(ex) != 1 or ex[0][2].k != "call" or ex[0][2].a[2] is not inner[0]:
        return None
    a0 = inner[0].arg_expr(0)
    if a0.k != "param":
        return None
    return str(c.a[1][a0.a[0]])


def _callers(ctx, prog):
    sites = [cs for g in prog.fns.values() for cs in g.calls if cs.callee and short_path(cs.callee) == "Decimal::try_from_price"]
    n = 0
    for cs in sites:
        for entry, a in _flows(prog, cs):
            n += 1
            ok = len(a) == 4 and re.match(r"^TokenConfig::token_decimals\(\w+\)$", a[2]) is not None \
                and re.match(r"^TokenConfig::precision\(\w+\)$", a[3]) is not None \
                and not re.search(r"token_decimals|precision", a[1])
            if entry.short.startswith("PriceFeedPrice::"):
                ok = ok and a[1] == "self.decimals" and re.match(r"^self\.(min_price|max_price|price)$", a[0]) is not None
            via = "" if entry is cs.fn else " via %s" % cs.fn.short
            ctx.ob("caller-args:%s:%s" % (entry.short, a[0][:24]), ok,
                   "%s%s passes try_from_price(%s)" % (entry.short, via, ", ".join(x[:60] for x in a)), where=cs.where())
    ctx.floor("caller-args", n, 4)
    for nm in ("token_decimals", "precision"):
        g = ctx.fn(r"gmsol_utils::token_config::TokenConfig::%s" % nm)
        if g is not None:
            ex = g.exits()
            ctx.ob("caller-args:TokenConfig::%s" % nm, len(ex) == 1 and str(ex[0][2]) == "self.%s" % nm,
                   "TokenConfig::%s() returns %s" % (nm, ex[0][2] if ex else None), where=g.where())
    g = ctx.fn(r"gmsol_utils::price::feed_price::PriceFeedPrice::try_to_price")
    if g is not None:
        oks = [e for bb, k, e in g.exits() if k == "ok"]
        good = len(oks) == 1
        srcs = {}
        if good:
            flds = dict(oks[0].a[1][0][1].a[1]) if oks[0].k == "agg" and oks[0].a[1][0][1].k == "agg" else {}
            srcs = {nm: _price_source(prog, flds.get(nm)) for nm in ("min", "max")}
            good = srcs == {"min": "self.min_price", "max": "self.max_price"}
        ctx.ob("caller-args:try_to_price:min-max", good, "try_to_price builds Price{min: <- %s, max: <- %s} (want self.min_price / self.max_price)" % (
            srcs.get("min"), srcs.get("max")), where=g.where())
