"""C24 Only fresh, well-formed, in-band oracle prices are used.

Decided (comparison facts from dominating branch edges, operands identified by provenance; must-pass-through):
 * fresh          : at every Ok exit of `PriceValidator::validate_one`
                    (oracle_ts - timestamp_adjustment(provider)) + max_age >= clock.unix_timestamp   and
                    clock.unix_timestamp (+sat) max_future_timestamp_excess >= oracle_ts;
                    the validator's limits come from Store.amount.oracle_max_age / _max_timestamp_range /
                    _max_future_timestamp_excess and the Clock sysvar.
 * deviation      : when `max_deviation_factor(provider)` is Some and the deviation > 0, no Ok exit is reachable
                    without the pass edges of `dev >= |max - ref|` and `dev >= |min - ref|`; ref is the explicit
                    reference or checked_mid; dev = apply_factor(ref, factor) rounded to the price's decimals.
 * range          : validate_one merges (slot, ts, ts) on every Ok path; merge_range takes min/max; `finish` returns Ok
                    only with max_oracle_timestamp_range >= max_ts - min_ts; set_prices_from_remaining_accounts cannot
                    return Ok without update_oracle_ts_and_slot -> finish.
 * well-formed    : `SmallPrices::from_price` at Ok: equal multipliers, min != 0, max >= min; stored fields are the
                    checked ones.
 * validated-write: `PriceMap::set` is called only from set_prices_from_remaining_accounts, behind the Ok edge of
                    validate_one on the same parsed price, under is_cleared() && primary.is_empty(); no other writer
                    of the price map exists; set_prices callers are tabled.
 * provider       : parse_from_feed_account returns Ok only with expected_provider == provider; the custom feed checks
                    feed_id == feed_config.feed(); Switchboard requires feed_id == account.key(); Pyth receives feed_id;
                    the custom feed's parts are oracle_ts = price.ts() (observation time, not last_published_at),
                    oracle_slot = last_published_at_slot, price/ref_price converted from the stored report, and a
                    report older than the heartbeat reaches no Ok exit.
 * cleared        : in `Oracle::with_prices_opts` every path from the return of set_prices_from_remaining_accounts to
                    the function's return passes `clear_all_prices` (both arms, after the callback); nothing mutates
                    the oracle before; clear_all_prices clears the map and sets the Cleared flag.
 * time-window    : `Oracle::validate_time` cannot return Ok without the three validate_* calls succeeding and
                    max_ts >= min_ts.
"""
import re

from .. import analyses as A
from .. import h_D as H

V = r"gmsol_store::states::oracle::validator::PriceValidator::"
O = r"gmsol_store::states::oracle::Oracle::"

# operands are matched by provenance, tolerant to the error-mapping wrappers around them
ADJ = r".*TokenConfig::timestamp_adjustment\(token_config, provider\).*?"
TS = r"[A-Za-z:_]*\(?i64::checked_sub_unsigned\(oracle_ts, %s\)(, closure<[^>]*>\))?\??" % ADJ
EXPIRY = r"^[A-Za-z:_]*\(?i64::checked_add_unsigned\(%s, self\.max_age\)(, closure<[^>]*>\))?\??$" % TS


def run(ctx):
    prog = ctx.prog(["gmsol_store"])
    ctx.explanation = (
        "Oracle acceptance is decided as guarded-return / guarded-call facts on MIR: the comparison facts that hold at "
        "each Ok exit (from the dominating require_* edges) are matched by operand provenance (oracle_ts parameter, "
        "per-provider timestamp adjustment, validator limits loaded from the Store, Clock sysvar); the deviation and "
        "clearing clauses are must-pass-through statements on the CFG (deleting the pass edge disconnects the Ok exit); "
        "writers of the price map are enumerated on the resolved call graph.")
    ctx.not_decided = (
        "Decimal arithmetic inside with_unit_price / to_unit_price / apply_factor (C26); provider-specific parsing "
        "(Pyth, Switchboard, Chainlink report decoding, C28); market-open policy (C27); that the rounded-up deviation "
        "bound differs from the exact one by less than one price unit; behaviour on panic/unwind inside the callback "
        "(a panic aborts the transaction).")
    for rid, text in (("fresh", "age and future-excess comparison facts hold at every Ok exit of validate_one; limits come from the Store/Clock"),
                      ("deviation", "both deviation comparisons are must-pass for Ok when a factor is configured and the deviation is > 0"),
                      ("range", "timestamps are merged on every Ok path; finish enforces the range; set_prices cannot succeed without finish"),
                      ("well-formed", "SmallPrices::from_price Ok facts: same multiplier, min != 0, max >= min"),
                      ("validated-write", "PriceMap::set only behind validate_one's Ok edge on the same price, on a cleared empty oracle; single writer"),
                      ("provider", "expected provider / feed id equality facts at Ok"),
                      ("cleared", "with_prices_opts clears on every path after prices were (partly) set"),
                      ("time-window", "validate_time must-call of the three window checks")):
        ctx.rule(rid, text)
    _fresh(ctx, prog)
    _deviation(ctx, prog)
    _range(ctx, prog)
    _well_formed(ctx, prog)
    _validated_write(ctx, prog)
    _provider(ctx, prog)
    _cleared(ctx, prog)
    _time_window(ctx, prog)


def _facts_at_ok(fn):
    out = []
    for bb, e in H.ok_exits(fn):
        out.append((bb, H.facts_at(fn, bb)))
    return out


def _has(facts, op, a_re, b_re):
    return A.has_fact(facts, op, a_re, b_re)


def _fresh(ctx, prog):
    f = ctx.fn(V + "validate_one")
    if f is None:
        return
    oks = _facts_at_ok(f)
    a = bool(oks) and all(_has(fs, ">=", EXPIRY, r"^self\.clock\.unix_timestamp$") for _, fs in oks)
    ctx.ob("fresh:max-age", a,
           "at each of %d Ok exit(s): checked_add_unsigned(checked_sub_unsigned(oracle_ts, timestamp_adjustment(token_config, provider)?)?, self.max_age)? >= self.clock.unix_timestamp: %s" % (len(oks), a),
           where=f.where(), detail={"facts": [["%s %s %s" % (H.sx(x, 80), op, H.sx(y, 60)) for op, x, y in fs if y is not None] for _, fs in oks][:2]})
    b = bool(oks) and all(_has(fs, ">=", r"^i64::saturating_add_unsigned\(self\.clock\.unix_timestamp, self\.max_future_timestamp_excess\)$", r"^oracle_ts$") for _, fs in oks)
    ctx.ob("fresh:future-excess", b,
           "at each Ok exit: self.clock.unix_timestamp.saturating_add_unsigned(self.max_future_timestamp_excess) >= oracle_ts: %s" % b, where=f.where())
    tf = ctx.fn(r"<gmsol_store::states::oracle::validator::PriceValidator as std::convert::TryFrom<&'a gmsol_store::states::store::Store>>::try_from")
    if tf is not None:
        oks_ = H.ok_exits(tf)
        ok = len(oks_) == 1
        if ok:
            e = oks_[0][1]
            inner = e.a[1][0][1] if e.k == "agg" else None
            flds = dict(inner.a[1]) if inner is not None and inner.k == "agg" else {}
            want = {"max_age": "config.amount.oracle_max_age", "max_oracle_timestamp_range": "config.amount.oracle_max_timestamp_range",
                    "max_future_timestamp_excess": "config.amount.oracle_max_future_timestamp_excess",
                    "min_oracle_ts": "i64::MAX", "max_oracle_ts": "i64::MIN", "min_oracle_slot": "Option::None{}"}
            got = {k: str(flds.get(k)) for k in want}
            clk = flds.get("clock")
            c = H.call_of_expr(clk.a[0]) if clk is not None and clk.k == "try" else None
            ok = got == want and c is not None and re.search(r"\bClock\b", (c.self_ty or "") + " " + (c.resolved or "")) is not None
            ctx.ob("fresh:validator-config", ok,
                   "PriceValidator::try_from(&Store): %s; clock = %s::get()?" % (got, (c.self_ty or "?").split("::")[-1] if c else "?"), where=tf.where())
        else:
            ctx.ob("fresh:validator-config", False, "PriceValidator::try_from has %d Ok exits" % len(oks_), where=tf.where())
    ctx.floor("fresh", 3, 3)


def _deviation(ctx, prog):
    f = ctx.fn(V + "validate_one")
    if f is None:
        return
    REF = r"phi\(Decimal::to_unit_price\(ref_price@Some\.0\) \| Option::ok_or_else\(Price::checked_mid\(price\), closure<[^>]*>\)\?\)"
    FACTOR = r"Result::map_err\(Result::map_err\(TokenConfig::max_deviation_factor\(token_config, provider\), fn:From::from\), closure<[^>]*>\)\?@Some\.0"
    DEV = r"Option::ok_or_else\(utils::apply_factor\(%s, %s\), closure<[^>]*>\)\?" % (REF, FACTOR)
    pos = H.bool_switches(f, r"^\(%s Gt 0\)$" % DEV)
    oks = sorted(f.ok_exit_blocks())
    if len(pos) != 1:
        ctx.ob("deviation:shape", False, "expected one branch `apply_factor(ref, max_deviation_factor)? > 0`, found %d" % len(pos), where=f.where())
        return
    T = pos[0]["true"]
    ROUNDED = r"Decimal::to_unit_price\(Option::ok_or_else\(Decimal::with_unit_price\(price\.max, %s, (true|false)\), closure<[^>]*>\)\?\)" % DEV
    n = 0
    for side in ("max", "min"):
        cmp_re = r"^\(%s Lt u128::abs_diff\(price\.%s, %s\)\)$" % (ROUNDED, side, REF)
        sws = H.bool_switches(f, cmp_re)
        ok = len(sws) == 1
        msg = "%d comparison(s) `rounded(apply_factor(ref, factor)) < |price.%s - ref|`" % (len(sws), side)
        if ok:
            sw = sws[0]
            r = H.reach_avoiding_edges(f, T, [(sw["bb"], sw["false"])])
            leak = [b for b in oks if b in r]
            errs = [k for bb, k, e in f.exits() if bb in f.reachable_from(sw["true"], avoid_blocks=[T])]
            ok = not leak and f.dominates(T, sw["bb"]) and bool(errs) and set(errs) == {"err"} \
                and not any(b in f.reachable_from(sw["true"]) for b in oks)
            msg += "; Ok exit reachable from the `deviation > 0` edge without its pass edge: %s; the fail edge reaches only Err exits: %s" % (leak, sorted(set(errs)))
            n += 1
        ctx.ob("deviation:" + side, ok, "validate_one: " + msg, where=f.where())
    # only the factor-None edge and the deviation == 0 edge may skip the comparisons
    fsw = H.discr_switches(f, r"^Result::map_err\(Result::map_err\(TokenConfig::max_deviation_factor\(token_config, provider\), fn:From::from\), closure<[^>]*>\)\?$")
    ok = len(fsw) == 1
    if ok:
        some_t = H.variant_target(f, fsw[0], 1)
        r = H.reach_avoiding_edges(f, some_t, [(pos[0]["bb"], pos[0]["true"]), (pos[0]["bb"], pos[0]["false"])])
        ok = not any(b in r for b in oks)
    ctx.ob("deviation:configured-implies-checked", ok,
           "with a configured factor the Ok exit is reachable only through the `deviation > 0` test: %s" % ok, where=f.where())
    ctx.floor("deviation", n + 1, 3)


def _range(ctx, prog):
    f = ctx.fn(V + "validate_one")
    mr = ctx.fn(V + "merge_range")
    fin = ctx.fn(V + "finish")
    sp = ctx.fn(O + "set_prices_from_remaining_accounts")
    up = ctx.fn(O + "update_oracle_ts_and_slot")
    if None in (f, mr, fin, sp, up):
        return
    ms = [c for c in f.calls if c.short == "PriceValidator::merge_range"]
    ok = len(ms) == 1
    if ok:
        c = ms[0]
        args = [str(c.arg_expr(i)) for i in range(4)]
        ok = args[0] == "self" and args[1] == "Option::Some{0: oracle_slot}" and re.match("^" + TS + "$", args[2]) is not None and args[2] == args[3] \
            and H.must_pass(f, 0, sorted(f.ok_exit_blocks()), [c.bb])
    ctx.ob("range:validate_one-merges", ok,
           "validate_one calls merge_range(Some(oracle_slot), ts, ts) with ts = oracle_ts - timestamp_adjustment on every Ok path: %s" % ok, where=f.where())
    ok_min, d_min = H.extremum_update(mr, "self.min_oracle_ts", "min_oracle_ts", "min")
    ok_max, d_max = H.extremum_update(mr, "self.max_oracle_ts", "max_oracle_ts", "max")
    ctx.ob("range:merge_range", ok_min and ok_max,
           "merge_range leaves min_oracle_ts = min(old, arg) on every path [%s] and max_oracle_ts = max(old, arg) [%s] "
           "(std min/max call or the equivalent compare-and-assign)" % (d_min, d_max), where=mr.where())
    RANGE = r"^Result::map_err\(TryInto::try_into\(Option::ok_or_else\(i64::checked_sub\(self\.max_oracle_ts, self\.min_oracle_ts\), closure<[^>]*>\)\?\), closure<[^>]*>\)\?$"
    oks = _facts_at_ok(fin)
    ok = bool(oks) and all(_has(fs, ">=", r"^self\.max_oracle_timestamp_range$", RANGE) for _, fs in oks)
    ctx.ob("range:finish", ok, "at each Ok exit of finish: self.max_oracle_timestamp_range >= u64::try_from(max_oracle_ts - min_oracle_ts)?: %s" % ok, where=fin.where())
    fs_ = [c for c in up.calls if c.short == "PriceValidator::finish"]
    mg = [c for c in up.calls if c.short == "PriceValidator::merge_range"]
    ok = len(fs_) == 1 and len(mg) == 1 and H.propagated(up, fs_[0]) and H.must_pass(up, 0, sorted(up.ok_exit_blocks()), [H.ok_edge(up, fs_[0])]) \
        and up.dominates(mg[0].bb, fs_[0].bb) and [str(mg[0].arg_expr(i)) for i in range(4)] == ["validator", "Oracle::min_oracle_slot(self)", "self.min_oracle_ts", "self.max_oracle_ts"]
    st = {w["path"]: str(w["rv"]) for w in H.state_stores(up)}
    ok2 = st.get("self.min_oracle_ts") == "PriceValidator::finish(validator)?@Some.0.1" and st.get("self.max_oracle_ts") == "PriceValidator::finish(validator)?@Some.0.2" \
        and st.get("self.min_oracle_slot") == "PriceValidator::finish(validator)?@Some.0.0"
    ctx.ob("range:update_oracle_ts_and_slot", ok and ok2,
           "update_oracle_ts_and_slot merges the oracle's current range, cannot return Ok without finish()? succeeding (%s) and stores finish's (slot, min_ts, max_ts) (%s)" % (ok, ok2), where=up.where())
    us = [c for c in sp.calls if c.short == "Oracle::update_oracle_ts_and_slot"]
    ok = len(us) == 1 and H.propagated(sp, us[0]) and H.must_pass(sp, 0, sorted(sp.ok_exit_blocks()), [H.ok_edge(sp, us[0])]) \
        and [str(us[0].arg_expr(i)) for i in range(2)] == ["self", "validator"]
    ctx.ob("range:set_prices-finishes", ok, "set_prices_from_remaining_accounts returns Ok only through update_oracle_ts_and_slot(self, validator)?: %s" % ok, where=sp.where())
    ctx.floor("range", 5, 5)


def _well_formed(ctx, prog):
    f = ctx.fn(r"gmsol_store::states::oracle::price_map::SmallPrices::from_price")
    if f is None:
        return
    oks = _facts_at_ok(f)
    a = bool(oks) and all(_has(fs, "==", r"^price\.min\.decimal_multiplier$", r"^price\.max\.decimal_multiplier$") for _, fs in oks)
    b = bool(oks) and all(_has(fs, "!=", r"^price\.min\.value$", r"^0$") for _, fs in oks)
    c = bool(oks) and all(_has(fs, ">=", r"^price\.max\.value$", r"^price\.min\.value$") for _, fs in oks)
    ctx.ob("well-formed:same-multiplier", a, "from_price Ok => price.min.decimal_multiplier == price.max.decimal_multiplier: %s" % a, where=f.where())
    ctx.ob("well-formed:min-nonzero", b, "from_price Ok => price.min.value != 0: %s" % b, where=f.where())
    ctx.ob("well-formed:max-ge-min", c, "from_price Ok => price.max.value >= price.min.value: %s" % c, where=f.where())
    vals = [str(e) for _, e in H.ok_exits(f)]
    d = len(vals) == 1 and re.match(r"^Result::Ok\{0: SmallPrices\{decimal_multiplier: price\.(min|max)\.decimal_multiplier, flags: .*, min: price\.min\.value, max: price\.max\.value\}\}$", vals[0]) is not None
    ctx.ob("well-formed:stored-fields", d, "from_price stores the checked fields (min <- price.min.value, max <- price.max.value): %s" % [H.sx(v, 200) for v in vals], where=f.where())
    st = ctx.fn(r"gmsol_store::states::oracle::price_map::PriceMap::set")
    if st is not None:
        fp = [c for c in st.calls if c.short == "SmallPrices::from_price"]
        ins = [c for c in st.calls if c.short == "PriceMap::insert"]
        ok = len(fp) == 1 and len(ins) == 1 and H.propagated(st, fp[0]) and st.dominates(H.ok_edge(st, fp[0]), ins[0].bb) \
            and [str(fp[0].arg_expr(i)) for i in range(3)] == ["price", "is_synthetic", "is_open"] \
            and [str(ins[0].arg_expr(i)) for i in range(3)] == ["self", "token", "SmallPrices::from_price(price, is_synthetic, is_open)?"]
        ctx.ob("well-formed:PriceMap::set", ok, "PriceMap::set inserts (token, from_price(price, is_synthetic, is_open)?) only behind from_price's Ok edge: %s" % ok, where=st.where())
    ctx.floor("well-formed", 5, 5)


def _validated_write(ctx, prog):
    sp = ctx.fn(O + "set_prices_from_remaining_accounts")
    if sp is None:
        return
    sets = [c for c in sp.calls if c.short == "PriceMap::set"]
    vals = [c for c in sp.calls if c.short == "PriceValidator::validate_one"]
    prs = [c for c in sp.calls if c.short == "OraclePrice::parse_from_feed_account"]
    if len(sets) != 1 or len(vals) != 1 or len(prs) != 1:
        ctx.ob("validated-write:shape", False, "expected one PriceMap::set / validate_one / parse_from_feed_account call, found %d/%d/%d" % (len(sets), len(vals), len(prs)), where=sp.where())
        return
    s, v, p = sets[0], vals[0], prs[0]
    PARSED = str(sp._call_expr(p, 0, ())) + "?"
    a = H.propagated(sp, v) and sp.dominates(H.ok_edge(sp, v), s.bb) and H.propagated(sp, p) and sp.dominates(H.ok_edge(sp, p), v.bb)
    vargs = [str(v.arg_expr(i)) for i in range(len(v.args))]
    sargs = [str(s.arg_expr(i)) for i in range(len(s.args))]
    b = vargs[0] == "validator" and vargs[2] == PARSED + ".provider" and vargs[3] == PARSED + ".parts.oracle_ts" and vargs[4] == PARSED + ".parts.oracle_slot" \
        and vargs[5] == PARSED + ".parts.price" and vargs[6] == "Option::as_ref(%s.parts.ref_price)" % PARSED
    tc = vargs[1]
    c = sargs[0] == "self.primary" and sargs[2] == PARSED + ".parts.price" and sargs[3] == "TokenConfig::is_synthetic(%s)" % tc and sargs[4] == PARSED + ".parts.is_open" \
        and str(p.arg_expr(1)) == tc and re.search(r"TokenMapAccess::get\(map, %s\)" % re.escape(sargs[1]), tc) is not None
    ctx.ob("validated-write:dominated", a and b and c,
           "PriceMap::set(primary, token, parsed.price, ..) is reachable only through the Ok edges of parse_from_feed_account and validate_one (%s); validate_one checks the same "
           "parsed provider/ts/slot/price/ref_price (%s); the token config is the one of the stored token (%s)" % (a, b, c), where=s.where())
    facts = A.cmp_facts(sp, s.bb)
    d = A.has_bool_fact(facts, True, r"^Oracle::is_cleared\(self\)$") and A.has_bool_fact(facts, True, r"^PriceMap::is_empty\(self\.primary\)$")
    en = A.has_bool_fact(facts, True, r"^TokenConfig::is_enabled\(")
    ctx.ob("validated-write:on-cleared-oracle", d and en, "at the set call: is_cleared(self) && primary.is_empty() hold (%s); token_config.is_enabled() holds (%s)" % (d, en), where=s.where())
    n = 0
    P = r"gmsol_store::states::oracle::price_map::PriceMap::"
    for nm, allowed in (("set", O + "set_prices_from_remaining_accounts$"), ("insert", P + "set$"), ("insert_with_options", P + "insert$"),
                        ("clear", O + "clear_all_prices$"), ("remove", "^$"), ("get_mut", "^$"), ("entries_mut", "^$")):
        g = ctx.fn(P + nm)
        if g is None:
            continue
        cs, bad = H.callers_within(prog, g, allowed)
        n += 1
        ctx.ob("validated-write:callers:PriceMap::" + nm, not bad and (len(cs) >= 1 or allowed == "^$"),
               "PriceMap::%s callers: %s; offenders: %s" % (nm, sorted(set(c.fn.short for c in cs)), [c.fn.short for c in bad]), where=g.where())
    cs, bad = H.callers_within(prog, sp, O + r"with_prices_opts$|gmsol_store::instructions::oracle::unchecked_set_prices_from_price_feed$")
    ctx.ob("validated-write:callers:set_prices_from_remaining_accounts", not bad and len(cs) >= 1,
           "set_prices_from_remaining_accounts callers: %s; offenders %s" % (sorted(set(c.fn.short for c in cs)), [c.fn.short for c in bad]), where=sp.where())
    # direct borrows of `.primary` as mutable elsewhere
    offenders = []

    def _oracle_primary(g, pl):
        return ".primary" in [x for x in pl[1:] if isinstance(x, str)] and re.search(r"states::oracle::Oracle\b", g.locals[pl[0]][0]) is not None

    for g in prog.fns.values():
        if g.crate != "gmsol_store":
            continue
        for bb, si, st in g.statements():
            if st[0] == "=" and st[2][0] in ("ref", "rawptr") and st[2][1] in ("mut", "Mut") and _oracle_primary(g, st[2][2]):
                if g.id not in (O.replace("\\", "") + "set_prices_from_remaining_accounts", O.replace("\\", "") + "clear_all_prices"):
                    offenders.append(g.short)
            if st[0] == "=" and len(st[1]) > 1 and _oracle_primary(g, st[1]):
                offenders.append(g.short)
    ctx.ob("validated-write:primary-borrowers", not offenders, "`&mut .primary` is taken only in set_prices_from_remaining_accounts / clear_all_prices; offenders: %s" % sorted(set(offenders)), where=sp.where())
    ctx.floor("validated-write", n + 4, 11)


def _provider(ctx, prog):
    pf = ctx.fn(r"gmsol_store::states::oracle::OraclePrice::parse_from_feed_account")
    cg = ctx.fn(r"gmsol_store::states::oracle::feed::PriceFeed::check_and_get_price")
    if pf is None or cg is None:
        return
    EXP = r"^Result::map_err\(TokenConfig::expected_provider\(token_config\), fn:From::from\)\?$"
    oks = _facts_at_ok(pf)
    PROV = r"^phi\(PriceFeed::provider\(AccountLoader::load\(AccountLoader::try_from\(account\)\?\)\?\)\? \| oracle::from_program_id\(account\.owner\)@Some\.0\)$"
    a = bool(oks) and all(_has(fs, "==", EXP, PROV) for _, fs in oks)
    vals = [str(e) for _, e in H.ok_exits(pf)]
    a2 = len(vals) == 1 and re.match(r"^Result::Ok\{0: OraclePrice\{provider: " + PROV[1:-1] + ", parts: ", vals[0]) is not None
    ctx.ob("provider:expected", a and a2, "parse_from_feed_account Ok => token_config.expected_provider()? == provider (fact %s), and that provider is the one returned (%s)" % (a, a2), where=pf.where())
    # custom feed: the program-owned account arm
    cgc = [c for c in pf.calls if c.short == "PriceFeed::check_and_get_price"]
    b = len(cgc) == 1 and H.propagated(pf, cgc[0]) and [str(cgc[0].arg_expr(i)) for i in range(1, 4)] == ["clock", "token_config", "allow_closed"]
    oks2 = _facts_at_ok(cg)
    FEED = r"^FeedConfig::feed\(Result::map_err\(TokenConfig::get_feed_config\(token_config, PriceFeed::provider\(self\)\?\), fn:From::from\)\?\)$"
    c = bool(oks2) and all(_has(fs, "==", r"^self\.feed_id$", FEED) and _has(fs, "==", EXP, r"^PriceFeed::provider\(self\)\?$") for _, fs in oks2)
    ctx.ob("provider:custom-feed-id", b and c,
           "custom feed arm goes through PriceFeed::check_and_get_price(clock, token_config, allow_closed)? (%s), whose Ok exits have self.feed_id == feed_config(provider).feed() and expected_provider == provider (%s)" % (b, c),
           where=cg.where())
    # the timestamp/slot/price handed to validation by the custom feed are the stored report's own
    # (observation time `price.ts()`, not the posting time `last_published_at`)
    vals_ = [e for _, e in H.ok_exits(cg)]
    parts = {}
    if len(vals_) == 1 and vals_[0].k == "agg" and vals_[0].a[1] and vals_[0].a[1][0][1].k == "agg":
        parts = {k: str(v) for k, v in vals_[0].a[1][0][1].a[1]}
    want_parts = {"oracle_ts": "PriceFeedPrice::ts(self.price)", "oracle_slot": "PriceFeed::last_published_at_slot(self)",
                  "price": "PriceFeed::try_to_price(self, token_config)?", "ref_price": "Option::Some{0: PriceFeed::try_to_ref_price(self, token_config)?}"}
    got_parts = {k: parts.get(k) for k in want_parts}
    hb = H.bool_switches(cg, r"^\(\(?clock\.unix_timestamp Sub[A-Za-z]* PriceFeedPrice::ts\(self\.price\)\)?(\.0)? Gt .*TokenConfig::heartbeat_duration\(token_config\).*\)$")
    oks_cg = sorted(cg.ok_exit_blocks())
    hb_ok = len(hb) == 1 and not any(b in cg.reachable_from(hb[0]["true"]) for b in oks_cg)
    ctx.ob("provider:custom-feed-parts", got_parts == want_parts and hb_ok,
           "PriceFeed::check_and_get_price returns oracle_ts = self.price.ts() (the report's observation time, not last_published_at), oracle_slot = last_published_at_slot(), "
           "price/ref_price converted from the stored report: %s; stale (now - price.ts() > heartbeat) reaches no Ok exit: %s" % (got_parts, hb_ok), where=cg.where())
    slot_f = ctx.fn(r"gmsol_store::states::oracle::feed::PriceFeed::last_published_at_slot")
    if slot_f is not None:
        ex_ = [str(e) for _, _, e in slot_f.exits()]
        ctx.ob("provider:custom-feed-slot", ex_ == ["self.last_published_at_slot"], "last_published_at_slot() returns the field: %s" % ex_, where=slot_f.where())
    pv = [str(e) for _, e in H.ok_exits(pf)]
    thr = len(pv) == 1 and "Option::Some{0: PriceFeed::check_and_get_price(AccountLoader::load(AccountLoader::try_from(account)?)?, clock, token_config, allow_closed)?}" in pv[0]
    ctx.ob("provider:custom-feed-threaded", thr, "parse_from_feed_account's parts for the custom arm are check_and_get_price's result: %s" % thr, where=pf.where())
    sb = [c_ for c_ in pf.calls if c_.short == "Switchboard::check_and_get_price"]
    FID = r"^FeedConfig::feed\(Result::map_err\(TokenConfig::get_feed_config\(token_config, .*\), fn:From::from\)\?\)$"
    d = len(sb) == 1 and _has(A.cmp_facts(pf, sb[0].bb), "==", FID, r"^Key::key\(account\)$")
    py = [c_ for c_ in pf.calls if c_.short == "Pyth::check_and_get_price"]
    e = len(py) == 1 and re.match(FID, str(py[0].arg_expr(3))) is not None and str(py[0].arg_expr(2)) == "account"
    ctx.ob("provider:switchboard-feed-id", d, "Switchboard arm: feed_id == account.key() holds at the call: %s" % d, where=pf.where())
    ctx.ob("provider:pyth-feed-id", e, "Pyth arm: check_and_get_price receives the configured feed_id and the account: %s" % e, where=pf.where())
    ctx.floor("provider", 7, 7)


def _cleared(ctx, prog):
    w = ctx.fn(O + "with_prices_opts")
    cl = ctx.fn(O + "clear_all_prices")
    if w is None or cl is None:
        return
    sp = [c for c in w.calls if c.short == "Oracle::set_prices_from_remaining_accounts"]
    cls = [c for c in w.calls if c.short == "Oracle::clear_all_prices"]
    cb = [c for c in w.calls if c.short == "FnOnce::call_once" and str(c.arg_expr(0)) == "f"]
    if len(sp) != 1 or len(cb) != 1 or not cls:
        ctx.ob("cleared:shape", False, "expected one set_prices call, one callback call and clear_all_prices calls; found %d/%d/%d" % (len(sp), len(cb), len(cls)), where=w.where())
        return
    s, k = sp[0], cb[0]
    rets = H.ret_blocks(w)
    a = H.must_pass(w, s.target, rets, [c.bb for c in cls]) and all(str(c.arg_expr(0)) == "self" for c in cls) and str(s.arg_expr(0)) == "self"
    ctx.ob("cleared:always", a, "from the return of set_prices_from_remaining_accounts every path to the function's return passes clear_all_prices(self) (%d sites): %s" % (len(cls), a), where=w.where())
    after_cb = [c.bb for c in cls if c.bb in w.reachable_from(k.target)]
    b = bool(after_cb) and H.must_pass(w, k.target, rets, after_cb)
    ctx.ob("cleared:after-callback", b, "every path from the callback's return to the function's return passes a clear_all_prices call: %s" % b, where=w.where())
    c_ = H.discr_guarded(w, k.bb, r"^Oracle::set_prices_from_remaining_accounts\(self, ", {0})
    ctx.ob("cleared:callback-on-ok", c_, "the callback runs only on the Ok edge of set_prices_from_remaining_accounts: %s" % c_, where=w.where())
    ms = [m for m in H.mutations(w, r"^self\b|\bself\b") if m["kind"] == "call" and re.search(r"\(&mut self", m["desc"])]
    early = [m["desc"] for m in ms if not (m["cs"] is s or w.dominates(s.bb, m["bb"]))]
    ctx.ob("cleared:nothing-before", not early and len(ms) >= 2 and any(m["cs"] is s for m in ms), "no call mutates the oracle before set_prices_from_remaining_accounts (early exits precede any price write): %s" % early, where=w.where())
    pcs = [c for c in cl.calls if c.short == "PriceMap::clear" and str(c.arg_expr(0)) == "self.primary"]
    fl = [c for c in cl.calls if c.short == "OracleFlagContainer::set_flag" and [str(c.arg_expr(i)) for i in range(3)] == ["self.flags", "OracleFlag::Cleared{}", "true"]]
    d = len(pcs) == 1 and len(fl) == 1 and not cl.err_exit_blocks()
    ctx.ob("cleared:clear_all_prices", d, "clear_all_prices clears self.primary and sets the Cleared flag, infallibly: %s" % d, where=cl.where())
    ic = ctx.fn(O + "is_cleared")
    if ic is not None:
        ex = [str(e) for _, _, e in ic.exits()]
        ctx.ob("cleared:is_cleared", ex == ["OracleFlagContainer::get_flag(self.flags, OracleFlag::Cleared{})"], "is_cleared reads the same flag: %s" % ex, where=ic.where())
    wp = ctx.fn(O + "with_prices")
    if wp is not None:
        real = [c for c in wp.calls if c.short not in H.TRIV]
        ok = len(real) == 1 and real[0].short == "Oracle::with_prices_opts" and real[0].dest == [0]
        ctx.ob("cleared:with_prices", ok, "with_prices forwards to with_prices_opts and returns its result: %s" % ok, where=wp.where())
    ctx.floor("cleared", 7, 7)


def _time_window(ctx, prog):
    vt = ctx.fn(O + "validate_time")
    if vt is None:
        return
    oks = sorted(vt.ok_exit_blocks())
    n = 0
    allok = True
    for nm in ("validate_min_oracle_slot", "validate_min_oracle_ts", "validate_max_oracle_ts"):
        cs = [c for c in vt.calls if c.short == "ValidateOracleTimeExt::" + nm]
        ok = len(cs) == 1 and H.propagated(vt, cs[0]) and H.must_pass(vt, 0, oks, [H.ok_edge(vt, cs[0])]) \
            and [str(cs[0].arg_expr(i)) for i in range(2)] == ["target", "self"]
        allok = allok and ok
        n += 1
        ctx.ob("time-window:validate_time:" + nm, ok, "validate_time returns Ok only through %s(target, self)?: %s" % (nm, ok), where=vt.where())
    fs = _facts_at_ok(vt)
    ok = bool(fs) and all(_has(f_, ">=", r"^self\.max_oracle_ts$", r"^self\.min_oracle_ts$") for _, f_ in fs)
    ctx.ob("time-window:validate_time:range-sane", ok, "validate_time Ok => self.max_oracle_ts >= self.min_oracle_ts: %s" % ok, where=vt.where())
    T = r"gmsol_store::states::oracle::time::ValidateOracleTimeExt::"
    # violating relation per check: Ok must be unreachable on the edge where it holds, and — once the bound is present —
    # reachable only through the edge where it does not hold
    for nm, getter, a_re, b_re in (("validate_min_oracle_ts", "oracle_updated_after", r"^oracle\.min_oracle_ts$", r"^ValidateOracleTime::oracle_updated_after\(self\)\?@Some\.0$"),
                                   ("validate_max_oracle_ts", "oracle_updated_before", r"^ValidateOracleTime::oracle_updated_before\(self\)\?@Some\.0$", r"^oracle\.max_oracle_ts$"),
                                   ("validate_min_oracle_slot", "oracle_updated_after_slot", r"^Oracle::min_oracle_slot\(oracle\)@Some\.0$", r"^ValidateOracleTime::oracle_updated_after_slot\(self\)\?@Some\.0$")):
        g = ctx.fn(T + nm)
        if g is None:
            continue
        oks_g = sorted(g.ok_exit_blocks())
        viol = H.cmp_switches(g, "<", a_re, b_re)          # `a < b` is the violation in all three checks
        bound = H.discr_switches(g, r"^ValidateOracleTime::%s\(self\)\?$" % getter)
        good = len(viol) == 1 and len(bound) >= 1 and bool(oks_g)
        if good:
            v = viol[0]
            good = not any(b_ in g.reachable_from(v["holds"]) for b_ in oks_g) and v["holds"] != v["fails"]
            for sw in bound:
                some_t = H.variant_target(g, sw, 1)
                r = H.reach_avoiding_edges(g, some_t, [(v["bb"], v["fails"])])
                # with the bound present, Ok needs the comparison's pass edge (a `Some(_)` arm shared with `None` is fine:
                # it is entered from the Some edge only through the failed guard, i.e. the pass edge)
                good = good and not any(b_ in r for b_ in oks_g) and v["bb"] in g.reachable_from(some_t)
        n += 1
        ctx.ob("time-window:" + nm, good,
               "%s: with a bound present Ok is reachable only through the edge where NOT(%s < %s) and never from the edge where it holds (%d comparison(s), %d bound test(s)): %s" % (
                   nm, a_re, b_re, len(viol), len(bound), good), where=g.where())
    ctx.floor("time-window", n + 1, 7)
