"""C18 Role membership behaves like a set of grants gated by enabled roles.

Decided (structural, necessary conditions):
 * index-source   : `RoleStore::has_role` and `grant` test/set the member bitmap at the index returned by
                    `enabled_role_index(self, role)`; `revoke` at `role_index(self, role)`; the bitmap is the one
                    stored for `authority`; grant sets `true`, revoke sets `false`.
 * index-lookup   : `enabled_role_index` returns `Some(metadata.index)` only under `metadata.is_enabled()`;
                    `role_index` returns the same field; both look the role up by name in `self.roles`.
 * guard-write    : grant's store is under `!bitmap.get(index)`, revoke's under `bitmap.get(index)`;
                    `RoleMetadata::enable` / `disable` flip the flag only under the opposite `is_enabled()`;
                    set_enable / set_disable / is_enabled agree on ROLE_ENABLED.
 * atomic         : no fallible exit behind a state mutation in enable_role / disable_role / grant / revoke
                    / RoleMetadata::enable / disable (fail without side effects).
 * last-role      : in `revoke`, `members.remove(authority)` runs exactly on the `bitmap.is_empty()` edge.
 * index-unique   : a new role's index is `roles.len()`, it is inserted with `new = true`, and nothing removes or
                    clears roles (so indices are never reused).
 * restart-table  : finite-case tables of `Store::has_role` and `Store::has_admin_role` over
                    {restarted} x {RESTART_ADMIN held} resp. {is_authority} x {restarted}; `has_restarted` compares
                    the stored slot with the LastRestartSlot sysvar; `is_authority` compares `self.authority`.
 * who-may-call   : `RoleStore::has_role` is consulted only through `Store::has_role` / `has_admin_role` (no bypass
                    of the restart rule); `Store::{grant,revoke,enable_role,disable_role}` forward their arguments.
"""
import re

from .. import analyses as A
from .. import h_D as H

RS = r"gmsol_store::states::roles::RoleStore::"
RM = r"gmsol_store::states::roles::RoleMetadata::"
ST = r"gmsol_store::states::store::Store::"


def run(ctx):
    prog = ctx.prog(["gmsol_store"])
    ctx.explanation = (
        "The role store's operations are decided on the MIR of the nine functions that implement them: which index "
        "function feeds each bitmap test/set (argument provenance), which branch edge every store lies under "
        "(dominating guards), that no fallible exit follows a state mutation (reachability), that the member is "
        "removed exactly on the empty-bitmap edge, that role indices cannot be reused (insert-new with index=len, "
        "no remover is ever called), and the complete finite decision tables of Store::has_role/has_admin_role "
        "over the restart and authority conditions (every acyclic path enumerated).")
    ctx.not_decided = (
        "Set semantics over whole histories (needs the fixed-capacity map to behave as a map, C34, and the bitmap "
        "library to be a bitmap); the capacity limits themselves; names round-tripping (C35); the sysvar value.")
    ctx.rule("index-source", "bitmap test/set sites use the index of the right lookup (enabled_role_index for has_role/grant, role_index for revoke), on the authority's stored bitmap, with the right polarity")
    ctx.rule("index-lookup", "enabled_role_index yields Some(metadata.index) only under is_enabled(); role_index yields the same field; lookup is self.roles.get(role)")
    ctx.rule("guard-write", "each membership/flag write lies under the branch edge that makes the operation a no-op-free change")
    ctx.rule("atomic", "no Err exit is reachable behind a state mutation")
    ctx.rule("last-role", "members.remove(authority) is executed exactly on the bitmap.is_empty() edge of revoke")
    ctx.rule("index-unique", "new role index = roles.len(), inserted with new=true; roles are never removed/cleared/overwritten")
    ctx.rule("restart-table", "decision tables of Store::has_role / has_admin_role equal the specification")
    ctx.rule("who-may-call", "RoleStore::has_role only via Store::has_role/has_admin_role; Store mutators forward (authority, role)")

    has_role = ctx.fn(RS + "has_role")
    grant = ctx.fn(RS + "grant")
    revoke = ctx.fn(RS + "revoke")
    enable_role = ctx.fn(RS + "enable_role")
    disable_role = ctx.fn(RS + "disable_role")
    eri = ctx.fn(RS + "enabled_role_index")
    ri = ctx.fn(RS + "role_index")
    m_enable = ctx.fn(RM + "enable")
    m_disable = ctx.fn(RM + "disable")
    if None in (has_role, grant, revoke, enable_role, disable_role, eri, ri, m_enable, m_disable):
        return

    ENABLED_IDX = r"RoleStore::enabled_role_index\(self, role\)\?@Some\.0"
    ANY_IDX = r"RoleStore::role_index\(self, role\)\?@Some\.0"
    n_src = 0

    # ---- index-source
    def bitmap_sites(fn, name, idx_re, forbid_re, bitmap_re, polarity=None, floor=1):
        nonlocal n_src
        sites = fn.calls_to(r"bitmaps::Bitmap<.*>::%s$" % name) or [c for c in fn.calls if c.short == "Bitmap::" + name]
        key = "index-source:%s:Bitmap::%s" % (fn.short, name)
        if len(sites) < floor:
            ctx.ob(key, False, "%s: expected >= %d Bitmap::%s site(s), found %d" % (fn.short, floor, name, len(sites)), where=fn.where())
            return
        for i, cs in enumerate(sites):
            n_src += 1
            idx = str(cs.arg_expr(1))
            bm = str(cs.arg_expr(0))
            ok = re.search(idx_re, idx) is not None and re.search(forbid_re, idx) is None
            ok_bm = re.search(bitmap_re, bm) is not None
            ok_pol = True
            pol = ""
            if polarity is not None:
                pol = A.bool_shape(cs.arg_expr(2))
                ok_pol = pol == polarity
            ctx.ob(key if len(sites) == 1 else "%s:%d" % (key, i), ok and ok_bm and ok_pol,
                   "%s: Bitmap::%s index = %s; bitmap = %s%s" % (fn.short, name, H.sx(idx, 90), H.sx(bm, 110),
                                                               ("; value = %s (want %s)" % (pol, polarity)) if polarity else ""),
                   where=cs.where())

    bitmap_sites(has_role, "get", ENABLED_IDX, r"RoleStore::role_index", r"^Bitmap::from_value\(Members::get\(self\.members, authority\)@Some\.0\)$")
    bitmap_sites(grant, "get", ENABLED_IDX, r"RoleStore::role_index", r"^Bitmap::from_value\(Members::get_mut\(self\.members, authority\)@Some\.0\)$")
    bitmap_sites(grant, "set", ENABLED_IDX, r"RoleStore::role_index", r"^Bitmap::(from_value\(Members::get_mut\(self\.members, authority\)@Some\.0\)|new\(\))$", "true", floor=2)
    bitmap_sites(revoke, "get", ANY_IDX, r"enabled_role_index", r"^Bitmap::from_value\(Members::get_mut\(self\.members, authority\)@Some\.0\)$")
    bitmap_sites(revoke, "set", ANY_IDX, r"enabled_role_index", r"^Bitmap::from_value\(Members::get_mut\(self\.members, authority\)@Some\.0\)$", "false")
    ctx.floor("index-source", n_src, 6)

    # has_role returns exactly the bitmap test
    oks = H.ok_exits(has_role)
    ctx.ob("index-source:RoleStore::has_role:result", len(oks) == 1 and re.match(
        r"^Result::Ok\{0: Bitmap::get\(Bitmap::from_value\(Members::get\(self\.members, authority\)@Some\.0\), \(%s as usize\)\)\}$" % ENABLED_IDX,
        str(oks[0][1])) is not None,
        "RoleStore::has_role has one Ok exit and it returns the bitmap test: %s" % [H.sx(e, 200) for _, e in oks], where=has_role.where())

    # ---- index-lookup
    for fn, need_enabled in ((eri, True), (ri, False)):
        somes = [(bb, e) for bb, e in H.ok_exits(fn) if "Option::Some" in str(e)]
        good = len(somes) >= 1
        msgs = []
        for bb, e in somes:
            s = str(e)
            v = re.match(r"^Result::Ok\{0: Option::Some\{0: RoleMap::get\(self\.roles, role\)@Some\.0\.index\}\}$", s) is not None
            g = (not need_enabled) or H.guarded(fn, bb, r"^RoleMetadata::is_enabled\(RoleMap::get\(self\.roles, role\)@Some\.0\)$", True)
            nm = H.guarded(fn, bb, r"^PartialEq::ne\(RoleMetadata::name\(RoleMap::get\(self\.roles, role\)@Some\.0\)\?, role\)$", False)
            good = good and v and g and nm
            msgs.append("value=%s enabled-guard=%s name-guard=%s" % (v, g, nm))
        ctx.ob("index-lookup:" + fn.short, good,
               "%s: Some(index) exits: %s (%s)" % (fn.short, len(somes), "; ".join(msgs)), where=fn.where())
    ctx.floor("index-lookup", 2, 2)

    # ---- guard-write
    BM_GET = r"^Bitmap::get\(Bitmap::from_value\(Members::get_mut\(self\.members, authority\)@Some\.0\), \(%s as usize\)\)$"
    n_gw = 0
    for fn, idx_re, truth in ((grant, ENABLED_IDX, False), (revoke, ANY_IDX, True)):
        stores = [w for w in H.state_stores(fn) if re.search(r"Members::get_mut\(self\.members, authority\)@Some\.0$", w["path"])]
        ok = len(stores) == 1
        msg = "%d store(s) into the member's bitmap value" % len(stores)
        for w in stores:
            n_gw += 1
            g = H.guarded(fn, w["bb"], BM_GET % idx_re, truth)
            v = re.match(r"^Bitmap::into_value\(Bitmap::from_value\(Members::get_mut\(self\.members, authority\)@Some\.0\)\)$", str(w["rv"])) is not None
            ok = ok and g and v
            msg += "; store under bitmap.get(index)==%s: %s; stored value is the updated bitmap: %s" % (truth, g, v)
            # the Bitmap::set that produces the stored value is under the same guard and precedes the store
            sets = [c for c in fn.calls if c.short == "Bitmap::set" and "from_value" in str(c.arg_expr(0))]
            s_ok = len(sets) == 1 and H.guarded(fn, sets[0].bb, BM_GET % idx_re, truth) and fn.dominates(sets[0].bb, w["bb"])
            ok = ok and s_ok
            msg += "; Bitmap::set dominates the store under the same guard: %s" % s_ok
        ctx.ob("guard-write:" + fn.short, ok, "%s: %s" % (fn.short, msg), where=fn.where(),
               detail={"guards": [H.guard_list(fn, w["bb"]) for w in stores]})
    # grant, new member: the inserted value is a fresh bitmap with the index set
    ins = [c for c in grant.calls if c.short == "Members::insert_with_options"]
    ok = len(ins) == 1
    if ok:
        c = ins[0]
        sets = [s for s in grant.calls if s.short == "Bitmap::set" and str(s.arg_expr(0)) == "Bitmap::new()"]
        ok = (str(c.arg_expr(0)) == "self.members" and str(c.arg_expr(1)) == "authority"
              and str(c.arg_expr(2)) == "Bitmap::into_value(Bitmap::new())" and A.bool_shape(c.arg_expr(3)) == "true"
              and len(sets) == 1 and grant.dominates(sets[0].bb, c.bb)
              and H.discr_guarded(grant, c.bb, r"^Members::get_mut\(self\.members, authority\)$", {0}))
        n_gw += 1
    ctx.ob("guard-write:RoleStore::grant:new-member", ok,
           "grant inserts (authority, fresh bitmap with the index set, new=true) only on the `members.get_mut(authority) == None` edge",
           where=grant.where())
    for fn, callee, truth in ((m_enable, "RoleMetadata::set_enable", False), (m_disable, "RoleMetadata::set_disable", True)):
        cs = [c for c in fn.calls if c.short == callee]
        ok = len(cs) == 1 and str(cs[0].arg_expr(0)) == "self" and H.guarded(fn, cs[0].bb, r"^RoleMetadata::is_enabled\(self\)$", truth)
        oks_ = H.ok_exits(fn)
        ok2 = bool(oks_) and all(H.guarded(fn, bb, r"^RoleMetadata::is_enabled\(self\)$", truth) for bb, _ in oks_) \
            and len(cs) == 1 and all(fn.dominates(cs[0].bb, bb) for bb, _ in oks_)
        n_gw += 1
        ctx.ob("guard-write:" + fn.short, ok and ok2,
               "%s: %s(self) only under is_enabled()==%s: %s; every Ok exit is behind it: %s" % (fn.short, callee, truth, ok, ok2),
               where=fn.where())
    se, sd, ie = ctx.fn(RM + "set_enable"), ctx.fn(RM + "set_disable"), ctx.fn(RM + "is_enabled")
    if se and sd and ie:
        w1 = H.state_stores(se)
        w2 = H.state_stores(sd)
        ex = [str(e) for _, _, e in ie.exits()]
        ok = (len(w1) == 1 and w1[0]["path"] == "self.enabled" and str(w1[0]["rv"]) == "RoleMetadata::ROLE_ENABLED"
              and len(w2) == 1 and w2[0]["path"] == "self.enabled" and str(w2[0]["rv"]) != "RoleMetadata::ROLE_ENABLED"
              and w2[0]["rv"].k == "const"
              and ex in (["(self.enabled Eq RoleMetadata::ROLE_ENABLED)"], ["(RoleMetadata::ROLE_ENABLED Eq self.enabled)"]))
        c = ctx.const(r"roles::RoleMetadata::ROLE_ENABLED")
        cv = str(c.get("int", c.get("val"))) if c else None
        ok = ok and cv is not None and cv not in ("0", str(w2[0]["rv"]) if w2 else "0")
        n_gw += 1
        ctx.ob("guard-write:RoleMetadata:flag-encoding", ok,
               "set_enable stores ROLE_ENABLED (=%s), set_disable stores %s, is_enabled tests `enabled == ROLE_ENABLED` (%s)" % (
                   cv, [str(w["rv"]) for w in w2], ex), where=se.where())
    ctx.floor("guard-write", n_gw, 6)

    # ---- atomic
    for fn, fl in ((enable_role, 2), (disable_role, 1), (grant, 2), (revoke, 2), (m_enable, 1), (m_disable, 1)):
        H.atomic(ctx, "atomic:" + fn.short, fn, floor=fl)
    ctx.floor("atomic", 6, 6)

    # ---- last-role
    rm = [c for c in revoke.calls if c.short == "Members::remove"]
    emp = [c for c in revoke.calls if c.short == "Bitmap::is_empty"]
    ok = len(rm) == 1 and len(emp) == 1
    msg = "remove sites=%d is_empty sites=%d" % (len(rm), len(emp))
    if ok:
        r, e = rm[0], emp[0]
        EMP = r"^Bitmap::is_empty\(Bitmap::from_value\(Members::get_mut\(self\.members, authority\)@Some\.0\)\)$"
        a = H.guarded(revoke, r.bb, EMP, True) and str(r.arg_expr(0)) == "self.members" and str(r.arg_expr(1)) == "authority"
        # on the true edge, every path to return passes the remove
        sw = e.target
        t = revoke.blocks[sw]["t"]
        b = False
        if t[0] == "switch":
            true_tgt = t[3]
            b = H.must_pass(revoke, true_tgt, H.ret_blocks(revoke), [r.bb])
        # is_empty is evaluated on the bitmap after the clearing set
        sets = [c for c in revoke.calls if c.short == "Bitmap::set"]
        c_ = len(sets) == 1 and revoke.dominates(sets[0].bb, e.bb)
        ok = a and b and c_
        msg = "remove(self.members, authority) under is_empty()==true: %s; the true edge cannot return without it: %s; is_empty is tested after the bit was cleared: %s" % (a, b, c_)
    ctx.ob("last-role:RoleStore::revoke", ok, "revoke: " + msg, where=revoke.where())
    ctx.floor("last-role", 1, 1)

    # ---- index-unique
    ins = [c for c in enable_role.calls if c.short == "RoleMap::insert_with_options"]
    new = [c for c in enable_role.calls if c.short == "RoleMetadata::new"]
    ok = len(ins) == 1 and len(new) == 1
    if ok:
        i_, n_ = ins[0], new[0]
        idx = str(n_.arg_expr(1))
        ok = (re.search(r"TryInto::try_into\(RoleMap::len\(self\.roles\)\)", idx) is not None and str(n_.arg_expr(0)) == "role"
              and str(i_.arg_expr(0)) == "self.roles" and str(i_.arg_expr(1)) == "role"
              and str(i_.arg_expr(2)).startswith("RoleMetadata::new(role, ") and A.bool_shape(i_.arg_expr(3)) == "true"
              and H.discr_guarded(enable_role, i_.bb, r"^RoleMap::get_mut\(self\.roles, role\)$", {0}))
    ctx.ob("index-unique:enable_role:new-index", ok,
           "enable_role inserts RoleMetadata::new(role, index = try_into(self.roles.len())) with new=true on the not-found edge",
           where=enable_role.where())
    rnew = ctx.fn(RM + "new")
    if rnew:
        oks_ = [str(e) for _, e in H.ok_exits(rnew)]
        ctx.ob("index-unique:RoleMetadata::new", len(oks_) == 1 and re.match(
            r"^Result::Ok\{0: RoleMetadata\{name: RoleMetadata::name_to_bytes\(name\)\?, enabled: RoleMetadata::ROLE_ENABLED, index: index\}\}$", oks_[0]) is not None,
            "RoleMetadata::new(name, index) = {name_to_bytes(name)?, enabled: ROLE_ENABLED, index}: %s" % oks_, where=rnew.where())
    n_rm = 0
    for nm in ("remove", "clear", "insert", "entries_mut"):
        f = ctx.fn(r"gmsol_store::states::roles::RoleMap::" + nm)
        if f is None:
            continue
        n_rm += 1
        cs = prog.callers_of(f.id)
        ctx.ob("index-unique:no-caller:RoleMap::" + nm, not cs,
               "RoleMap::%s (would free/overwrite a role slot) has no caller: %s" % (nm, [c.fn.short for c in cs]), where=f.where())
    for nm, allowed in (("insert_with_options", RS + r"(enable_role)$|roles::RoleMap::insert$"), ("get_mut", RS + r"(enable_role|disable_role)$")):
        f = ctx.fn(r"gmsol_store::states::roles::RoleMap::" + nm)
        if f is None:
            continue
        n_rm += 1
        cs, bad = H.callers_within(prog, f, allowed)
        ctx.ob("index-unique:callers:RoleMap::" + nm, not bad and len(cs) >= 1,
               "RoleMap::%s is called only from %s (offenders: %s)" % (nm, sorted(set(c.fn.short for c in cs)), [c.fn.short for c in bad]), where=f.where())
    for nm, allowed in (("insert_with_options", RS + r"grant$|roles::Members::insert$"), ("get_mut", RS + r"(grant|revoke)$"),
                        ("remove", RS + r"revoke$"), ("clear", r"^$"), ("insert", r"^$"), ("entries_mut", r"^$")):
        f = ctx.fn(r"gmsol_store::states::roles::Members::" + nm)
        if f is None:
            continue
        n_rm += 1
        cs, bad = H.callers_within(prog, f, allowed)
        ctx.ob("index-unique:callers:Members::" + nm, not bad,
               "Members::%s is called only from %s (offenders: %s)" % (nm, sorted(set(c.fn.short for c in cs)), [c.fn.short for c in bad]), where=f.where())
    ctx.floor("index-unique", n_rm, 12)

    # ---- restart-table
    _restart_tables(ctx)

    # ---- who-may-call
    cs, bad = H.callers_within(prog, has_role, ST + r"(has_role|has_admin_role)$")
    ctx.ob("who-may-call:RoleStore::has_role", not bad and len(cs) >= 3,
           "RoleStore::has_role has %d call sites, all in Store::has_role/has_admin_role (offenders: %s)" % (len(cs), [c.fn.short for c in bad]),
           where=has_role.where())
    for fnm, inner in (("grant", grant), ("revoke", revoke), ("enable_role", enable_role), ("disable_role", disable_role)):
        f = ctx.fn(ST + fnm)
        if f is None:
            continue
        real = [c for c in f.calls if c.short not in H.TRIV]
        want = ["self.role", "authority", "role"] if fnm in ("grant", "revoke") else ["self.role", "role"]
        ok = len(real) == 1 and real[0].name == inner.id and real[0].dest[0] == 0 and len(real[0].dest) == 1 \
            and [str(real[0].arg_expr(i)) for i in range(len(real[0].args))] == want
        ctx.ob("who-may-call:Store::" + fnm, ok,
               "Store::%s returns RoleStore::%s(%s) unchanged" % (fnm, fnm, ", ".join(want)), where=f.where())
    ctx.floor("who-may-call", 5, 5)


def _restart_tables(ctx):
    hr = ctx.fn(ST + "has_role")
    har = ctx.fn(ST + "has_admin_role")
    hres = ctx.fn(ST + "has_restarted")
    isa = ctx.fn(ST + "is_authority")
    if None in (hr, har, hres, isa):
        return
    RA = r"RoleStore::has_role\(self\.role, authority, RoleKey::RESTART_ADMIN\)"

    def cls(e, p):
        s = str(e)
        if s == "RoleStore::has_role(self.role, authority, role)":
            return "role-check"
        if s == "RoleStore::has_role(self.role, authority, RoleKey::RESTART_ADMIN)":
            return "restart-admin-check"
        return H.classify_bool_result(e)

    rows = H.path_table(hr, [("restarted", r"^Store::has_restarted\(self\)\?$"), ("restart_admin", "^" + RA + r"\?$")], cls)
    want = {((False, None), "role-check"), ((True, True), "true"), ((True, False), "err"),
            ((True, None), "err?"), ((None, None), "err?")}
    ctx.ob("restart-table:Store::has_role", rows == want,
           "Store::has_role over (restarted, holds RESTART_ADMIN): %s; specification: %s" % (H.fmt_rows(rows), H.fmt_rows(want)),
           where=hr.where(), detail={"rows": H.fmt_rows(rows)})
    rows = H.path_table(har, [("is_authority", r"^Store::is_authority\(self, authority\)$"), ("restarted", r"^Store::has_restarted\(self\)\?$")], cls)
    want = {((True, None), "true"), ((False, False), "false"), ((False, True), "restart-admin-check"), ((False, None), "err?")}
    ctx.ob("restart-table:Store::has_admin_role", rows == want,
           "Store::has_admin_role over (is_authority, restarted): %s; specification: %s" % (H.fmt_rows(rows), H.fmt_rows(want)),
           where=har.where(), detail={"rows": H.fmt_rows(rows)})
    # the authority short-circuit must not consult anything fallible
    tbl = [p for p in A.decision_table(har) if A.feasible(p) and not p["diverges"]
           and any(re.search(r"^Store::is_authority", str(c)) and isinstance(l, tuple) for c, l, _ in p["conds"])]
    calls = sorted(set(c.short for p in tbl for c in p["calls"] if c.short not in H.TRIV))
    ctx.ob("restart-table:Store::has_admin_role:authority-first", bool(tbl) and calls == ["Store::is_authority"],
           "on the is_authority edge has_admin_role calls nothing else (calls: %s)" % calls, where=har.where())
    oks = [str(e) for _, e in H.ok_exits(hres)]
    ok = len(oks) == 1 and re.match(
        r"^Result::Ok\{0: \((self\.last_restarted_slot Ne SolanaSysvar::get\(\)\?\.last_restart_slot|SolanaSysvar::get\(\)\?\.last_restart_slot Ne self\.last_restarted_slot)\)\}$", oks[0]) is not None
    g = [c for c in hres.calls if c.short == "SolanaSysvar::get"]
    ok = ok and len(g) == 1 and "LastRestartSlot" in (g[0].self_ty or g[0].name or "") + (g[0].gargs or "")
    ctx.ob("restart-table:Store::has_restarted", ok,
           "has_restarted = (self.last_restarted_slot != LastRestartSlot::get()?.last_restart_slot): %s [sysvar %s]" % (
               oks, [(c.self_ty, c.name) for c in g]), where=hres.where())
    ex = [str(e) for _, _, e in isa.exits()]
    ctx.ob("restart-table:Store::is_authority", ex in (["PartialEq::eq(self.authority, authority)"], ["PartialEq::eq(authority, self.authority)"]),
           "is_authority = (self.authority == *authority): %s" % ex, where=isa.where())
    ctx.floor("restart-table", 5, 5)
