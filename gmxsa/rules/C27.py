"""C27 Market openness follows the per-feed status policy and freshness.

Decided (finite-case evaluation of the MIR decision tables, A10):

 * openness-table : `MarketStatus::openness` — for every variant of MarketStatus the outcome as a function of the
                    one policy flag it reads, compared with the table derived from the enum's own naming
                    (`Allow<Status>`: open iff flag; `Halt<Status>`: open iff not flag; `Disabled`: Skip);
                    every MarketStatusFlag is read by exactly the status it names;
 * status-decode  : `market_status()` maps undecodable bytes to `Disabled`; `set_market_status` stores `u8::from(status)`;
 * is-open        : every path of `PriceFeedPrice::is_market_open` is evaluated against the decision list of the
                    property (Closed => false; no Open flag => false; tracking disabled => true;
                    now (-) ts > timeout => false; else last_update_diff_secs <= timeout (-) (now (-) ts)), for every
                    completion of the conditions the path does not test — obligations are keyed by the SEMANTIC CASE
                    (status-closed, open-flag-unset, tracking-disabled, report-too-old, freshness-compare), so merged /
                    split / reordered guards and boolean carrier locals do not matter; operands are identified by provenance
                    (parameter position, `self.ts`, accessor results), comparison strictness is checked;
 * no-raw-arith   : is_market_open / last_update_diff_secs contain no raw `+ - *`, no lossy cast; only
                    `saturating_sub`, lossless `From<u32> for i64` conversions, comparisons;
 * diff-secs      : `last_update_diff_secs`: disabled => None; seconds flag => the stored value; otherwise
                    `div_ceil(value, 1_000_000_000)` (rounds the age up).
"""
import re

from .. import analyses as A
from ..model import short_path


def _flag_of(e):
    """E -> (flag_enum, flag_variant, negated) if e is [!]get_flag(<x>, Enum::Variant{})"""
    neg = False
    while e.k == "un" and e.a[0] == "Not":
        e = e.a[1]
        neg = not neg
    if e.k == "call" and re.search(r"::get_flag$", e.a[0]) and len(e.a[1]) == 2:
        m = re.match(r"^(\w+)::(\w+)\{\}$", str(e.a[1][1]))
        if m:
            return str(e.a[1][0]), m.group(1), m.group(2), neg
    return None


def _bool_fn_table(prog, fn):
    """decision table of a fn/closure with one bool parameter -> {True: str(ret), False: str(ret)} or None"""
    out = {}
    for p in A.decision_table(fn):
        if p["diverges"] or p["ret"] is None:
            continue
        conds = [(c, l) for c, l, t in p["conds"]]
        if len(conds) != 1 or conds[0][0].k != "param":
            return None
        l = conds[0][1]
        out[False if l == 0 else True] = str(p["ret"])
    return out if len(out) == 2 else None


def _openness(ctx, prog):
    f = ctx.fn(r"gmsol_utils::price::market_status::MarketStatus::openness")
    st = ctx.adt(r"gmsol_utils::price::market_status::MarketStatus")
    fl = ctx.adt(r"gmsol_utils::price::market_status::MarketStatusFlag")
    op = ctx.adt(r"gmsol_utils::price::market_status::MarketOpenness")
    if None in (f, st, fl, op):
        return
    dmap = st.discr_map()
    flag_param = f.locals[2][1] or "flags"
    got = {}       # variant -> {(flag, value): result}
    problems = []
    for p in A.decision_table(f):
        if not A.feasible(p) or p["diverges"] or p["ret"] is None:
            continue
        variant = None
        inline = {}
        for c, l, t in p["conds"]:
            if c.k == "discr" and str(c.a[0]) == "self":
                variant = dmap.get(l, "?") if not isinstance(l, tuple) else "_"
                continue
            fo = _flag_of(c)
            if fo and fo[0] == flag_param and fo[1] == "MarketStatusFlag":
                val = (l != 0) if not isinstance(l, tuple) else True
                inline[fo[2]] = (val != fo[3])
                continue
            problems.append("unrecognised condition %s" % str(c)[:80])
        if variant is None:
            problems.append("path without a match on self")
            continue
        r = p["ret"]
        tab = got.setdefault(variant, {})
        if r.k == "agg" and re.match(r"^MarketOpenness::\w+$", r.a[0]):
            res = r.a[0].split("::")[1]
            if not inline:
                tab[(None, None)] = res
            elif len(inline) == 1:
                (fg, v), = inline.items()
                tab[(fg, v)] = res
            else:
                problems.append("%s reads several flags" % variant)
        elif r.k == "call" and len(r.a[1]) >= 1:
            # a helper / closure applied to one boolean
            target = None
            args = list(r.a[1])
            if r.a[0] in ("Fn::call", "FnOnce::call_once", "FnMut::call_mut") and args[0].k == "closure":
                target = prog.fns.get(args[0].a[0])
                b = args[1].a[1][0][1] if args[1].k == "agg" and args[1].a[1] else None
            else:
                cs = r.a[2] if len(r.a) > 2 else None
                target = (prog.fns.get(cs.resolved) or prog.fns.get(cs.callee)) if cs is not None else None
                b = args[-1]
            bt = _bool_fn_table(prog, target) if target is not None else None
            fo = _flag_of(b) if b is not None else None
            if bt is None or fo is None or fo[0] != flag_param or fo[1] != "MarketStatusFlag" or inline:
                problems.append("%s: cannot evaluate %s" % (variant, str(r)[:90]))
                continue
            ctx.analysed_fns.add(target.id)
            for v in (True, False):
                m = re.match(r"^MarketOpenness::(\w+)\{\}$", bt[v != fo[3]])
                if not m:
                    problems.append("%s: helper returns %s" % (variant, bt[v != fo[3]]))
                    continue
                tab[(fo[2], v)] = m.group(1)
        else:
            problems.append("%s: result %s" % (variant, str(r)[:80]))
    ctx.ob("openness-table:shape", not problems, "MarketStatus::openness is finitely evaluable%s" % ("; PROBLEMS: %s" % problems[:4] if problems else ""),
           where=f.where(), nontrivial=False)
    flags = fl.variant_names()
    used = {}
    for v in st.variant_names():
        tab = got.get(v)
        if v == "Disabled":
            want = {(None, None): "Skip"}
        elif "Allow" + v in flags:
            want = {("Allow" + v, True): "Open", ("Allow" + v, False): "Closed"}
        elif "Halt" + v in flags:
            want = {("Halt" + v, True): "Closed", ("Halt" + v, False): "Open"}
        else:
            want = None
        if want is None:
            ctx.ob("openness-table:" + v, False, "no MarketStatusFlag is named after status %s (Allow%s / Halt%s): policy undefined" % (v, v, v),
                   where=f.where())
            continue
        ctx.ob("openness-table:" + v, tab == want, "status %s: %s (naming oracle: %s)" % (
            v, _fmt(tab), _fmt(want)), where=f.where(), detail={"found": _fmt(tab), "want": _fmt(want)})
        for (fg, _v) in (tab or {}):
            if fg:
                used.setdefault(fg, set()).add(v)
    ctx.floor("openness-table", len([v for v in st.variant_names() if v in got]), 7)
    for fg in flags:
        ctx.ob("openness-table:flag:" + fg, len(used.get(fg, ())) == 1, "flag %s is read by exactly one status: %s" % (fg, sorted(used.get(fg, ()))),
               where=f.where())
    ctx.floor("openness-table:flags", len(flags), 6)


def _fmt(tab):
    if tab is None:
        return "none"
    return ", ".join("%s=%s->%s" % (k[0], k[1], v) if k[0] else v for k, v in sorted(tab.items(), key=lambda kv: str(kv[0])))


def _status_decode(ctx, prog):
    f = ctx.fn(r"gmsol_utils::price::feed_price::PriceFeedPrice::market_status")
    if f is not None:
        ex = f.exits()
        e = ex[0][2] if len(ex) == 1 else None
        ok = e is not None and e.k == "call" and e.a[0] in ("Result::unwrap_or",) and len(e.a[1]) == 2 \
            and str(e.a[1][1]) == "MarketStatus::Disabled{}" \
            and re.match(r"^TryFrom::try_from\(self\.market_status_value\)$", str(e.a[1][0])) is not None
        ctx.ob("status-decode:market_status", ok, "market_status() = %s (undecodable byte -> Disabled)" % e, where=f.where())
    g = ctx.fn(r"gmsol_utils::price::feed_price::PriceFeedPrice::set_market_status")
    if g is not None:
        ws = [w for w in A.field_writes(g, r"market_status_value$") if w["kind"] == "assign"]
        pname = g.locals[2][1] or "market_status"
        ok = len(ws) == 1 and str(ws[0]["rv"]) == pname
        conv = [cs for cs in g.calls if cs.short in ("From::from", "Into::into")]
        ok = ok and len(conv) == 1 and re.search(r"MarketStatus", conv[0].gargs or conv[0].name or "") is not None
        others = [w for w in A.field_writes(g, r".") if not re.search(r"market_status_value$", w["path"]) and w["path"].startswith("self")]
        ctx.ob("status-decode:set_market_status", ok and not others, "set_market_status stores u8::from(%s) into market_status_value only (%s)" % (
            pname, [(w["path"], str(w["rv"])) for w in ws]), where=g.where())


def _is_open(ctx, prog):
    f = ctx.fn(r"gmsol_utils::price::feed_price::PriceFeedPrice::is_market_open")
    op = ctx.adt(r"gmsol_utils::price::market_status::MarketOpenness")
    if f is None or op is None:
        return
    if f.arg_count != 4:
        ctx.ob("anchor-missing:is_market_open-signature", False, "is_market_open signature changed", where=f.where())
        return
    now, timeout, flags = (f.locals[i][1] or "arg%d" % i for i in (2, 3, 4))
    closed = [d for d, n in op.discr_map().items() if n == "Closed"][0]
    others = [d for d in op.discr_map() if d != closed]
    cur_diff = "i64::saturating_sub(%s, self.ts)" % now
    openness = "discr(MarketStatus::openness(PriceFeedPrice::market_status(self), %s))" % flags
    openflag = "PriceFlagContainer::get_flag(self.flags, PriceFlag::Open{})"
    diffopt = "discr(PriceFeedPrice::last_update_diff_secs(self))"
    secs = "PriceFeedPrice::last_update_diff_secs(self)@Some.0"
    final = ("<=", secs, "i64::saturating_sub(%s, %s)" % (timeout, cur_diff))

    CASES = {"status-closed": "false", "open-flag-unset": "false", "tracking-disabled": "true", "report-too-old": "false",
             "freshness-compare": "CMP"}

    def case_of(C, O, N, G):
        if C:
            return "status-closed"
        if not O:
            return "open-flag-unset"
        if N:
            return "tracking-disabled"
        if G:
            return "report-too-old"
        return "freshness-compare"

    # Truth table over the decision atoms, independent of how the guards are merged, split or ordered: every path (with
    # boolean carrier locals resolved, see h_E.norm_paths) is classified by the atoms it tests; for every completion of the
    # atoms it does not test, the property's case and outcome are computed and compared with what the path returns.
    from ..h_E import norm_paths
    paths = norm_paths(f)
    mism = {k: [] for k in CASES}
    cover = {k: 0 for k in CASES}
    shape = []
    kinds = set()
    for p in paths:
        asg = {}
        bad = []
        for c, l, is_bool in p["conds"]:
            s = str(c)
            if s == openness:
                if isinstance(l, tuple):
                    if closed in l[1]:
                        asg["C"] = False
                    else:
                        bad.append("openness otherwise-edge does not exclude Closed")
                else:
                    asg["C"] = (l == closed)
            elif s == openflag and is_bool:
                asg["O"] = l
            elif s == diffopt:
                asg["N"] = (l == 0) if not isinstance(l, tuple) else (1 in l[1])       # Option: None = 0, Some = 1
            else:
                cm = A.as_cmp(c) if is_bool else None
                ok = False
                if cm:
                    o, a, b = cm
                    if not l:
                        o = A.NEG[o]
                    if str(a) == timeout and str(b) == cur_diff:
                        o, a, b = A.FLIP[o], b, a
                    if str(a) == cur_diff and str(b) == timeout and o in (">", "<="):
                        asg["G"] = (o == ">")
                        ok = True
                if not ok:
                    bad.append("unrecognised condition %s=%s" % (s[:90], l))
        r = p["ret"]
        rs = str(r)
        if rs in ("true", "false"):
            got = rs
        else:
            neg = False
            e = r
            while e is not None and e.k == "un" and e.a[0] == "Not":
                e = e.a[1]
                neg = not neg
            cm = A.as_cmp(e) if e is not None else None
            got = "?"
            if cm:
                o, a, b = cm
                if neg:
                    o = A.NEG[o]
                if (o, str(a), str(b)) == final or (A.FLIP[o], str(b), str(a)) == final:
                    got = "CMP"
        kinds.add(got)
        if bad:
            shape += bad
        for C in ([asg["C"]] if "C" in asg else [True, False]):
            for O in ([asg["O"]] if "O" in asg else [True, False]):
                for N in ([asg["N"]] if "N" in asg else [True, False]):
                    for G in ([asg["G"]] if "G" in asg else [True, False]):
                        cs_ = case_of(C, O, N, G)
                        cover[cs_] += 1
                        if got != CASES[cs_]:
                            mism[cs_].append("path testing {%s} returns %s" % (
                                ",".join("%s=%d" % (k, int(bool(v))) for k, v in sorted(asg.items())), got if got != "?" else rs[:100]))
    ctx.ob("is-open:shape", not shape, "every branch condition of is_market_open is one of the decision atoms (status closed, Open flag, "
           "tracking enabled, report age > timeout)%s" % ("; UNRECOGNISED: %s" % shape[:3] if shape else ""), where=f.where(), nontrivial=False)
    for cs_, want in CASES.items():
        ctx.ob("is-open:case:%s" % cs_, not mism[cs_] and cover[cs_] > 0,
               "case %s must yield %s: %d (path, completion) pairs fall into it%s" % (
                   cs_, "the freshness comparison last_update_diff_secs <= timeout (-) (now (-) ts)" if want == "CMP" else want, cover[cs_],
                   "; MISMATCH: %s" % sorted(set(mism[cs_]))[:3] if mism[cs_] else ""), where=f.where())
    ctx.floor("is-open:paths", len(paths), 5)
    ctx.ob("is-open:all-outcomes", kinds >= {"true", "false", "CMP"}, "is_market_open has true, false and freshness-comparison outcomes: %s" % sorted(kinds),
           where=f.where())
    # conversions are lossless, arithmetic only saturating
    for g in (f, ctx.fn(r"gmsol_utils::price::feed_price::PriceFeedPrice::last_update_diff_secs")):
        if g is None:
            continue
        ar = A.arith_sites(g)
        casts = [c for c in A.cast_sites(g) if c["e"].k != "const"]
        conv = [cs for cs in g.calls if cs.short in ("From::from", "Into::into", "TryFrom::try_from", "TryInto::try_into")]
        conv_bad = [cs.gargs for cs in conv if not re.match(r"^\[(i64, u32|u32, i64)\]$", cs.gargs or "") or
                    (cs.short == "From::from" and cs.gargs != "[i64, u32]") or (cs.short == "Into::into" and cs.gargs != "[u32, i64]")]
        deny = [cs.short for cs in g.calls if re.search(r"(wrapping_|overflowing_|unchecked_|checked_|::abs$|unwrap|expect)", cs.name or "")]
        ctx.ob("no-raw-arith:" + g.short, not ar and not casts and not conv_bad and not deny,
               "%s: raw arithmetic %s, `as` casts %s, conversions %s (must be u32->i64), other primitives %s" % (
                   g.short, [(a["op"], a["ty"]) for a in ar], [(c["from"], c["to"]) for c in casts], [cs.gargs for cs in conv], deny),
               where=g.where())
    subs = [cs for cs in f.calls if re.search(r"i64>::saturating_sub$|i64::saturating_sub$", cs.callee or "") or cs.short == "i64::saturating_sub"]
    ctx.ob("no-raw-arith:saturating", len(subs) == 2 and len(subs) == len([cs for cs in f.calls if re.search(r"_sub$|_add$", cs.short)]),
           "both differences are i64::saturating_sub (%d)" % len(subs), where=f.where())


def _diff_secs(ctx, prog):
    f = ctx.fn(r"gmsol_utils::price::feed_price::PriceFeedPrice::last_update_diff_secs")
    c = ctx.const(r"gmsol_utils::price::feed_price::NANOS_PER_SECOND_U32")
    if f is None or c is None:
        return
    ctx.ob("diff-secs:nanos-per-second", int(c["int"]) == 10 ** 9, "NANOS_PER_SECOND_U32 = %s" % c["int"], where="%s:%d" % (c["file"], c["line"]))
    en = "PriceFlagContainer::get_flag(self.flags, PriceFlag::LastUpdateDiffEnabled{})"
    sc = "PriceFlagContainer::get_flag(self.flags, PriceFlag::LastUpdateDiffSecs{})"
    from ..h_E import norm_paths
    WANT = {"disabled": "Option::None{}", "seconds": "Option::Some{0: self.last_update_diff}",
            "nanoseconds": "Option::Some{0: u32::div_ceil(self.last_update_diff, feed_price::NANOS_PER_SECOND_U32)}"}
    mism = {k: [] for k in WANT}
    cover = {k: 0 for k in WANT}
    shape = []
    paths = norm_paths(f)
    for p in paths:
        asg = {}
        for cnd, l, is_bool in p["conds"]:
            if is_bool and str(cnd) == en:
                asg["enabled"] = l
            elif is_bool and str(cnd) == sc:
                asg["secs"] = l
            else:
                shape.append(str(cnd)[:80])
        r = str(p["ret"])
        for E in ([asg["enabled"]] if "enabled" in asg else [True, False]):
            for S in ([asg["secs"]] if "secs" in asg else [True, False]):
                case = "disabled" if not E else ("seconds" if S else "nanoseconds")
                cover[case] += 1
                if r != WANT[case]:
                    mism[case].append("path testing %s returns %s" % (asg, r[:90]))
    ctx.ob("diff-secs:shape", not shape, "last_update_diff_secs branches only on the two tracking flags%s" % ("; UNRECOGNISED %s" % shape[:3] if shape else ""),
           where=f.where(), nontrivial=False)
    for case, want in WANT.items():
        ctx.ob("diff-secs:case:" + case, not mism[case] and cover[case] > 0, "case %s yields %s (%d path/completion pairs)%s" % (
            case, want, cover[case], "; MISMATCH %s" % mism[case][:2] if mism[case] else ""), where=f.where())
    ctx.floor("diff-secs:paths", len(paths), 3)


def run(ctx):
    prog = ctx.prog(["gmsol_utils"])
    ctx.explanation = (
        "Finite-case evaluation of the MIR decision tables of MarketStatus::openness (7 statuses x policy flag, against the "
        "table the enum names themselves define), PriceFeedPrice::is_market_open (every path against the property's "
        "decision list, operands identified by provenance and comparison strictness checked) and last_update_diff_secs; "
        "plus the arithmetic discipline behind 'for all timestamps': only i64::saturating_sub and lossless u32->i64 "
        "conversions, no raw arithmetic or `as` cast.")
    ctx.not_decided = (
        "That the two saturating comparisons coincide with the unbounded-integer specification "
        "(now - (ts - last_update_diff) <= timeout) at the 64-bit limits is argued in the source comments and is not "
        "decided here (value reasoning); the flags!() bit container get_flag/set_flag semantics are trusted.")
    ctx.rule("openness-table", "status x flag -> Open/Closed/Skip equals the table defined by the Allow<Status>/Halt<Status> naming; each flag read by one status")
    ctx.rule("status-decode", "undecodable status byte -> Disabled; setter stores u8::from(status)")
    ctx.rule("is-open", "every path of is_market_open agrees with the property's decision list for all completions of untested conditions")
    ctx.rule("no-raw-arith", "no raw arithmetic / lossy conversion; only saturating_sub and u32->i64 widening")
    ctx.rule("diff-secs", "last_update_diff_secs: disabled -> None, seconds -> value, nanoseconds -> div_ceil(value, 1e9)")
    _openness(ctx, prog)
    _status_decode(ctx, prog)
    _is_open(ctx, prog)
    _diff_secs(ctx, prog)
