"""C22 Market vaults stay solvent after every instruction — the bookkeeping discipline that the solvency check rests on.

Decided on MIR (necessary conditions only; the inequality over histories is NOT decided):

 * balance-writers   OtherState.{long,short}_token_balance are stored only by RevertibleMarket::record_transferred_in/out
                     (plus whole-struct copies of the revertible buffer, C21);
 * record-cells      record_transferred_in / _out: (pure || long token) -> long_token_balance, else short_token_balance, with
                     checked_add (in) / checked_sub (out) of the given amount on that same field, failure propagated;
                     balance_for_token reads the same cells;
 * bank-route        Bank::{record_transferred_in_by_token, record_transferred_out_by_token, balance} of RevertibleMarket resolve
                     the side with MarketMeta::to_token_side(token) and call the like-named helper with the caller's amount;
                     the liquidity-market wrapper forwards in->in, out->out;
 * validate-both     validate_market_balance_for_the_given_token returns Ok only if
                     balance_excluding(token, excluded) >= expected_min_token_balance...(side) AND >= total_collateral_amount...(side),
                     each bound including the other side (checked_add of the `!side` term) exactly when the market is pure;
 * validate-sides    validate_market_balances checks the long token with the long exclusion, the short token (short exclusion)
                     exactly when the market is not pure; a pure market folds both exclusions into the long one;
 * transfer-paired   vault movements performed directly by the program (MarketTransferIn/Out operations, market_transfer_in):
                     the CPI amount is the recorded amount, same guard, right direction, token of the vault;
                     unchecked_shift moves (token, amount) out of the source market and into the target market pairwise;
 * must-validate     unchecked_deposit, unchecked_withdraw, execute_increase_position, execute_decrease_position and
                     claim_fees_from_market cannot return Ok without passing through validate_market_balance(s) on their own
                     market (and claim_fees validates before it commits).
"""
import re

from .. import analyses as A
from .. import h_C as H
from ..model import classify_result, short_path

REV = "gmsol_store::states::market::revertible::market::RevertibleMarket"
OTHER = "gmsol_store::states::market::OtherState"


def _rev_fn(ctx, prog, name):
    fs = [f for f in prog.fns.values() if f.id.startswith(REV) and "{closure" not in f.id and f.name == name and not f.trait_item]
    if len(fs) != 1:
        ctx.ob("anchor-missing:fn:RevertibleMarket::" + name, False, "expected one inherent RevertibleMarket::%s, found %d" % (name, len(fs)), where="(anchor)")
        return None
    ctx.analysed_fns.add(fs[0].id)
    return fs[0]


def run(ctx):
    prog = ctx.prog(["gmsol_store", "gmsol_model", "gmsol_utils"])
    ctx.explanation = (
        "The recorded token balances are what the solvency validation compares; the check shows who may change them, that "
        "every change is a checked add/sub of the moved amount on the side the token belongs to (long side for pure markets), "
        "that program-level vault movements are recorded with the same amount, and that the validation compares the balance "
        "with both required minimums (both sides for pure markets) and is unavoidable on the success paths of the operations "
        "that move tokens out.")
    ctx.not_decided = (
        "The solvency inequality itself over histories, and the relation between the recorded balances of all markets sharing "
        "a vault and the vault's real token balance (needs values / all instructions). Token movements recorded inside "
        "gmsol-model actions (deposit/withdraw/decrease via the Bank trait) belong to C04/C08; the swap-path out/in pairing is "
        "shared with C44 (family `pairing`), the delayed swap-path validations stay with C44. Escrow-to-vault transfers of user actions are C23.")
    ctx.rule("balance-writers", "long/short_token_balance are stored only by record_transferred_in/out")
    ctx.rule("record-cells", "(pure||long) -> long balance else short; checked_add (in) / checked_sub (out) of `amount`, propagated")
    ctx.rule("bank-route", "Bank methods resolve the side by to_token_side(token) and call the like-named helper")
    ctx.rule("validate-both", "Ok only if balance >= min token balance AND >= collateral amount (other side added iff pure)")
    ctx.rule("validate-sides", "long token always, short token iff !pure; pure folds exclusions into the long side")
    ctx.rule("transfer-paired", "direct vault movement: CPI amount == recorded amount, same guard, right direction; shift pairs out/in")
    ctx.rule("must-validate", "token-moving operations cannot return Ok without validate_market_balance(s) on their market")
    ctx.rule("pairing", "swap paths: each recorded transfer-out of a market is matched by the next recorded transfer-in of the same "
             "token and amount on another market (tokens are never counted in two markets sharing a vault) — shared with C44")

    _writers(ctx, prog)
    _cells(ctx, prog)
    _routes(ctx, prog)
    _validate(ctx, prog)
    _paired(ctx, prog)
    _must_validate(ctx, prog)
    # the cross-market bookkeeping of multi-hop swaps (a necessary condition of "recorded balances of all markets sharing a
    # vault never exceed the vault's balance"): reuse C44's pairing family
    from . import C44
    C44._pairing(ctx, prog)


# -----------------------------------------------------------------------------


def _writers(ctx, prog):
    found = {}
    for g in prog.fns.values():
        if g.crate != "gmsol_store":
            continue
        for bb, pl, role, mac in H.place_uses(g):
            if role not in ("def", "mutref", "calldest") or len(pl) < 2 or g.blocks[bb].get("cleanup"):
                continue
            if pl[-1] not in (".long_token_balance", ".short_token_balance"):
                continue
            ch = H.place_owner_types(prog, g, pl)
            if ch and (ch[-1][0] == OTHER or ch[-1][0] is None):
                found.setdefault(g.id, set()).add(pl[-1][1:])
    allowed = {"record_transferred_in", "record_transferred_out"}
    bad = sorted(short_path(k) for k in found if not (k.startswith(REV) and prog.fns[k].name in allowed))
    ctx.ob("balance-writers:OtherState", not bad and len(found) == 2,
           "recorded balances are stored by %s%s" % (sorted(short_path(k) for k in found), "; NOT ALLOWED: %s" % bad if bad else ""), where="programs/store/src/states/market/mod.rs")


def _cells(ctx, prog):
    from . import C40
    want_field = {(True, True): "long_token_balance", (True, False): "long_token_balance", (False, True): "long_token_balance",
                  (False, False): "short_token_balance"}
    for nm, prim in (("record_transferred_in", "u64::checked_add"), ("record_transferred_out", "u64::checked_sub"), ("balance_for_token", None)):
        f = _rev_fn(ctx, prog, nm)
        if f is None:
            continue
        sig = C40._bank_sig(f)
        full = {}
        for pure in (True, False):
            for lg in (True, False):
                acc = None
                for (p_, l_), atoms in sig.items():
                    if (p_ is None or p_ == pure) and (l_ is None or l_ == lg):
                        acc = (acc or set()) | atoms
                full[(pure, lg)] = acc
        bad = []
        for k, atoms in full.items():
            fld = want_field[k]
            if atoms is None:
                bad.append("cell %s unreachable" % (k,))
                continue
            if prim is None:
                if atoms != {("read", fld)}:
                    bad.append("cell (pure=%s,long=%s) reads %s, expected %s" % (k[0], k[1], sorted(atoms), fld))
            else:
                want = {("store", fld), (prim, fld, f.param_name(2)), ("on-failure", "err")}
                if atoms != want:
                    bad.append("cell (pure=%s,long=%s): %s, expected %s" % (k[0], k[1], sorted(atoms), sorted(want)))
        ctx.ob("record-cells:" + nm, not bad, "%s: %s%s" % (nm, {"(pure=%s,long=%s)" % k: sorted(v) if v else None for k, v in full.items()},
                                                           "; BAD: " + "; ".join(bad) if bad else ""), where=f.where())


def _routes(ctx, prog):
    routes = (("record_transferred_in_by_token", "record_transferred_in"), ("record_transferred_out_by_token", "record_transferred_out"),
              ("balance", "balance_for_token"))
    n = 0
    for ty, inner_is_base in ((REV, False), ("gmsol_store::states::market::revertible::liquidity_market::RevertibleLiquidityMarket", True)):
        fns = {f.name: f for f in H.impl_fns(prog, ty) if (f.impl.get("trait") or "").startswith("gmsol_model::Bank")}
        for m, helper in routes:
            f = fns.get(m)
            if f is None:
                ctx.ob("anchor-missing:fn:%s::%s" % (short_path(ty, 1), m), False, "Bank method missing", where="(anchor)")
                continue
            n += 1
            ctx.analysed_fns.add(f.id)
            token = f.param_name(1)
            if inner_is_base:
                cs = [c for c in f.calls if c.short.startswith("Bank::")]
                ok = len(cs) == 1 and cs[0].short == "Bank::" + m and str(cs[0].arg_expr(0)) == "self.base" \
                    and [str(cs[0].arg_expr(i)) for i in range(1, len(cs[0].args))] == [f.param_name(i) for i in range(1, f.arg_count)]
                ctx.ob("bank-route:RevertibleLiquidityMarket::" + m, ok, "forwards to %s on self.base with its own arguments" % (
                    [(c.short, [str(c.arg_expr(i)) for i in range(len(c.args))]) for c in cs]), where=f.where())
                continue
            hs = [c for c in f.calls if c.short.startswith("RevertibleMarket::") and c.short.split("::")[1] in [h for _, h in routes]]
            side = r"^MarketMeta::to_token_side\(self\.market\.meta, %s\)\?$" % re.escape(token)
            ok = len(hs) == 1 and hs[0].short == "RevertibleMarket::" + helper and str(hs[0].arg_expr(0)) == "self" \
                and re.search(side, str(hs[0].arg_expr(1))) is not None \
                and (helper == "balance_for_token" or str(hs[0].arg_expr(2)) == f.param_name(2))
            if ok and helper != "balance_for_token":
                # Ok only after the helper succeeded
                ok = all(any(c is hs[0] for c in p["calls"]) for p in H.paths(f) if p["ret"] is not None and classify_result(p["ret"]) != "err")
            ctx.ob("bank-route:RevertibleMarket::" + m, ok, "%s -> %s" % (m, [(c.short, [str(c.arg_expr(i)) for i in range(len(c.args))]) for c in hs]), where=f.where())
    ctx.floor("bank-route", n, 6)


# ----------------------------------------------------------------------------- validation


def _validate(ctx, prog):
    f = ctx.fn(r"^gmsol_store::states::market::utils::ValidateMarketBalances::validate_market_balance_for_the_given_token")
    if f is not None:
        token, excluded = f.param_name(1), f.param_name(2)
        bal = r"Bank::balance_excluding\(self, %s, %s\)\?" % (re.escape(token), re.escape(excluded))
        side = r"MarketMeta::to_token_side\(HasMarketMeta::market_meta\(self\), %s\)\?" % re.escape(token)
        bounds = {"min": "BaseMarketExt::expected_min_token_balance_excluding_collateral_amount_for_one_token_side",
                  "collateral": "BaseMarketExt::total_collateral_amount_for_one_token_side"}
        bad = []
        n_ok = {True: 0, False: 0}
        for p in H.paths(f):
            if p["ret"] is None or classify_result(p["ret"]) != "ok":
                continue
            pure = H.truth_on_path(p, r"^HasMarketMeta::is_pure\(self\)$")
            if pure is None:
                bad.append("Ok path without a decision on is_pure")
                continue
            n_ok[pure] += 1
            got = {}
            for cond, lab, ty in p["conds"]:
                c = A.as_cmp(cond)
                if not c or ty != "bool":
                    continue
                op, a, b = c
                truth = isinstance(lab, tuple) or lab != 0
                if not truth:
                    op = A.NEG[op]
                sa, sb = str(a), str(b)
                if re.search(bal, sb) and not re.search(bal, sa):
                    op, sa, sb = A.FLIP[op], sb, sa
                if not re.search(r"^\(?%s( as u128)?\)?$|^u128::from\(%s\)$|^%s$" % (bal, bal, bal), sa) and not re.search(bal, sa):
                    continue
                if op not in (">=", ">"):
                    continue
                for k, fn_ in bounds.items():
                    if fn_ in sb:
                        got[k] = sb
            for k, fn_ in bounds.items():
                x = got.get(k)
                if x is None:
                    bad.append("Ok path (pure=%s) does not establish balance >= %s bound" % (pure, k))
                    continue
                own = "%s(self, %s)" % (fn_, side.replace("\\", ""))
                oth = "%s(self, Not(%s))" % (fn_, side.replace("\\", ""))
                has_own, has_oth = own in x, oth in x
                add = "u128::checked_add(" in x
                if not has_own:
                    bad.append("%s bound does not use the token's own side: %s" % (k, x[:120]))
                if pure and not (has_oth and add):
                    bad.append("pure market: %s bound omits the other side: %s" % (k, x[:160]))
                if not pure and (has_oth or add):
                    bad.append("impure market: %s bound adds the other side" % k)
        ctx.ob("validate-both:given-token", not bad and n_ok[True] >= 1 and n_ok[False] >= 1,
               "validate_market_balance_for_the_given_token: Ok paths pure=%d impure=%d, each with balance_excluding(token, excluded) >= min-token-balance and >= collateral bound%s" % (
                   n_ok[True], n_ok[False], "; BAD: " + "; ".join(sorted(set(bad))) if bad else ""), where=f.where())
    g = ctx.fn(r"^gmsol_store::states::market::utils::ValidateMarketBalances::validate_market_balances")
    if g is not None:
        pl, ps = g.param_name(1), g.param_name(2)
        calls = [c for c in g.calls if c.short.endswith("validate_market_balance_for_the_given_token")]
        bad = []
        longc = [c for c in calls if str(c.arg_expr(1)) == "HasMarketMeta::market_meta(self).long_token_mint"]
        shortc = [c for c in calls if str(c.arg_expr(1)) == "HasMarketMeta::market_meta(self).short_token_mint"]
        if len(longc) != 1 or len(shortc) != 1 or len(calls) != 2:
            bad.append("expected one validation per token, found long=%d short=%d total=%d" % (len(longc), len(shortc), len(calls)))
        else:
            if str(longc[0].arg_expr(2)) != pl or str(shortc[0].arg_expr(2)) != ps:
                bad.append("exclusions crossed: long token with %s, short token with %s" % (longc[0].arg_expr(2), shortc[0].arg_expr(2)))
            if any(re.search(r"is_pure", str(c)) for c, t in g.bool_guards(longc[0].bb)):
                # the long validation may sit after the pure fold but must run for both purities
                pass
            for p in H.paths(g):
                if p["ret"] is None or classify_result(p["ret"]) != "ok":
                    continue
                pure = H.truth_on_path(p, r"^HasMarketMeta::is_pure\(self\)$")
                has_l = any(c is longc[0] for c in p["calls"])
                has_s = any(c is shortc[0] for c in p["calls"])
                if pure is None or not has_l or has_s != (not pure):
                    bad.append("Ok path pure=%s validates long=%s short=%s" % (pure, has_l, has_s))
            # pure fold: long exclusion := long + short (checked), assigned only on the pure edge
            folds = [(bb, g._rvalue_expr(rv, 0, ())) for (bb, si, proj, rv) in g.defs().get(2, []) if proj == () and si != "call"]
            okf = len(folds) == 1 and H.guarded_by(g, folds[0][0], r"^HasMarketMeta::is_pure\(self\)$", True) \
                and re.search(r"u64::checked_add\((%s, %s|%s, %s)\)" % (pl, ps, ps, pl), str(folds[0][1])) is not None \
                and g.dominates(folds[0][0], longc[0].bb) is False and g.can_reach(folds[0][0], longc[0].bb)
            if not okf:
                bad.append("pure markets do not fold both exclusions into the long one (found %s)" % [(b, str(e)[:80]) for b, e in folds])
        ctx.ob("validate-sides:validate_market_balances", not bad, "validate_market_balances: long token always (exclusion %s), short token iff !pure (exclusion %s), pure folds %s+%s%s" % (
            pl, ps, pl, ps, "; BAD: " + "; ".join(sorted(set(bad))) if bad else ""), where=g.where())


# ----------------------------------------------------------------------------- paired transfers


def _paired(ctx, prog):
    specs = [
        ("MarketTransferInOperation::execute", r"^gmsol_store::ops::market::MarketTransferInOperation::<'_, '_>::execute", r"^token::transfer$", 1, "Bank::record_transferred_in_by_token", r"\.vault\.mint$"),
        ("MarketTransferOutOperation::execute", r"^gmsol_store::ops::market::MarketTransferOutOperation::<'_, '_>::execute", r"^TransferUtils::transfer_out$", 3, "Bank::record_transferred_out_by_token", r"token_mint"),
        ("unchecked_market_transfer_in", r"^gmsol_store::instructions::market::unchecked_market_transfer_in", r"^token::transfer$", 1, "Bank::record_transferred_in_by_token", r"\.vault\.mint$"),
    ]
    n = 0
    for key, fre, cpi_re, amt_idx, rec, tok_re in specs:
        f = ctx.fn(fre)
        if f is None:
            continue
        n += 1
        cpis = [c for c in f.calls if re.search(cpi_re, c.short)]
        recs = [c for c in f.calls if c.short in ("Bank::record_transferred_in_by_token", "Bank::record_transferred_out_by_token")]
        bad = []
        if len(cpis) != 1 or len(recs) != 1:
            bad.append("expected one vault CPI and one record call, found %d / %d" % (len(cpis), len(recs)))
        else:
            c, r = cpis[0], recs[0]
            if r.short != rec:
                bad.append("records with %s, expected %s" % (r.short, rec))
            a_c, a_r = str(c.arg_expr(amt_idx)), str(r.arg_expr(2))
            if a_c != a_r:
                bad.append("CPI moves %s but %s is recorded" % (a_c, a_r))
            if not re.search(tok_re, str(r.arg_expr(1))):
                bad.append("recorded token is %s" % r.arg_expr(1))
            gc = sorted((str(x), t) for x, t in f.bool_guards(c.bb))
            gr = sorted((str(x), t) for x, t in f.bool_guards(r.bb) if "discr(" not in str(x))
            if [g for g in gc if "discr(" not in g[0]] != gr:
                bad.append("CPI and record are under different guards: %s vs %s" % (gc, gr))
            for p in H.paths(f):
                if p["ret"] is None or classify_result(p["ret"]) != "ok":
                    continue
                if any(x is c for x in p["calls"]) != any(x is r for x in p["calls"]):
                    bad.append("an Ok path performs the transfer without recording it (or vice versa)")
            commits = [x for x in f.calls if (x.callee or "").endswith("revertible::Revertible::commit")]
            if not commits or not all(f.can_reach(r.bb, x.bb) for x in commits):
                bad.append("the recorded movement is not committed afterwards")
        ctx.ob("transfer-paired:" + key, not bad, "%s: vault CPI amount == recorded amount, same guard, %s, committed%s" % (
            key, rec.split("::")[1], "; BAD: " + "; ".join(sorted(set(bad))) if bad else ""), where=f.where())
    f = ctx.fn(r"^gmsol_store::ops::market::Execute::<'a, 'info, T>::unchecked_shift")
    if f is not None:
        n += 1
        recs = [c for c in f.calls if c.short in ("Bank::record_transferred_in_by_token", "Bank::record_transferred_out_by_token")]
        outs = {}
        ins = {}
        for c in recs:
            k = (str(c.arg_expr(1)), str(c.arg_expr(2)))
            (outs if "out" in c.short else ins).setdefault(k, []).append(str(c.arg_expr(0)))
        bad = []
        if set(outs) != set(ins) or len(outs) != 2:
            bad.append("out pairs %s vs in pairs %s" % (sorted(outs), sorted(ins)))
        for k in outs:
            if k in ins and (len(outs[k]) != 1 or len(ins[k]) != 1 or outs[k][0] == ins[k][0]):
                bad.append("pair %s: out of %s, into %s" % (k, outs[k], ins[k]))
        srcs = {m for v in outs.values() for m in v}
        dsts = {m for v in ins.values() for m in v}
        if len(srcs) != 1 or len(dsts) != 1 or srcs == dsts:
            bad.append("source markets %s, target markets %s" % (srcs, dsts))
        toks = sorted(k[0] for k in outs)
        if len(toks) == 2 and not (("long_token" in toks[0] and "short_token" in toks[1]) or ("long_token" in toks[1] and "short_token" in toks[0])):
            bad.append("tokens moved: %s" % toks)
        ctx.ob("transfer-paired:unchecked_shift", not bad, "unchecked_shift: %d (token, amount) pairs recorded out of the source market and into the target market%s" % (
            len(outs), "; BAD: " + "; ".join(bad) if bad else ""), where=f.where())
    ctx.floor("transfer-paired", n, 4)


# ----------------------------------------------------------------------------- must validate


def _must_validate(ctx, prog):
    specs = [
        ("unchecked_deposit", r"^gmsol_store::ops::market::Execute::<'a, 'info, T>::unchecked_deposit", r"^self\.market$"),
        ("unchecked_withdraw", r"^gmsol_store::ops::market::Execute::<'a, 'info, T>::unchecked_withdraw", r"^self\.market$"),
        ("execute_increase_position", r"^gmsol_store::ops::order::execute_increase_position", r"^Position::market\(position\)$"),
        ("execute_decrease_position", r"^gmsol_store::ops::order::execute_decrease_position", r"^Position::market\(position\)$"),
        ("claim_fees_from_market", r"^gmsol_store::instructions::market::claim_fees_from_market", r"RevertibleMarket::new\(ctx\.accounts\.market"),
    ]
    n = 0
    for key, fre, mk in specs:
        f = ctx.fn(fre)
        if f is None:
            continue
        n += 1
        vs = [c for c in f.calls if "ValidateMarketBalances::" in (c.callee or "")]
        own = [c for c in vs if re.search(mk, str(c.arg_expr(0)))]
        oks = [bb for bb, k, e in f.exits() if k != "err"]
        # success of the validation: continue edge of its `?`
        from .. import anchor
        cont = set()
        for c in own:
            ts = anchor.try_switch_of(f, c)
            if ts is None:
                # result mapped first (map_err) then `?`
                nxt = [x for x in f.calls if x.short in ("Result::map_err",) and x.args and isinstance(x.args[0], list) and x.args[0][0] == c.dest[0]]
                ts = anchor.try_switch_of(f, nxt[0]) if nxt else None
            if ts is not None and ts[2] is not None:
                cont.add((ts[0], ts[2]))
        reach = f.reachable_from(0, avoid_blocks=[c.bb for c in own])
        skipped = sorted(b for b in oks if b in reach)
        # Ok also not reachable through the Err edge of the validation's `?`
        leak = []
        for (sw, brk) in cont:
            r2 = f.reachable_from(brk)
            leak += [b for b in oks if b in r2 and not any(f.can_reach(c.bb, b) and c.bb != b for c in [])]
        # the break edge must lead only to Err exits
        leak = sorted(set(b for (sw, brk) in cont for b in oks if b in f.reachable_from(brk, avoid_blocks=[c.bb for c in own])))
        bad = []
        if not own:
            bad.append("no validation of the operation's own market")
        if skipped:
            bad.append("Ok exit(s) %s reachable without passing the validation" % skipped[:4])
        if leak:
            bad.append("Ok exit(s) %s reachable from the validation's failure edge" % leak[:4])
        if len(cont) != len(own):
            bad.append("a validation result is not `?`-propagated")
        if key == "claim_fees_from_market":
            commits = [x for x in f.calls if (x.callee or "").endswith("revertible::Revertible::commit")]
            if not commits or not all(any(f.dominates(c.bb, x.bb) for c in own) for x in commits):
                bad.append("commit is not dominated by the validation")
        ctx.ob("must-validate:" + key, not bad, "%s: %d validation call(s) on its own market; every Ok exit lies behind one%s" % (
            key, len(own), "; BAD: " + "; ".join(bad) if bad else ""), where=f.where())
    ctx.floor("must-validate", n, 5)
