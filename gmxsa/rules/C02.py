"""C02 Fee splitting never creates or loses tokens.

Decided (A11b linear forms over checked operations, A4 match table, A6/A7 argument + rounding tables, A1 may-construct):

 * split-identity : in `FeeParams::apply_fees` the returned (net, Fees{pool, receiver}) satisfy
                    net + pool + receiver == amount as an identity of checked_sub terms, with receiver computed
                    FROM THE FEE (not from the amount) and the fee from (balance_change, amount); the same for
                    `order_fees` (pool + receiver == fee amount, fee amount = fee value / min collateral price, floor)
                    and `LiquidationFees` (fee_amount_for_pool = fee_amount - receiver share).
 * discount       : `FeeParams::fee` = F - apply_factor(F, discount) with F = apply_factor(amount, factor(change)):
                    the discount is computed on the fee and only ever subtracted.
 * checked        : every subtraction of these functions is a `checked_sub` whose None propagates (this is what makes a
                    factor above 100 % fail instead of producing fee > amount); no raw arithmetic, no saturating/
                    wrapping/unwrap in the fee functions.
 * factor-map     : `FeeParams::factor`: Improved -> positive_impact_fee_factor; Worsened, Unchanged -> negative.
 * receiver-base  : `receiver_fee` = apply_factor(fee_amount, fee_receiver_factor).
 * liquidation    : liquidation fee amount is rounded UP at the min collateral price, receiver share rounded down.
 * construct      : `Fees` has private fields and is built only in apply_fees / Fees::new / Default; Fees::new is called
                    only from order_fees; apply_fees only from the three charge_fees with swap_fee_params().
"""
import re

from .. import analyses as A
from .. import h_A as H

FEE = r"gmsol_model::params::fee::"


def _value(ctx, key, f):
    vps = H.value_paths(f)
    if len(vps) != 1:
        ctx.ob(key + ":paths", False, "%s has %d value paths, expected exactly 1 (straight-line)" % (f.short, len(vps)), where=f.where())
        return None
    return vps[0]


def _no_raw(ctx, f):
    raw = A.arith_sites(f)
    casts = [c for c in A.cast_sites(f) if c["narrowing"] or c["sign_change"]]
    badcalls = [c.short for c in f.calls if re.search(r"(wrapping_|saturating_|overflowing_|unchecked_)|(^|::)(unwrap|expect|unwrap_or_default|unwrap_or_else)$|^(Sub::sub|Add::add|Mul::mul|Div::div)$", c.short)]
    ctx.ob("checked:" + f.short, not raw and not casts and not badcalls,
           "%s: raw arithmetic %d, lossy casts %d, wrapping/saturating/unwrap/operator calls %s" % (f.short, len(raw), len(casts), badcalls),
           where=f.where())


def run(ctx):
    prog = ctx.prog(["gmsol_model"])
    ctx.explanation = (
        "Linear-form analysis (values built only from checked_sub/checked_add of opaque atoms) of the fee functions: "
        "net + pool + receiver == amount holds as an identity in apply_fees, pool + receiver == fee amount in order_fees and "
        "LiquidationFees; the discount and the receiver share are computed from the fee and only subtracted through "
        "checked_sub whose None propagates; the balance-change -> factor map, the price side and rounding of order / "
        "liquidation fee amounts, and who may construct `Fees` are tabled and checked.")
    ctx.not_decided = (
        "fee <= amount for factors <= 100 % as an arithmetic fact (follows from monotonicity of apply_factor, C01, not shown "
        "here); that store-side configuration keeps factors <= 100 % (C16/C17/C31).")
    ctx.rule("split-identity", "net + pool + receiver == gross amount as a linear identity of checked terms")
    ctx.rule("discount", "fee = F - apply_factor(F, discount): discount only subtracted, computed on the fee")
    ctx.rule("checked", "no raw / wrapping / saturating arithmetic in the fee functions; failures propagate")
    ctx.rule("factor-map", "BalanceChange -> fee factor field map")
    ctx.rule("receiver-base", "receiver share is apply_factor(fee, fee_receiver_factor)")
    ctx.rule("order-fee", "order fee amount = fee value / min collateral price (floor), zero price rejected")
    ctx.rule("liquidation", "liquidation fee amount rounded up at min price; receiver share floor; pool = amount - receiver")
    ctx.rule("construct", "Fees constructed only by apply_fees / Fees::new / Default; callers enumerated")

    fee = ctx.fn(FEE + r"FeeParams::<T>::fee")
    recv = ctx.fn(FEE + r"FeeParams::<T>::receiver_fee")
    apply_fees = ctx.fn(FEE + r"FeeParams::<T>::apply_fees")
    order = ctx.fn(FEE + r"FeeParams::<T>::order_fees")
    factor = ctx.fn(FEE + r"FeeParams::<T>::factor")
    disc = ctx.fn(FEE + r"FeeParams::<T>::discount_factor")
    liq = ctx.fn(FEE + r"LiquidationFeeParams::<T>::fee")
    liq_pool = ctx.fn(FEE + r"LiquidationFees::<T>::fee_amount_for_pool")
    new = ctx.fn(FEE + r"Fees::<T>::new")
    n_checked = 0
    for f in (fee, recv, apply_fees, order, liq, liq_pool):
        if f is not None:
            _no_raw(ctx, f)
            n_checked += 1
    ctx.floor("checked", n_checked, 6)

    # ---------------------------------------------------------------- apply_fees
    if apply_fees is not None:
        p = _value(ctx, "split-identity:apply_fees", apply_fees)
        if p is not None:
            def atom(x):
                if H.is_call(x, r"^FeeParams::fee$"):
                    return "FEE(%s)" % ",".join(str(a) for a in H.call_args(x))
                if H.is_call(x, r"^FeeParams::receiver_fee$"):
                    inner = H.peel(H.call_args(x)[1])
                    return "RECV(%s)" % (atom(inner) or str(inner))
                if x.k == "param":
                    return str(x)
                return None
            e = H.peel(p.ret)
            ok, msg = False, "result is not Some((net, Fees{..})): %s" % e
            if e.k == "agg" and e.a[0] == "tuple" and len(e.a[1]) == 2:
                net, fees = e.a[1][0][1], e.a[1][1][1]
                fl = dict(fees.a[1]) if fees.k == "agg" else {}
                if set(fl) == {"fee_amount_for_receiver", "fee_amount_for_pool"}:
                    try:
                        ln, lp, lr = H.linform(net, atom), H.linform(fl["fee_amount_for_pool"], atom), H.linform(fl["fee_amount_for_receiver"], atom)
                        total = H._comb(H._comb(ln, lp, 1), lr, 1)
                        total = {k: v for k, v in total.items() if v}
                        F = "FEE(self,balance_change,amount)"
                        R = "RECV(%s)" % F
                        ok = total == {"amount": 1} and ln == {"amount": 1, F: -1} and lp == {F: 1, R: -1} and lr == {R: 1}
                        msg = "net=%s pool=%s receiver=%s sum=%s" % (ln, lp, lr, total)
                    except H.NotLinear as ex:
                        msg = "not linear: %s" % ex
            ctx.ob("split-identity:apply_fees", ok, "apply_fees: %s (want net=amount-FEE, pool=FEE-RECV(FEE), receiver=RECV(FEE), sum=amount)" % msg,
                   where=apply_fees.where())
            subs = [c for c in apply_fees.calls if re.search(r"checked_sub$", c.short)]
            tried = all(any(t.short == "Try::branch" and t.bb == c.target for t in apply_fees.calls) for c in subs)
            ctx.ob("checked:apply_fees:sub-propagates", len(subs) >= 2 and tried,
                   "apply_fees: %d checked_sub call(s), each consumed by `?` (fee > amount or receiver > fee => None)" % len(subs), where=apply_fees.where())

    # ---------------------------------------------------------------- fee (discount)
    if fee is not None:
        p = _value(ctx, "discount:fee", fee)
        if p is not None:
            def atom2(x):
                if H.is_call(x, r"^utils::apply_factor$"):
                    a0, a1 = [H.peel(a) for a in H.call_args(x)]
                    if str(a0) == "amount" and str(a1) == "FeeParams::factor(self, balance_change)":
                        return "F"
                    if atom2(a0) == "F" and str(a1) == "FeeParams::discount_factor(self)":
                        return "D(F)"
                    return "apply_factor(%s,%s)" % (a0, a1)
                return None
            try:
                lf = H.linform(p.ret, atom2)
            except H.NotLinear as ex:
                lf = {"nonlinear": str(ex)}
            top = H.peel(p.ret)
            ctx.ob("discount:fee", lf == {"F": 1, "D(F)": -1} and H.is_call(top, r"^CheckedSub::checked_sub$"),
                   "FeeParams::fee = %s with F = apply_factor(amount, factor(balance_change)), D(F) = apply_factor(F, discount_factor()); top operation %s" % (
                       lf, top.a[0] if top.k == "call" else top.k), where=fee.where())
    if disc is not None:
        p = _value(ctx, "discount:discount_factor", disc)
        if p is not None:
            s = str(p.ret)
            ctx.ob("discount:discount_factor", "self.discount_factor" in s and "Zero::zero()" in s and not re.search(r"fee_receiver_factor|impact_fee_factor", s),
                   "discount_factor() reads self.discount_factor, defaulting to zero: %s" % s, where=disc.where())

    # ---------------------------------------------------------------- factor map
    if factor is not None:
        adt = ctx.adt(r"gmsol_model::pool::delta::BalanceChange")
        if adt is not None:
            tab = A.match_table(factor, prog, r"^balance_change$", adt)
            got = {k: sorted(str(x) for x in v) for k, v in tab.items() if v}
            want = {"Improved": ["self.positive_impact_fee_factor"], "Worsened": ["self.negative_impact_fee_factor"],
                    "Unchanged": ["self.negative_impact_fee_factor"]}
            ctx.ob("factor-map:FeeParams::factor", got == want and sorted(adt.variant_names()) == sorted(want),
                   "FeeParams::factor: %s (variants %s)" % (got, adt.variant_names()), where=factor.where())
    # ---------------------------------------------------------------- receiver base
    if recv is not None:
        p = _value(ctx, "receiver-base:receiver_fee", recv)
        if p is not None:
            ctx.ob("receiver-base:receiver_fee", str(H.peel(p.ret)) == "utils::apply_factor(fee_amount, self.fee_receiver_factor)",
                   "receiver_fee = %s" % p.ret, where=recv.where())

    # ---------------------------------------------------------------- order fees
    if order is not None and new is not None:
        vps = H.value_paths(order)
        pnew = _value(ctx, "construct:Fees::new", new)
        newmap = dict(pnew.ret.a[1]) if pnew is not None and pnew.ret.k == "agg" else {}
        ctx.ob("construct:Fees::new", {k: str(v) for k, v in newmap.items()} == {"fee_amount_for_receiver": "receiver", "fee_amount_for_pool": "pool"},
               "Fees::new(pool, receiver) stores pool -> fee_amount_for_pool, receiver -> fee_amount_for_receiver: %s" % {k: str(v) for k, v in newmap.items()},
               where=new.where())
        ok_paths = bool(vps)
        for p in vps:
            e = H.peel(p.ret)
            fl = dict(e.a[1]) if e.k == "agg" else {}
            base = fl.get("base")
            fv = fl.get("fee_value")

            def atom3(x):
                x = H.peel(x, calls=("Option::ok_or",))
                if H.is_call(x, r"^FeeParams::fee$"):
                    return "FEEV(%s)" % ",".join(str(a) for a in H.call_args(x))
                if H.is_call(x, r"^CheckedDiv::checked_div$"):
                    a0, a1 = H.call_args(x)
                    return "DIV(%s;%s)" % (atom3(a0) or a0, a1)
                if H.is_call(x, r"^FeeParams::receiver_fee$"):
                    inner = H.call_args(x)[1]
                    return "RECV(%s)" % (atom3(inner) or inner)
                return None
            AMT = "DIV(FEEV(self,balance_change,size_delta_usd);Price::pick_price(collateral_token_price, false))"
            good = False
            msg = "result is not OrderFees{base: Fees::new(..), fee_value}"
            if base is not None and H.is_call(H.peel(base), r"^Fees::new$") and fv is not None:
                a_pool, a_recv = H.call_args(H.peel(base))
                try:
                    lp = H.linform(a_pool, atom3, transparent=H.LIN_TRANSPARENT)
                    lr = H.linform(a_recv, atom3)
                    lv = H.linform(fv, atom3)
                    good = lp == {AMT: 1, "RECV(%s)" % AMT: -1} and lr == {"RECV(%s)" % AMT: 1} and lv == {"FEEV(self,balance_change,size_delta_usd)": 1}
                    msg = "pool=%s receiver=%s fee_value=%s" % (lp, lr, lv)
                except H.NotLinear as ex:
                    msg = "not linear: %s" % ex
            ok_paths = ok_paths and good and p.holds(r"^Price::has_zero\(collateral_token_price\)$", False)
            ctx.ob("split-identity:order_fees", good, "order_fees: %s (want pool = AMT - RECV(AMT), receiver = RECV(AMT), AMT = fee value / pick_price(false))" % msg,
                   where=order.where())
        zero = [p for p in H.none_paths(order) if p.holds(r"^Price::has_zero\(collateral_token_price\)$", True)]
        ctx.ob("order-fee:zero-price", bool(zero) and ok_paths, "a zero collateral price is rejected before any division (%d path); value paths under has_zero == false" % len(zero),
               where=order.where())
        divs = [c for c in order.calls if H.prim_class(c.callee)]
        sides = [(c.short, str(c.arg_expr(1))) for c in divs]
        ctx.ob("order-fee:rounding-side", sides == [("CheckedDiv::checked_div", "Price::pick_price(collateral_token_price, false)")],
               "order fee amount: one division, floor, by the MIN collateral price: %s" % sides, where=order.where())
        ctx.floor("order-fee", len(vps), 1)

    # ---------------------------------------------------------------- liquidation
    if liq is not None:
        vps = [p for p in H.value_paths(liq) if p.holds(r"^Zero::is_zero\(self\.factor\)$", False)]
        ok = bool(vps)
        msg = ""
        for p in vps:
            e = H.peel(p.ret)
            fl = dict(e.a[1]) if e.k == "agg" else {}
            pk = lambda x: H.peel(x, calls=("Option::ok_or",))
            fv = pk(fl["fee_value"]) if "fee_value" in fl else None
            fa = pk(fl["fee_amount"]) if "fee_amount" in fl else None
            fr = pk(fl["fee_amount_for_receiver"]) if "fee_amount_for_receiver" in fl else None
            good = fv is not None and str(fv) == "utils::apply_factor(size_delta_usd, self.factor)"
            good = good and fa is not None and H.is_call(fa, r"^Unsigned::checked_round_up_div$") and str(pk(H.call_args(fa)[0])) == str(fv) \
                and str(H.call_args(fa)[1]) == "Price::pick_price(collateral_token_price, false)"
            good = good and fr is not None and H.is_call(fr, r"^utils::apply_factor$") and str(pk(H.call_args(fr)[0])) == str(fa) \
                and str(H.call_args(fr)[1]) == "self.receiver_factor"
            ok = ok and good
            msg = "fee_value=%s; fee_amount=%s; receiver=%s" % (fv, fa.a[0] if fa is not None and fa.k == "call" else fa, fr.a[0] if fr is not None and fr.k == "call" else fr)
        ctx.ob("liquidation:fee", ok, "LiquidationFeeParams::fee: value = size*factor (floor); amount = ceil(value / min price); receiver = amount*receiver_factor (floor) — %s" % msg,
               where=liq.where())
        zs = [p for p in H.value_paths(liq) if p.holds(r"^Zero::is_zero\(self\.factor\)$", True)]
        ctx.ob("liquidation:zero-factor", bool(zs) and all(str(H.peel(p.ret)) == "Default::default()" for p in zs), "zero factor -> default (all-zero) fees", where=liq.where())
    if liq_pool is not None:
        p = _value(ctx, "liquidation:pool", liq_pool)
        if p is not None:
            try:
                lf = H.linform(H.peel(p.ret, calls=("Option::ok_or",)))
            except H.NotLinear as ex:
                lf = str(ex)
            ctx.ob("liquidation:pool", lf == {"self.fee_amount": 1, "self.fee_amount_for_receiver": -1} and bool(p.ret.calls(r"^CheckedSub::checked_sub$")),
                   "LiquidationFees::fee_amount_for_pool = %s via checked_sub" % lf, where=liq_pool.where())

    # ---------------------------------------------------------------- who constructs Fees
    adt = ctx.adt(FEE + r"Fees")
    if adt is not None:
        priv = all(not f["vis"].startswith("Public") for f in adt.fields)
        sites = set()
        for f in prog.fns.values():
            for bb, si, s in f.statements():
                if s[0] == "=" and s[2][0] == "agg" and s[2][1] == "adt" and s[2][2] == adt.id:
                    sites.add(f.id)
        allowed = {FEE + "FeeParams::<T>::apply_fees", FEE + "Fees::<T>::new", "<gmsol_model::params::fee::Fees<T> as std::default::Default>::default"}
        ctx.ob("construct:Fees", priv and sites == allowed and [f["name"] for f in adt.fields] == ["fee_amount_for_receiver", "fee_amount_for_pool"],
               "Fees fields private=%s; aggregate construction sites: %s" % (priv, sorted(s.split("::")[-2] + "::" + s.split("::")[-1] for s in sites)),
               where="%s:%d" % (adt.file, adt.line))
    if new is not None:
        cs = sorted(set(c.fn.id for c in prog.callers_of(new.id)))
        ctx.ob("construct:Fees::new:callers", cs == [FEE + "FeeParams::<T>::order_fees"], "Fees::new is called only from order_fees: %s" % cs, where=new.where())
    if apply_fees is not None:
        callers = prog.callers_of(apply_fees.id)
        names = sorted(set(c.fn.id for c in callers))
        want = sorted(["gmsol_model::action::deposit::Deposit::<M, DECIMALS>::charge_fees", "gmsol_model::action::withdraw::Withdrawal::<M, DECIMALS>::charge_fees",
                       "gmsol_model::action::swap::Swap::<M, DECIMALS>::charge_fees"])
        srcs = sorted(set(str(c.arg_expr(0)) for c in callers))
        ctx.ob("construct:apply_fees:callers", names == want and all(re.search(r"swap_fee_params\(", s) for s in srcs),
               "apply_fees is called from %s with parameters from %s" % ([n.split("::")[-3] + "::" + n.split("::")[-1] for n in names], srcs), where=apply_fees.where())
        ctx.floor("construct:apply_fees-callers", len(callers), 3)
        # each charge_fees hands the NET amount on and returns the fees
        for c in callers:
            g = c.fn
            ctx.analysed_fns.add(g.id)
            kinds = sorted(set(k for _, k, _ in g.exits()))
            failure = [x for x in g.calls if x.short in ("Option::ok_or", "Option::ok_or_else") and x.bb == c.target]
            ctx.ob("construct:charge_fees:%s" % g.id.split("::")[-3], bool(failure) and "err" in kinds,
                   "%s: a None from apply_fees becomes an Err (ok_or directly on the result) — exits %s" % (g.short, kinds), where=g.where())
