"""C08 Market token accounting is conserved and funding payouts stay backed — rounding & reporting clauses here,
per-action conservation identities in gmxsa/h_B_c08.py (keys conserve:*).

Decided (structural, necessary):
 * set_deltas packs the PAYER index (delta_funding_amount_per_size[flags_to_index(longs_pay_shorts, c)]) with
   round_up_magnitude = true over the payer side's open interest and the RECEIVER index
   (delta_claimable_funding_amount_per_size[flags_to_index(!longs_pay_shorts, c)]) with false over receiver_interest;
   next_funding_amount_per_size passes the payer's / receiver's open interest accordingly;
 * pack_to_funding_amount_per_size / unpack_to_funding_amount_delta: the `true` arm reaches only ceil primitives, the
   `false` arm only floor primitives;
 * PositionExt::pending_funding_fees unpacks the payable amount with true against (market funding index, position
   funding index) and each claimable amount with false against (market claimable index[c], position claimable index[c])
   of the same collateral flag, and routes them to amount / claimable_long / claimable_short;
 * do_pay_for_cost converts the cost with checked_round_up_div at the output token's min price; funding cost is
   cost_amount * the same min price;
 * pay_for_funding_fees reports: under paid_in_collateral_amount < cost_amount the callback
   on_insufficient_funding_fee_payment(cost, paid, paid_secondary, is_output_token_long) is called and its error
   propagated; pay_for_cost always runs the receiver closure after do_pay_for_cost; the store's implementation of the
   callback emits the InsufficientFundingFeePayment event with these values;
 * the model-trait impls of the store's revertible market reach no token-program CPI.
"""
import re

from .. import analyses as A
from .. import h_B as H
from ..model import short_path

CEIL = {"MulDiv::checked_mul_div_ceil", "Unsigned::checked_round_up_div", "RoundUpDiv::checked_round_up_div"}
FLOOR = {"MulDiv::checked_mul_div", "CheckedDiv::checked_div"}
ROUNDING = re.compile(r"(mul_div|round_up_div|checked_div|div_ceil|Div::div)")


def run(ctx):
    prog = ctx.prog(["gmsol_model", "gmsol_store"])
    ctx.explanation = (
        "Rounding polarity and shortfall reporting of funding fees: constant bool arguments of the pack/unpack calls are "
        "tied to the payer/receiver destination they feed (provenance of the other arguments), the rounding primitives "
        "reached in each arm of pack/unpack are classified ceil/floor, the cost conversion in do_pay_for_cost rounds up at "
        "the min price, and the insufficient-payment callback is shown to be called (and to emit the store event) exactly "
        "under paid_in_collateral_amount < cost_amount.")
    ctx.not_decided = (
        "Conservation over whole histories and non-negativity of the funding residual (only the per-action identities, "
        "rounding directions and shortfall report it relies on are checked). Inside DecreasePosition: the fully-paid fee "
        "branch (credit for_pool+for_receiver vs debit paid_in_collateral_amount: equal by arithmetic only), the collateral "
        "part of funding fees (credited to no pool by design), claimable-collateral buckets, insolvent close, the swaps (C04) "
        "and index-token amounts (position impact pool).")
    for rid, txt in (
            ("round-pack", "set_deltas: payer index packed with round_up=true over payer OI; receiver index with false over receiver OI"),
            ("round-prims", "pack/unpack: the true arm reaches only ceil primitives, the false arm only floor primitives"),
            ("round-unpack", "pending_funding_fees: payable unpacked with true, claimables with false; latest/position index of the same kind and flag"),
            ("pay-cost", "do_pay_for_cost rounds the cost up at pick_price(false) of the output token; funding cost = amount * that price"),
            ("insufficient-report", "shortfall callback called under paid_in_collateral < cost with the right values; store impl emits the event"),
            ("no-token-cpi", "store's revertible-market impls of the model traits reach no token-program CPI"),
            ("conserve", "per action and token side, on every success path: the deltas applied to the token pools (liquidity, swap impact, "
                         "claimable fees, collateral sum) sum, as linear forms over opaque atoms, to the tokens paid in minus the tokens paid out")):
        ctx.rule(rid, txt)
    _pack_sites(ctx, prog)
    _prims(ctx, prog)
    _unpack_sites(ctx, prog)
    _pay_cost(ctx, prog)
    _report(ctx, prog)
    _no_cpi(ctx, prog)
    from .. import h_B_c08
    h_B_c08.run(ctx, prog)


def _find_call(e, name_re):
    cs = e.calls(name_re)
    return cs[0] if cs else None


def _pack_sites(ctx, prog):
    sd = ctx.fn(r"UpdateFundingState::<M, DECIMALS>::set_deltas")
    if sd is None:
        return
    want = {
        "delta_funding_amount_per_size": ("payer", "true", r"^flags_to_index\(longs_pay_shorts, ",
                                          r"^BalanceExt::amount\(BaseMarket::open_interest_pool\(self\.market, longs_pay_shorts\)\?, "),
        "delta_claimable_funding_amount_per_size": ("receiver", "false", r"^flags_to_index\(Not\(longs_pay_shorts\), ", r"^receiver_interest$"),
    }
    seen = {}
    for w in A.field_writes(sd, r"^report\.delta_(claimable_)?funding_amount_per_size\["):
        if w["kind"] != "assign" or sd.blocks[w["bb"]].get("cleanup") or w["rv"] is None:
            continue
        m = re.match(r"^report\.(\w+)\[(.*)\]$", w["path"])
        fld, idx = m.group(1), m.group(2)
        if re.match(r"^_\d+$", idx):
            idx = str(sd.local_expr(int(idx[1:])))
        role, flag, idx_re, oi_re = want[fld]
        pk = _find_call(w["rv"], r"pack_to_funding_amount_per_size$")
        if pk is None:
            ctx.ob("round-pack:" + role, False, "%s is not assigned from pack_to_funding_amount_per_size" % fld, where=sd.where(w["line"]))
            continue
        a = pk.a[1]
        # the same collateral flag must select the index and (payer) the open-interest amount
        coll_idx = re.sub(idx_re, "", re.sub(r"^update_funding_state::", "", idx)).rstrip(")")
        same_coll = True
        if role == "payer":
            mm = re.match(oi_re + r"(.*)\)\?$", str(a[2]))
            same_coll = bool(mm) and mm.group(1) == coll_idx
        ok = str(a[4]) == flag and re.search(idx_re, re.sub(r"^update_funding_state::", "", idx)) is not None and \
            re.search(oi_re, str(a[2])) is not None and same_coll
        seen[role] = True
        ctx.ob("round-pack:" + role, ok,
               "%s[%s] = pack(.., open_interest=%s, round_up_magnitude=%s) — expected %s index, round_up=%s" % (
                   fld, re.sub(r"Iterator::next\(.*?\)@Some\.0", "is_long_collateral", idx)[:90], str(a[2])[:90], a[4], role, flag), where=sd.where(w["line"]))
    for role in ("payer", "receiver"):
        if role not in seen:
            ctx.ob("round-pack:" + role, False, "no store of the %s index found in set_deltas" % role, where=sd.where())
    # caller: payer / receiver open interest
    nf = ctx.fn(r"UpdateFundingState::<M, DECIMALS>::next_funding_amount_per_size")
    if nf is not None:
        ps = [p for p in H.success_paths(nf) if H.path_calls(p, r"::set_deltas$")]
        tab = {}
        bad = []
        for p in ps:
            cs = H.path_calls(p, r"::set_deltas$")[0]
            a = p["ev"].call_args(cs)
            lps = str(a[2])
            t = None
            for cond, lab, ty in p["conds"]:
                if ty != "bool":
                    continue
                taken = isinstance(lab, tuple) or lab != 0
                if str(cond) == lps:
                    t = taken
                elif str(cond) == "Not(%s)" % lps:
                    t = not taken
            recv = "long" if re.match(r"^Balance::long_amount\(BaseMarketExt::open_interest\(self\.market\)\?\)\?$", str(a[5])) else (
                "short" if re.match(r"^Balance::short_amount\(BaseMarketExt::open_interest\(self\.market\)\?\)\?$", str(a[5])) else "?")
            af = H.path_calls(p, r"utils::apply_factor$")
            payer = "?"
            if af:
                x = str(p["ev"].call_args(af[0])[0])
                payer = "long" if x.startswith("Balance::long_amount(BaseMarketExt::open_interest(") else (
                    "short" if x.startswith("Balance::short_amount(BaseMarketExt::open_interest(") else "?")
            if t is None:
                bad.append("no branch on longs_pay_shorts")
                continue
            tab.setdefault(t, set()).add((payer, recv))
        good = not bad and tab == {True: {("long", "short")}, False: {("short", "long")}}
        ctx.ob("round-pack:payer-receiver-interest", good,
               "next_funding_amount_per_size: longs_pay_shorts -> (payer OI, receiver OI) = %s%s" % (
                   {k: sorted(v) for k, v in tab.items()}, "; %s" % bad[:1] if bad else ""), where=nf.where())


def _prims(ctx, prog):
    for nm, n_floor in (("pack_to_funding_amount_per_size", 2), ("unpack_to_funding_amount_delta", 1)):
        f = ctx.fn(r"gmsol_model::action::update_funding_state::%s" % nm)
        if f is None:
            continue
        ps = H.success_paths(f, kinds=("ok", "unknown"))
        tab = {True: set(), False: set()}
        n = {True: 0, False: 0}
        for p in ps:
            t = H.path_truth(p, r"^round_up_magnitude$")
            prims = set(c.short for c in p["calls"] if ROUNDING.search(c.short))
            if t is None:
                if prims:
                    tab[True] |= prims
                    tab[False] |= prims
                continue
            n[t] += 1
            tab[t] |= prims
        okT = tab[True] and tab[True] <= CEIL and n[True] > 0
        okF = tab[False] and tab[False] <= FLOOR and n[False] > 0
        ctx.ob("round-prims:%s:true" % nm, bool(okT), "%s(round_up_magnitude=true) reaches %s (ceil only)" % (nm, sorted(tab[True])), where=f.where())
        ctx.ob("round-prims:%s:false" % nm, bool(okF), "%s(round_up_magnitude=false) reaches %s (floor only)" % (nm, sorted(tab[False])), where=f.where())
        if nm.startswith("pack"):
            ctx.ob("round-prims:%s:both-steps" % nm, len(tab[True]) == 2 and len(tab[False]) == 2,
                   "both division steps of pack follow the flag (true: %s, false: %s)" % (sorted(tab[True]), sorted(tab[False])), where=f.where())
        else:
            first = [c for c in f.calls if c.short == "CheckedSub::checked_sub"]
            ok = len(first) == 1 and [str(first[0].arg_expr(i)) for i in (0, 1)] == ["latest_funding_amount_per_size", "position_funding_amount_per_size"]
            ctx.ob("round-prims:unpack:diff", ok, "unpack starts from checked_sub(latest, position) (unsigned, fails instead of going negative)", where=f.where())


def _unpack_sites(ctx, prog):
    f = ctx.fn(r"gmsol_model::position::PositionExt::pending_funding_fees")
    if f is None:
        return
    calls = f.calls_to(r"update_funding_state::unpack_to_funding_amount_delta$")
    ctx.floor("round-unpack:calls", len(calls), 3)
    seen = set()
    for c in calls:
        a = [str(c.arg_expr(i)) for i in range(5)]
        m_pay = re.match(r"^PerpMarketExt::funding_fee_amount_per_size\(Position::market\(self\), Position::is_long\(self\), Position::is_collateral_token_long\(self\)\)\?$", a[1])
        m_cl = re.match(r"^PerpMarketExt::claimable_funding_fee_amount_per_size\(Position::market\(self\), Position::is_long\(self\), (true|false)\)\?$", a[1])
        # who consumes the result
        dest = None
        for b in f.calls:
            if b.short.startswith("FundingFeesBuilder::") and len(b.args) == 2:
                inner = b.arg_expr(1).calls(r"unpack_to_funding_amount_delta$")
                if inner and inner[0].a[2] is c:
                    dest = b.short.split("::")[1]
        if m_pay:
            key = "payable"
            ok = a[4] == "true" and a[2] == "PositionState::funding_fee_amount_per_size(self)" and dest == "amount"
        elif m_cl:
            flag = m_cl.group(1)
            key = "claimable-" + ("long" if flag == "true" else "short")
            ok = a[4] == "false" and a[2] == "PositionState::claimable_funding_fee_amount_per_size(self, %s)" % flag and \
                dest == ("claimable_long_token_amount" if flag == "true" else "claimable_short_token_amount")
        else:
            key = "unknown-" + short_path(a[1])[:30]
            ok = False
        ok = ok and a[3] == "PositionState::size_in_usd(self)"
        seen.add(key)
        ctx.ob("round-unpack:" + key, ok, "%s: unpack(latest=%s, position=%s, size=%s, round_up=%s) -> builder.%s" % (
            key, short_path(a[1].split("(")[0]), short_path(a[2].split("(")[0]) + a[2][a[2].find("("):], short_path(a[3].split("(")[0]), a[4], dest),
            where=c.where())
    for k in ("payable", "claimable-long", "claimable-short"):
        if k not in seen:
            ctx.ob("round-unpack:" + k, False, "no unpack call for %s in pending_funding_fees" % k, where=f.where())


def _pay_cost(ctx, prog):
    f = ctx.fn(r"collateral_processor::State::<T>::do_pay_for_cost")
    if f is not None:
        conv = [c for c in f.calls if ROUNDING.search(c.short) and str(c.arg_expr(0)) == "cost"]
        ok = len(conv) == 1 and conv[0].short in CEIL and \
            str(conv[0].arg_expr(1)) == "Price::pick_price(State::output_token_price(self), false)"
        ctx.ob("pay-cost:do_pay_for_cost", ok, "the USD cost is converted to output tokens once, by %s" % [(c.short, str(c.arg_expr(1))) for c in conv], where=f.where())
    g = ctx.fn(r"Context::<'_, '_, M, DECIMALS>::pay_for_funding_fees")
    if g is not None:
        pc = g.calls_to(r"CollateralProcessor::<'a, M, DECIMALS>::pay_for_cost$")
        ok = len(pc) == 1 and re.match(
            r"^Option::ok_or\(CheckedMul::checked_mul\(FundingFees::amount\(fees\), Price::pick_price\(State::output_token_price\(self\.state\), false\)\), .*\)\?$",
            str(pc[0].arg_expr(1))) is not None
        ctx.ob("pay-cost:funding-cost", bool(ok), "funding cost = fees.amount() * output_token_price.pick_price(false): %s" % (
            str(pc[0].arg_expr(1))[:120] if pc else None), where=g.where())
        if pc:
            gs = [(str(c), t) for c, t in g.bool_guards(pc[0].bb)]
            ctx.ob("pay-cost:funding-nonzero", gs == [("Zero::is_zero(FundingFees::amount(fees))", False)],
                   "pay_for_cost for funding runs exactly when fees.amount() is non-zero: %s" % gs, where=g.where())


def _report(ctx, prog):
    g = ctx.fn(r"Context::<'_, '_, M, DECIMALS>::pay_for_funding_fees")
    if g is None:
        return
    cl = prog.closures_of(g)
    if len(cl) != 1:
        ctx.ob("insufficient-report:closure", False, "pay_for_funding_fees has %d closures (expected the receiver closure)" % len(cl), where=g.where())
        return
    cl = cl[0]
    ctx.analysed_fns.add(cl.id)
    cs = cl.calls_to(r"PerpMarketMut::on_insufficient_funding_fee_payment$")
    if len(cs) != 1:
        ctx.ob("insufficient-report:call", False, "receiver closure calls on_insufficient_funding_fee_payment %d times" % len(cs), where=cl.where())
    else:
        c = cs[0]
        a = [str(c.arg_expr(i)) for i in range(5)]
        gs = [(str(x), t) for x, t in cl.bool_guards(c.bb)]
        guard_ok = ("PartialOrd::lt(paid_in_collateral_amount, ^cost_amount)", True) in gs and len(gs) == 1
        args_ok = a == ["processor.market", "^cost_amount", "paid_in_collateral_amount", "paid_in_secondary_output_amount", "processor.state.is_output_token_long"]
        ctx.ob("insufficient-report:call", guard_ok and args_ok,
               "callback(%s) under %s" % (", ".join(a[1:]), gs), where=c.where())
        # every path with paid < cost passes through the callback: the Ok exit under the true edge is dominated by the call's Ok edge
        from .. import anchor
        ts = anchor.try_switch_of(cl, c)
        oks = H.ok_blocks(cl)
        ps = H.success_paths(cl)
        missed = [p for p in ps if H.path_truth(p, r"^PartialOrd::lt\(paid_in_collateral_amount, \^cost_amount\)$") is True and c.bb not in p["blocks"]]
        ctx.ob("insufficient-report:must-call", ts is not None and not missed and len(ps) >= 2,
               "no success path of the receiver closure with paid_in_collateral_amount < cost_amount skips the callback; its error is propagated with `?`",
               where=cl.where())
        # upvar cost_amount = fees.amount()
        cr = [s for _, _, s in g.statements() if s[0] == "=" and s[2][0] == "agg" and s[2][1] == "closure"]
        cap = [str(g.expr(o)) for s in cr for o in s[2][4]]
        ctx.ob("insufficient-report:captured-cost", cap == ["FundingFees::amount(fees)"], "closure captures cost_amount = %s" % cap, where=g.where())
    pc = ctx.fn(r"CollateralProcessor::<'a, M, DECIMALS>::pay_for_cost")
    if pc is not None:
        ps = H.success_paths(pc)
        bad = []
        for p in ps:
            d = H.path_calls(p, r"State::<T>::do_pay_for_cost$")
            r = [c for c in p["calls"] if c.short in ("FnOnce::call_once",)]
            if len(d) != 1 or len(r) != 1 or p["ev"].pos[d[0].bb] > p["ev"].pos[r[0].bb]:
                bad.append("do_pay_for_cost x%d, receive x%d" % (len(d), len(r)))
                continue
            a = p["ev"].call_args(r[0])
            tup = str(a[1])
            if not re.search(r"do_pay_for_cost\(self\.state, cost\)\?\.0", tup) or not re.search(r"do_pay_for_cost\(self\.state, cost\)\?\.1", tup):
                bad.append("receiver args %s" % tup[:160])
        ctx.ob("insufficient-report:pay_for_cost", not bad and len(ps) >= 1,
               "pay_for_cost runs the receiver with (paid_in_collateral, paid_in_secondary) of do_pay_for_cost on all %d success paths%s" % (
                   len(ps), "; %s" % bad[:2] if bad else ""), where=pc.where())
    # store implementation emits the event
    si = ctx.fn(r"<gmsol_store::states::market::revertible::market::RevertibleMarket<'_, '_> as gmsol_model::PerpMarketMut<.*>>::on_insufficient_funding_fee_payment")
    if si is not None:
        new = si.calls_to(r"InsufficientFundingFeePayment::new$")
        emit = si.calls_to(r"emit_cpi$")
        ok = len(new) == 1 and len(emit) == 1
        msg = "new x%d, emit_cpi x%d" % (len(new), len(emit))
        if ok:
            a = [str(new[0].arg_expr(i)) for i in range(6)]
            ok = a[2:] == ["cost_amount", "paid_in_collateral_amount", "paid_in_secondary_output_amount", "is_collateral_token_long"] and \
                re.search(r"InsufficientFundingFeePayment::new\(", str(emit[0].arg_expr(1))) is not None
            exits = [(k, str(e)) for _, k, e in si.exits()]
            ret_ok = any("emit_cpi(" in e for k, e in exits if k != "err")
            oks = [bb for bb, k, _ in si.exits() if k != "err"]
            dom = all(si.dominates(emit[0].bb, b) for b in oks) and bool(oks)
            ok = ok and ret_ok and dom
            msg = "event(%s) built and passed to emit_cpi, whose result is returned (emit dominates every non-error exit: %s)" % (", ".join(a[2:]), dom)
        ctx.ob("insufficient-report:store-emits", ok, "RevertibleMarket::on_insufficient_funding_fee_payment: " + msg, where=si.where())


def _no_cpi(ctx, prog):
    roots = [f for f in prog.fns.values() if f.crate == "gmsol_store" and f.impl and
             re.search(r"^gmsol_model::", f.impl.get("trait") or "") and "::revertible::" in f.id]
    ctx.floor("no-token-cpi:impl-methods", len(roots), 60)
    names, seen = A.reaches_calls(prog, roots, follow_crates={"gmsol_store", "gmsol_model", "gmsol_utils"})
    TOK = r"(anchor_spl::(token|token_interface|token_2022|associated_token)::[a-z_0-9]+$|spl_token(_2022)?::instruction::|system_program::transfer$)"
    bad = sorted(n for n, sites in names.items()
                 if any(re.search(TOK, c.resolved or "") or re.search(TOK, c.callee or "") for c in sites))
    inv = [c for n, sites in names.items() for c in sites if re.search(r"(^|::)invoke(_signed)?(_unchecked)?$", c.callee or c.resolved or "")]
    inv_bad = sorted(set(c.fn.short for c in inv if not re.search(r"^gmsol_store::events::", c.fn.id)))
    ctx.ob("no-token-cpi:invoke-only-events", not inv_bad,
           "raw invoke/invoke_signed is reachable only inside the event-emission helpers (%d site(s) in %s)%s" % (
               len(inv), sorted(set(c.fn.short for c in inv)), "; OFFENDING %s" % inv_bad if inv_bad else ""), where="programs/store/src/events")
    ctx.ob("no-token-cpi:revertible", not bad,
           "no token-program CPI among %d callee names reachable from the %d model-trait methods of the store's revertible market/position "
           "(%d bodies)%s" % (len(names), len(roots), len(seen), "; FOUND %s" % bad if bad else ""), where="programs/store/src/states/market/revertible")
