"""C04 A swap moves exactly the traded tokens and is all-or-nothing.

Decided (structural, necessary):
 * try_execute is read-only: it takes `&self`, the Cache holds `&M`, and no `*_mut` accessor / `&mut` market
   method is reachable from it inside gmsol_model  => a failed try_execute cannot have changed a pool;
 * Swap::execute is atomic: every store into the market lies behind the Ok edge of `try_execute()?` and no
   fallible exit is reachable after the first store;
 * write-back completeness and naming agreement: every pool field of `Cache` is written back in `execute`
   into the pool returned by the `*_mut` accessor of the same name, on every success path
   (virtual inventory: under `Some`);
 * token flow as linear forms on every success path of try_execute (3 today: negative impact,
   positive impact uncapped, positive impact capped):
       in-side : Δliquidity + Δimpact + Δclaimable = amount_after_fees + fee_for_pool + fee_for_receiver
       out-side: −(Δliquidity + Δimpact)            = reported token_out_amount
   with the fees charged on `params.token_in_amount`;
 * side polarity: the impact-pool side that is capped (argument of swap_impact_amount_with_cap) is the side
   the amount is deducted from, and it is priced with the price of that side's token; reassign_values maps
   is_token_in_long -> (long, short) prices; Delta::new_one_side / new_both_sides put `first` on the named side.
"""
import json
import os
import re

from .. import analyses as A
from .. import h_B as H
from ..model import short_path

SIDE = r"^self\.params\.is_token_in_long$"
MUT_RE = r"(_mut$|BaseMarketMut|SwapMarketMut|LiquidityMarketMut|PositionImpactMarketMut|PerpMarketMut|BorrowingFeeMarketMut)"
_T = json.load(open(os.path.join(os.path.dirname(os.path.dirname(os.path.dirname(os.path.abspath(__file__)))), "tables", "C04.json")))
WRITEBACK = {k: v["accessor"] for k, v in _T["writeback"].items()}   # Cache field -> accessor that must receive it
SOURCE = dict(_T["source"])                                          # Cache field -> immutable accessor it is computed from


def run(ctx):
    prog = ctx.prog(["gmsol_model"])
    ctx.explanation = (
        "Swap::try_execute is shown read-only (signature `&self`, Cache holds `&M`, no *_mut accessor reachable), "
        "Swap::execute stores the four cached pools only behind try_execute's Ok edge with no fallible exit after the "
        "first store, each Cache pool goes to the accessor of the same name, and on each of the success paths of "
        "try_execute the deltas applied to liquidity / swap-impact / claimable-fee pools are evaluated as integer "
        "linear forms over opaque atoms: the in-side deltas sum to amount_after_fees + both fee parts (fees charged on "
        "params.token_in_amount) and the out-side deltas sum to minus the reported token_out_amount.")
    ctx.not_decided = (
        "That amount_after_fees + fee_for_pool + fee_for_receiver equals the input amount (fee split, C02); "
        "sign of the amount returned by swap_impact_amount_with_cap (same sign as its usd_impact argument — "
        "debug_asserted in the source, assumed here to resolve |x|); correctness of the Pool implementation's "
        "checked_apply_delta itself; value of the output (C05).")
    ctx.rule("readonly", "try_execute takes &self, Cache.market is &M, and no *_mut / &mut-market method is reachable from it")
    ctx.rule("atomic", "in Swap::execute every market store is behind try_execute's Ok edge and no Err exit is reachable after the first store")
    ctx.rule("writeback", "each pool field of Cache is stored through the *_mut accessor of the same name on every success path")
    ctx.rule("cache-source", "each cached pool is computed from the immutable accessor of the same pool of self.market")
    ctx.rule("flow-in", "per success path: in-side deltas of liquidity+impact+claimable == amount_after_fees + fee_for_pool + fee_for_receiver")
    ctx.rule("flow-out", "per success path: out-side deltas of liquidity+impact == -(reported token_out_amount)")
    ctx.rule("fee-base", "fees are charged on params.token_in_amount")
    ctx.rule("impact-side", "side capped == side deducted; priced with that side's token price")
    ctx.rule("reassign-prices", "reassign_values: is_token_in_long -> (token_in_price, token_out_price) = (long, short), else (short, long)")
    ctx.rule("delta-ctor", "Delta::new_one_side/new_both_sides place the first amount on the named side")

    te = ctx.fn(r"gmsol_model::action::swap::Swap::<M, DECIMALS>::try_execute")
    ex = ctx.fn(r"<gmsol_model::action::swap::Swap<M, DECIMALS> as gmsol_model::action::MarketAction>::execute")
    cache = ctx.adt(r"gmsol_model::action::swap::Cache")
    if te is None or ex is None or cache is None:
        return
    _readonly(ctx, prog, te, cache)
    _atomic_and_writeback(ctx, prog, ex, cache)
    _flow(ctx, prog, te)
    _aux(ctx, prog)


# ---------------------------------------------------------------------------------------------- (i)

def _readonly(ctx, prog, te, cache):
    self_ty = te.locals[1][0]
    ctx.ob("readonly:signature", self_ty.startswith("&") and not self_ty.startswith("&mut"),
           "try_execute receives `%s` (shared borrow)" % self_ty.split("<")[0], where=te.where())
    mty = cache.field("market")["ty"]
    ctx.ob("readonly:cache-market", mty.startswith("&") and not mty.startswith("&mut"),
           "Cache.market has type `%s` (shared borrow)" % mty, where="%s:%d" % (cache.file, cache.line))
    names, seen = A.reaches_calls(prog, [te], follow_crates={"gmsol_model"})
    bad = sorted(n for n, sites in names.items()
                 if any(re.search(MUT_RE, c.callee or "") or re.search(MUT_RE, c.resolved or "") for c in sites))
    ctx.ob("readonly:no-mut-call", not bad,
           "no *_mut accessor or &mut-market trait method among the %d callee names reachable from try_execute through "
           "%d gmsol_model bodies%s" % (len(names), len(seen), "; FOUND %s" % bad if bad else ""), where=te.where(),
           detail={"bodies": len(seen)})
    ctx.floor("readonly:bodies", len(seen), 40)
    # the validations run against the cache
    ws = A.writes_through_self(te)
    ctx.ob("readonly:no-self-store", not ws, "try_execute has no store / &mut borrow rooted at self (%d)" % len(ws), where=te.where())


# ---------------------------------------------------------------------------------------------- (ii)+(iii)

def _atomic_and_writeback(ctx, prog, ex, cache):
    tcalls = ex.calls_to(r"Swap::<M, DECIMALS>::try_execute$")
    if len(tcalls) != 1:
        ctx.ob("atomic:try_execute-call", False, "execute calls try_execute %d times (expected once)" % len(tcalls), where=ex.where())
        return
    tc = tcalls[0]
    from .. import anchor
    ts = anchor.try_switch_of(ex, tc)
    ok_edge = ts[1] if ts else None
    ctx.ob("atomic:try_execute-call", ok_edge is not None, "execute calls try_execute once and propagates its error with `?`",
           where=tc.where())
    if ok_edge is None:
        return
    writes = [w for w in A.field_writes(ex, r"self\.market") if not ex.blocks[w["bb"]].get("cleanup")]
    stores = [w for w in writes if w["kind"] == "assign"]
    borrows = [w for w in writes if w["kind"] == "mutborrow"]
    pre = [w for w in writes if not ex.dominates(ok_edge, w["bb"])]
    ctx.ob("atomic:writes-behind-ok", not pre and len(stores) >= 4,
           "all %d stores and %d &mut borrows of self.market in execute are dominated by the Ok edge of try_execute()?" % (
               len(stores), len(borrows)), where=ex.where(), detail={"offending_blocks": [w["bb"] for w in pre]})
    first_blocks = [w["bb"] for w in borrows + stores]
    errs = sorted(set(b for w in first_blocks for b in A.err_after(ex, w)))
    ctx.ob("atomic:no-err-after-write", not errs,
           "no Err-constructing exit is reachable after the first &mut borrow of self.market (fallible exits after: %d)" % len(errs),
           where=ex.where(), detail={"err_blocks": errs})
    # fallible calls after the Ok edge other than expect()
    after = [c for c in ex.calls if ex.dominates(ok_edge, c.bb) and c.short == "Try::branch"]
    ctx.ob("atomic:no-try-after", not after, "no `?` behind the Ok edge of try_execute (%d)" % len(after), where=ex.where())

    # write-back table
    pool_fields = [f["name"] for f in cache.fields if f["name"] != "market"]
    ctx.floor("writeback:cache-fields", len(pool_fields), 4)
    oks = H.ok_blocks(ex)
    for fld in pool_fields:
        want = WRITEBACK.get(fld)
        if want is None:
            ctx.ob("writeback:" + fld, False, "Cache field `%s` has no reviewed write-back accessor (new pool in the cache?)" % fld,
                   where="%s:%d" % (cache.file, cache.line))
            continue
        ws = [w for w in stores if w["rv"] is not None and re.search(r"try_execute\(self\)\?\.0\.%s(@Some\.0)?$" % fld, str(w["rv"]))]
        if not ws:
            ctx.ob("writeback:" + fld, False, "Cache.%s is never stored into the market" % fld, where=ex.where())
            continue
        w = ws[0]
        accs = re.findall(r"([A-Za-z_]+_mut)\(self\.market\)", w["path"])
        on_all = all(ex.dominates(w["bb"], o) for o in oks)
        cond_ok = True
        how = "on every success path"
        if fld == "virtual_inventory":
            # stored under Some(..) only; the None arm must not store anything else
            gs = [(str(c), al) for (_s, c, al, _l) in ex.guards(w["bb"])]
            cond_ok = any(re.search(r"discr\(.*\.virtual_inventory\)$", c) and al == frozenset([1]) for c, al in gs)
            on_all = True
            how = "under `Some(pool)` of the cached option"
        ctx.ob("writeback:" + fld, accs == [want] and on_all and cond_ok and len(ws) == 1,
               "Cache.%s is stored once through %s (expected %s) %s" % (fld, accs, want, how),
               where=ex.where(w["line"]), detail={"dest": w["path"][:200]})
    for fld in WRITEBACK:
        if fld not in pool_fields:
            ctx.ob("writeback:" + fld, False, "reviewed Cache field `%s` no longer exists" % fld, where="%s:%d" % (cache.file, cache.line))


# ---------------------------------------------------------------------------------------------- (iv)+(v)

def _flow(ctx, prog, te):
    paths = H.success_paths(te)
    ctx.floor("flow:success-paths", len(paths), 3)
    seen_classes = set()
    for p in paths:
        ev = p["ev"]
        ret = p["ret"]
        try:
            tup = dict(dict(ret.a[1])["0"].a[1])
            cache = dict(tup["0"].a[1])
            res = dict(tup["1"].a[1])
        except Exception:
            ctx.ob("flow-in:shape", False, "success return of try_execute is not Ok((Cache{..}, SwapResult{..})): %s" % str(ret)[:120], where=te.where())
            continue
        # classify the path by the sign branch on the impact value
        pos = None
        pos_operand = None
        for cond, lab, ty in p["conds"]:
            if ty == "bool" and cond.k == "call" and cond.a[0] == "Signed::is_positive" and \
                    re.search(r"swap_impact_value\(.*\.value$", str(cond.a[1][0])) and "swap_impact_amount_with_cap" not in str(cond.a[1][0]):
                pos = isinstance(lab, tuple) or lab != 0
                pos_operand = str(cond.a[1][0])
        if pos is None:
            ctx.ob("flow-in:shape", False, "success path without a branch on is_positive(price impact value)", where=te.where())
            continue
        caps = [c for c in p["calls"] if c.short == "SwapMarketExt::swap_impact_amount_with_cap"]
        cls = ("positive-capped" if len(caps) == 2 else "positive") if pos else "negative"
        if cls in seen_classes:
            cls += "-bis"
        seen_classes.add(cls)

        def sign_of(x, pos_operand=pos_operand, pos=pos):
            # sign of `swap_impact_amount_with_cap(..)?.0` = sign of its usd_impact argument
            m = x
            while m.k in ("try", "field"):
                m = m.a[0]
            if m.k == "call" and m.a[0] == "SwapMarketExt::swap_impact_amount_with_cap":
                usd = m.a[1][3]
                if str(usd) == pos_operand:
                    return 1 if pos else -1
                if usd.k in ("try", "call") and str(usd).startswith("Unsigned::to_signed("):
                    return 1
            return None

        FEE_SRC = ("Swap::charge_fees", "FeeParams::apply_fees")   # private helper present or inlined

        def namer(x):
            m, proj = H.chain_root(x)
            if m.k == "call":
                nm = m.a[0]
                if nm == "SwapMarketExt::swap_impact_amount_with_cap":
                    return "impact_amount[%s]%s" % (H.side_shape(m.a[1][1], SIDE), proj)
                if nm in FEE_SRC:
                    return "charge_fees" + proj
                if nm in ("Fees::fee_amount_for_pool", "Fees::fee_amount_for_receiver") and proj == "":
                    r, pj = H.chain_root(m.a[1][0])
                    if r.k == "call" and r.a[0] in FEE_SRC and pj == ".1":
                        return nm.split("::")[1]
            return None

        lin = lambda x: H.lin_of(x, namer, sign_of)

        # --- sources of the cached pools
        deltas = {}
        okshape = True
        liq = cache.get("liquidity")
        vi = cache.get("virtual_inventory")
        lcall = _strip(liq)
        vcall = _strip(vi)
        same = lcall is not None and vcall is not None and lcall[0].k == "call" and vcall[0].k == "call" and \
            lcall[0].a[2] is vcall[0].a[2] and lcall[1] == ".0" and vcall[1] == ".1" and \
            lcall[0].a[0] == "BaseMarketExt::checked_apply_delta" and str(lcall[0].a[1][0]) == "self.market"
        ctx.ob("cache-source:liquidity+virtual_inventory:" + cls, bool(same),
               "liquidity and virtual_inventory are .0/.1 of one BaseMarketExt::checked_apply_delta(self.market, delta)", where=te.where())
        if same:
            deltas["liquidity"] = H.delta_sides(lcall[0].a[1][1], SIDE)
        for fld, acc in SOURCE.items():
            v = _strip(cache.get(fld))
            good = v is not None and v[0].k == "call" and v[0].a[0] == "Pool::checked_apply_delta" and v[1] == "" and \
                re.match(r"^%s\(self\.market\)\?$" % re.escape(acc), str(v[0].a[1][0]))
            ctx.ob("cache-source:%s:%s" % (fld, cls), bool(good),
                   "%s = Pool::checked_apply_delta(%s(self.market)?, delta)?" % (fld, acc), where=te.where())
            if good:
                deltas[fld] = H.delta_sides(v[0].a[1][1], SIDE)
        if any(deltas.get(k) is None for k in ("liquidity", "swap_impact", "claimable_fee")):
            ctx.ob("flow-in:" + cls, False, "a pool delta is not built by a recognised Delta constructor on is_token_in_long: %s" % (
                {k: (sorted(v) if v else None) for k, v in deltas.items()}), where=te.where())
            continue
        if any(set(d) - {"S", "!S"} for d in deltas.values()):
            ctx.ob("flow-in:" + cls, False, "a pool delta uses a constant side instead of is_token_in_long", where=te.where())
            continue
        tin = H.Lin()
        tout = H.Lin()
        for pool, d in deltas.items():
            if "S" in d:
                tin = tin.add(lin(d["S"]))
            if "!S" in d:
                tout = tout.add(lin(d["!S"]))
        want_in = H.Lin({"charge_fees.0": 1, "fee_amount_for_pool": 1, "fee_amount_for_receiver": 1})
        ctx.ob("flow-in:" + cls, tin == want_in,
               "[%s] in-side: Δliquidity+Δimpact+Δclaimable = %s (required: %s)" % (cls, tin.show(), want_in.show()),
               where=te.where(), detail={k: {s: lin(v).show() for s, v in d.items()} for k, d in deltas.items()})
        rep = lin(res.get("token_out_amount")) if res.get("token_out_amount") is not None else None
        ctx.ob("flow-out:" + cls, rep is not None and len(rep) > 0 and tout.scale(-1) == rep,
               "[%s] out-side: −(Δliquidity+Δimpact+Δclaimable) = %s ; reported token_out_amount = %s" % (
                   cls, tout.scale(-1).show(), rep.show() if rep is not None else None), where=te.where())
        # claimable fee must be exactly the receiver fee on the in-side only
        cf = deltas["claimable_fee"]
        ctx.ob("flow-in:claimable:" + cls, sorted(cf) == ["S"] and lin(cf["S"]) == H.Lin({"fee_amount_for_receiver": 1}),
               "[%s] claimable-fee pool gets +fee_amount_for_receiver on the in-side only (%s)" % (
                   cls, {s: lin(v).show() for s, v in cf.items()}), where=te.where())
        # --- impact side / price agreement
        for c in caps:
            args = ev.call_args(c)
            sd = H.side_shape(args[1], SIDE)
            price = str(args[2])
            want_price = {"S": r"reassign_values\(self\)\?\.token_in_price$", "!S": r"reassign_values\(self\)\?\.token_out_price$"}.get(sd)
            imp = deltas["swap_impact"].get(sd)
            atom = "impact_amount[%s].0" % sd
            ded = imp is not None and lin(imp) == H.Lin({atom: -1})
            ctx.ob("impact-side:%s:%s" % (cls, sd), sd in ("S", "!S") and ded and re.search(want_price, price) is not None,
                   "[%s] impact amount capped on side %s is deducted from that same side (%s) and priced with %s" % (
                       cls, sd, lin(imp).show() if imp is not None else None, short_path(price.split("?.")[-1], 1)),
                   where=c.where())
        want_sides = {"negative": ["S"], "positive": ["!S"], "positive-capped": ["!S", "S"]}.get(cls)
        got_sides = [H.side_shape(ev.call_args(c)[1], SIDE) for c in caps]
        ctx.ob("impact-side:%s:which" % cls, want_sides is not None and got_sides == want_sides,
               "[%s] impact is settled on side(s) %s (S = token-in side; positive impact is paid from the token-out side, "
               "the capped remainder from the token-in side; negative impact is charged on the token-in side)" % (cls, got_sides),
               where=te.where())
    for cls in ("negative", "positive", "positive-capped"):
        if cls not in seen_classes:
            ctx.ob("flow-in:" + cls, False, "no success path of class %s found" % cls, where=te.where())


def _strip(e):
    """(`call E`, projection string) of an expression `call(..)?.N` ; None if not of this shape."""
    if e is None:
        return None
    proj = ""
    m = e
    while m.k in ("try", "field"):
        if m.k == "field":
            proj = "." + m.a[1] + proj
        m = m.a[0]
    return (m, proj)


# ---------------------------------------------------------------------------------------------- aux

def _aux(ctx, prog):
    # the fee step: through the private helper Swap::charge_fees, or inlined into try_execute
    cands = prog.find_fns(r"gmsol_model::action::swap::Swap::<M, DECIMALS>::(charge_fees|try_execute)")
    sites = [(g, c) for g in cands for c in g.calls_to(r"FeeParams::<T>::apply_fees$")]
    ok = len(sites) == 1
    msg = "%d apply_fees call sites in charge_fees/try_execute" % len(sites)
    if ok:
        g, c = sites[0]
        ctx.analysed_fns.add(g.id)
        a = [str(c.arg_expr(i)) for i in (0, 2)]
        ok = a[1] == "self.params.token_in_amount" and re.match(r"^SwapMarket::swap_fee_params\(self\.market\)\?$", a[0]) is not None
        msg = "%s applies %s to %s" % (g.short, a[0], a[1])
    ctx.ob("fee-base:charge_fees", bool(ok), "swap fees = apply_fees(swap_fee_params(self.market), .., self.params.token_in_amount): %s" % msg,
           where=sites[0][0].where() if sites else "crates/model/src/action/swap.rs")
    rv = ctx.fn(r"gmsol_model::action::swap::Swap::<M, DECIMALS>::reassign_values")
    if rv is not None:
        ps = H.success_paths(rv)
        n = 0
        for p in ps:
            side = H.path_truth(p, r"^self\.params\.is_token_in_long$")
            news = H.path_calls(p, r"ReassignedValues::<T>::new$")
            if side is None or len(news) != 1:
                ctx.ob("reassign-prices:shape", False, "unexpected success path in reassign_values", where=rv.where())
                continue
            a = p["ev"].call_args(news[0])
            tin, tout = str(a[2]), str(a[3])
            lg, sh = r"SwapParams::long_token_price\(self\.params\)$", r"SwapParams::short_token_price\(self\.params\)$"
            good = (re.search(lg, tin) and re.search(sh, tout)) if side else (re.search(sh, tin) and re.search(lg, tout))
            n += 1
            ctx.ob("reassign-prices:%s" % ("long-in" if side else "short-in"), bool(good),
                   "is_token_in_long=%s: token_in_price=%s token_out_price=%s" % (side, short_path(tin, 1), short_path(tout, 1)), where=news[0].where())
        ctx.floor("reassign-prices", n, 2)
    for nm in ("long_token_price", "short_token_price"):
        g = ctx.fn(r"gmsol_model::action::swap::SwapParams::<T>::%s" % nm)
        if g is not None:
            ex = [str(e) for _, _, e in g.exits()]
            ctx.ob("reassign-prices:SwapParams::" + nm, ex == ["self.prices.%s" % nm], "SwapParams::%s returns %s" % (nm, ex), where=g.where())
    one = ctx.fn(r"gmsol_model::pool::delta::Delta::<T>::new_one_side")
    if one is not None:
        ps = H.success_paths(one, kinds=("ok", "unknown"))
        tab = {}
        for p in ps:
            tab[H.path_truth(p, r"^is_long$")] = str(p["ret"])
        ctx.ob("delta-ctor:new_one_side", tab == {True: "Delta::new_with_long(amount)", False: "Delta::new_with_short(amount)"},
               "new_one_side: %s" % tab, where=one.where())
    both = ctx.fn(r"gmsol_model::pool::delta::Delta::<T>::new_both_sides")
    if both is not None:
        ps = H.success_paths(both, kinds=("ok", "unknown"))
        tab = {}
        for p in ps:
            tab[H.path_truth(p, r"^is_long_first$")] = str(p["ret"])
        ctx.ob("delta-ctor:new_both_sides", tab == {True: "Delta::new(Option::Some{0: first}, Option::Some{0: second})",
                                                    False: "Delta::new(Option::Some{0: second}, Option::Some{0: first})"},
               "new_both_sides: %s" % tab, where=both.where())
    for nm, fld in (("new_with_long", "long"), ("new_with_short", "short")):
        g = ctx.fn(r"gmsol_model::pool::delta::Delta::<T>::%s" % nm)
        if g is not None:
            cs = g.calls_to(r"Delta::<T>::new$")
            idx = 0 if fld == "long" else 1
            ok = len(cs) == 1 and re.match(r"^Option::Some\{0: amount\}$", str(cs[0].arg_expr(idx))) and "None" in str(cs[0].arg_expr(1 - idx))
            ctx.ob("delta-ctor:" + nm, bool(ok), "%s = Delta::new(%s)" % (nm, ", ".join(str(cs[0].arg_expr(i)) for i in (0, 1)) if cs else "?"), where=g.where())
    g = ctx.fn(r"gmsol_model::pool::delta::Delta::<T>::new")
    if g is not None:
        ex = [str(e) for _, _, e in g.exits()]
        ctx.ob("delta-ctor:new", ex == ["Delta{long: long, short: short}"], "Delta::new(long, short) = %s" % ex, where=g.where())
    # BaseMarketExt::checked_apply_delta applies the same delta to the liquidity pool and the virtual inventory
    g = ctx.fn(r"gmsol_model::market::base::BaseMarketExt::checked_apply_delta")
    if g is not None:
        ps = H.success_paths(g)
        good = len(ps) == 1
        msg = "?"
        if good:
            tup = dict(dict(ps[0]["ret"].a[1])["0"].a[1])
            a0, a1 = str(tup["0"]), str(tup["1"])
            clos = prog.closures_of(g)
            cl_ok = len(clos) == 1 and any(re.match(r"^Pool::checked_apply_delta\(.*\^delta\)$", str(e)) for _, _, e in clos[0].exits())
            good = a0 == "Pool::checked_apply_delta(BaseMarket::liquidity_pool(self)?, delta)?" and \
                re.match(r"^Option::transpose\(Option::map\(BaseMarket::virtual_inventory_for_swaps_pool\(self\)\?, closure<.*>\)\)\?$", a1) is not None and cl_ok
            msg = "(.0 = %s ; .1 = %s ; closure applies captured delta: %s)" % (a0, a1[:80], cl_ok)
        ctx.ob("cache-source:BaseMarketExt::checked_apply_delta", bool(good),
               "returns (liquidity_pool.checked_apply_delta(delta), virtual_inventory_for_swaps.map(checked_apply_delta(delta))) %s" % msg, where=g.where())
