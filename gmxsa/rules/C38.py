"""C38 LP staking rewards follow the APY schedule and unstaking is fair.

Decided (programs/liquidity-provider/src/lib.rs, MIR):
 * apy-capped     : every store into GlobalState.apy_gradient (three writers, enumerated over the program) stores a value that is
                    `<= APY_MAX` by a dominating branch fact (sparse update also `idx < APY_BUCKETS`); APY_MAX = 200% at 1e20;
 * unstake-guards : the transfer and every position write of unstake_lp are under unstake_amount > 0 and
                    unstake_amount <= staked_amount; from the `claim_enabled == false` edge they are reachable only through
                    unstake_amount == staked_amount; lp_mint == position.lp_mint;
 * unstake-amounts: remaining = staked_amount (-sat) unstake_amount; new value = 0 if remaining == 0 else
                    checked_mul_div(old_value, remaining, old_amount)? (u128 floor mul-div); full_exit = remaining == 0 ||
                    new_value < min_stake_value; the transferred amount is position_vault.amount on the full_exit edge and
                    unstake_amount otherwise; full exit zeroes the position and closes vault + position, partial stores
                    (remaining, new_value);
 * reward-clamp   : calculate_gt_reward_amount = apply_factor(apply_factor(value, apy_per_sec)?, integral)? narrowed to u64 only
                    under `<= u64::MAX`, else u64::MAX; negative durations are rejected;
 * apy-average    : compute_time_weighted_apy: every raw arithmetic / index site is discharged by a dominating fact or a constant
                    (now > start for the subtraction, total_seconds != 0 for the division, full_weeks > LAST for the extra weeks),
                    accumulation uses only saturating ops, and the three weighted terms are: buckets[0..min(full_weeks, LAST)] x week,
                    bucket[LAST] x week x (full_weeks - LAST), bucket[min(full_weeks, LAST)] x remainder; result = acc / total_seconds.
"""
import re

from .. import analyses as A
from .. import anchor
from .. import h_F as H

LP = r"gmsol_liquidity_provider::gmsol_liquidity_provider::"
POS = r"ctx\.accounts\.position(\.[0-9a-z_]+)*?"
OLD_AMOUNT = r"ctx\.accounts\.position\.staked_amount"
REMAINING = r"u64::saturating_sub\(ctx\.accounts\.position\.staked_amount, unstake_amount\)"


def run(ctx):
    prog = ctx.prog(["gmsol_liquidity_provider", "gmsol_model"])
    ctx.explanation = (
        "APY buckets are guarded writes enumerated by who-may-write; unstake_lp is decided by branch facts dominating the token "
        "transfer and the position writes, by the definitions of the transferred amount / full_exit flag per branch edge "
        "(path facts of each assignment), and by conditional reachability from the claims-disabled edge; the reward narrowing "
        "cast and every arithmetic/index site of the APY average are discharged by dominating comparison facts or constants.")
    ctx.not_decided = (
        "That compute_time_weighted_apy equals the per-second average of the weekly buckets (only the three weighted terms, their "
        "guards and the final division are shown, not the sum identity); monotonicity of rewards in stake value and cost integral "
        "(apply_factor is monotone, not computed here); SPL transfer/close semantics; that position_vault.amount equals the staked amount.")
    ctx.rule("apy-capped", "every store into apy_gradient is a value <= APY_MAX (three reviewed writers)")
    ctx.rule("unstake-guards", "0 < unstake_amount <= staked; claims disabled => only full amount; mint matches")
    ctx.rule("unstake-amounts", "full exit sweeps the vault and closes; partial returns unstake_amount and keeps floor(value*remaining/old)")
    ctx.rule("reward-clamp", "reward narrowed to u64 only under <= u64::MAX, else saturates")
    ctx.rule("apy-average", "arithmetic/index sites discharged; saturating accumulation of the three weighted terms; / total_seconds")
    _apy(ctx, prog)
    _unstake(ctx, prog)
    _reward(ctx, prog)
    _average(ctx, prog)


def _apy(ctx, prog):
    ws = H.field_writers(prog, ["gmsol_liquidity_provider"], "gmsol_liquidity_provider::GlobalState", "apy_gradient")
    who = sorted(set(w["fn"].name for w in ws))
    ctx.ob("apy-capped:writers", who == ["initialize", "update_apy_gradient_range", "update_apy_gradient_sparse"] and all(w["kind"] == "assign" for w in ws),
           "GlobalState.apy_gradient is stored by %s" % who, where="programs/liquidity-provider/src/lib.rs")
    n = 0
    for w in ws:
        f = w["fn"]
        if w["kind"] != "assign":
            continue
        n += 1
        rv = w["rv"]
        val = rv.a[1][0][1] if rv.k == "agg" and rv.a[0] == "repeat" else rv
        facts = A.cmp_facts(f, w["bb"])
        ok = any(o in ("<=", "<") and str(a) == str(val) and re.search(r"(^|::)APY_MAX$", str(b)) for (o, a, b) in facts if b is not None) or \
            any(o in (">=", ">") and str(b) == str(val) and re.search(r"(^|::)APY_MAX$", str(a)) for (o, a, b) in facts if b is not None)
        ctx.ob("apy-capped:" + f.name, ok, "%s stores `%s` into %s under value <= APY_MAX" % (f.name, str(val)[:70], w["path"][:60]), where=f.where())
        if f.name == "update_apy_gradient_sparse":
            ok = any(o == "<" and re.search(r"Iterator::zip\(bucket_indices, apy_values\)\)@Some\.0\.0 as usize\)$", str(a)) and re.search(r"APY_BUCKETS$", str(b))
                     for (o, a, b) in facts if b is not None)
            ctx.ob("apy-capped:sparse-index", ok, "sparse update stores only under idx < APY_BUCKETS", where=f.where())
    ctx.floor("apy-capped", n, 3)
    mx = ctx.const(r"^gmsol_liquidity_provider::APY_MAX")
    if mx:
        ctx.ob("apy-capped:cap-value", int(mx["int"]) == 2 * 10 ** 20, "APY_MAX = %s (200%% at 1e20)" % mx["int"], where="programs/liquidity-provider/src/lib.rs")


def _unstake(ctx, prog):
    f = ctx.fn(LP + "unstake_lp")
    if not f:
        return
    tcs = f.calls_to(r"anchor_spl::token.*::transfer_checked$")
    cls = f.calls_to(r"anchor_spl::token.*::close_account$")
    pcl = [c for c in f.calls if re.search(r"AccountsClose<'info>>::close$", c.name or "")]
    ws = [w for w in A.field_writes(f, r"^ctx\.accounts\.position\.(staked_amount|staked_value_usd)$") if w["kind"] == "assign"]
    ctx.ob("unstake-guards:sites", len(tcs) == 1 and len(cls) == 1 and len(pcl) == 1 and len(ws) == 4,
           "one LP transfer, one vault close, one position close, four position stores (%d/%d/%d/%d)" % (len(tcs), len(cls), len(pcl), len(ws)), where=f.where())
    if len(tcs) != 1:
        return
    tc = tcs[0]
    eff = [tc.bb] + [c.bb for c in cls + pcl] + [w["bb"] for w in ws]
    ok_pos = ok_le = ok_mint = True
    for bb in eff:
        facts = A.cmp_facts(f, bb)
        ok_pos = ok_pos and A.has_fact(facts, ">", r"^unstake_amount$", r"^0$")
        ok_le = ok_le and A.has_fact(facts, "<=", r"^unstake_amount$", "^" + OLD_AMOUNT + "$")
        ok_mint = ok_mint and any(o == "==" and "Key::key(ctx.accounts.lp_mint)" in (str(a), str(b)) and "ctx.accounts.position.lp_mint" in (str(a), str(b))
                                  for (o, a, b) in facts if b is not None)
    ctx.ob("unstake-guards:positive", ok_pos, "transfer, closes and position stores are under unstake_amount > 0", where=f.where())
    ctx.ob("unstake-guards:at-most-staked", ok_le, "... and under unstake_amount <= position.staked_amount", where=f.where())
    ctx.ob("unstake-guards:mint", ok_mint, "... and under lp_mint.key() == position.lp_mint", where=f.where())
    # claims disabled => only the full amount
    sw = [i for i, b in enumerate(f.blocks) if b["t"][0] == "switch" and not b.get("cleanup") and
          re.match(r"^(Not\()?ctx\.accounts\.global_state(\.[0-9a-z_]+)*\.claim_enabled\)?$", str(f.expr(b["t"][1])))]
    ok = len(sw) == 1
    why = "%d branches on claim_enabled" % len(sw)
    if ok:
        s = sw[0]
        neg = str(f.expr(f.blocks[s]["t"][1])).startswith("Not(")
        disabled = [t for t, lab in f.succ(s) if (lab[0] == "val" and lab[1] == 0) != neg]
        eqs = [i for i, b in enumerate(f.blocks) if b["t"][0] == "switch" and not b.get("cleanup") and
               re.match(r"^\(unstake_amount (Eq|Ne) " + OLD_AMOUNT + r"\)$|^\(" + OLD_AMOUNT + r" (Eq|Ne) unstake_amount\)$", str(f.expr(b["t"][1])))]
        ok = len(disabled) == 1 and len(eqs) == 1
        if ok:
            j = eqs[0]
            is_eq = " Eq " in str(f.expr(f.blocks[j]["t"][1]))
            eq_edges = [(j, t) for t, lab in f.succ(j) if (lab[0] == "otherwise") == is_eq]
            ok = all(f.can_reach(disabled[0], b, avoid_blocks=(s,)) for b in eff) and \
                all(not f.can_reach(disabled[0], b, avoid_blocks=(s,), avoid_edges=eq_edges) for b in eff) and f.dominates(s, tc.bb)
            why = "disabled edge -> effects only via the equality edge of the unstake_amount == staked_amount test"
    ctx.ob("unstake-guards:claims-disabled", ok, "while claims are disabled only a full-amount unstake reaches the transfer/position writes: %s" % why, where=f.where())

    # amounts
    ss = f.calls_to(r"u64>::saturating_sub$|u64::saturating_sub$|::saturating_sub$")
    ss = [c for c in ss if re.match("^" + OLD_AMOUNT + "$", str(c.arg_expr(0))) and str(c.arg_expr(1)) == "unstake_amount"]
    ctx.ob("unstake-amounts:remaining", len(ss) == 1, "remaining = position.staked_amount.saturating_sub(unstake_amount) (under unstake_amount <= staked: exact)", where=f.where())
    md = f.calls_to(r"MulDiv for u128>::checked_mul_div$|MulDiv>::checked_mul_div$|MulDiv::checked_mul_div$")
    ok = len(md) == 1
    nv_re = None
    if ok:
        m = md[0]
        a = [str(m.arg_expr(i)) for i in range(3)]
        ok = a[0] == "ctx.accounts.position.staked_value_usd" and re.match(r"^\(" + REMAINING + r" as u128\)$", a[1]) is not None and \
            re.match(r"^\(" + OLD_AMOUNT + r" as u128\)$", a[2]) is not None and "impl gmsol_model::num::MulDiv for u128" in (m.resolved or "")
        ok = ok and A.has_fact(A.cmp_facts(f, m.bb), "!=", "^" + REMAINING + "$", r"^0$")
        ctx.ob("unstake-amounts:partial-value", ok, "new value = <u128 as MulDiv>::checked_mul_div(staked_value_usd, remaining, staked_amount) (floor), computed when remaining != 0: %s" % a,
               where=f.where(m.line))
    else:
        ctx.ob("unstake-amounts:partial-value", False, "expected one checked_mul_div, found %d" % len(md), where=f.where())
    # the full_exit flag
    fx = []
    for i, b in enumerate(f.blocks):
        if b["t"][0] != "switch" or b.get("cleanup") or b["t"][4] != "bool":
            continue
        ds = H.phi_defs(f, b["t"][1])
        if len(ds) != 2:
            continue
        t_def = [d for d in ds if str(d[1]) == "true"]
        c_def = [d for d in ds if d not in t_def]
        if len(t_def) == 1 and len(c_def) == 1:
            cm = A.as_cmp(c_def[0][1])
            if cm and cm[0] == "<" and re.search(r"global_state(\.[0-9a-z_]+)*\.min_stake_value$", str(cm[2])) and "MulDiv::checked_mul_div(" in str(cm[1]):
                g_t = H.guard_truth(f, t_def[0][0], r"^\(" + REMAINING + r" Eq 0\)$")
                g_c = H.guard_truth(f, c_def[0][0], r"^\(" + REMAINING + r" Eq 0\)$")
                if g_t is True and g_c is False:
                    fx.append(i)
    ctx.ob("unstake-amounts:full-exit-flag", len(fx) >= 1, "full_exit := true when remaining == 0, else (new_value < global_state.min_stake_value) — "
           "%d branch(es) on it" % len(fx), where=f.where())

    def full_exit_at(bb):
        for s, cond, allowed, labels in f.guards(bb):
            if s in fx:
                if allowed == frozenset(["otherwise"]):
                    return True
                if allowed == frozenset([0]):
                    return False
        return None

    ds = H.phi_defs(f, tc.args[1])
    tab = {}
    for bb, e in ds:
        tab[full_exit_at(bb) if bb is not None else None] = str(e)
    ctx.ob("unstake-amounts:transfer", set(tab) == {True, False} and tab[False] == "unstake_amount" and
           re.match(r"^ctx\.accounts\.position_vault(\.[0-9a-z_]+)*\.amount$", tab[True]) is not None,
           "transferred amount: full exit -> %s, partial -> %s" % (tab.get(True), tab.get(False)), where=f.where(tc.line), detail={str(k): v for k, v in tab.items()})
    cx = str(tc.arg_expr(0))
    ctx.ob("unstake-amounts:route", all(s in cx for s in ("from: ToAccountInfo::to_account_info(ctx.accounts.position_vault", "to: ToAccountInfo::to_account_info(ctx.accounts.user_lp_token",
                                                         "mint: ToAccountInfo::to_account_info(ctx.accounts.lp_mint")),
           "LP tokens go from the position vault to the user's LP token account", where=f.where(tc.line))
    ok = True
    stores = {}
    for w in ws:
        stores.setdefault(full_exit_at(w["bb"]), {})[w["path"].rsplit(".", 1)[-1]] = str(w["rv"])
    full = stores.get(True, {})
    part = stores.get(False, {})
    ctx.ob("unstake-amounts:full-exit-zeroes", full == {"staked_amount": "0", "staked_value_usd": "0"} and
           all(full_exit_at(c.bb) is True for c in cls + pcl), "full exit: position zeroed, vault and position closed only on the full_exit edge (%s)" % full, where=f.where())
    okp = part.get("staked_amount") is not None and re.match("^" + REMAINING + "$", part.get("staked_amount", "")) is not None and \
        "MulDiv::checked_mul_div(ctx.accounts.position.staked_value_usd" in part.get("staked_value_usd", "")
    ctx.ob("unstake-amounts:partial-stores", okp, "partial: staked_amount := remaining, staked_value_usd := new value (%s)" % {k: v[:60] for k, v in part.items()}, where=f.where())
    # full exit path must pass through the transfer unless the vault is empty
    ts = H.success_edge(f, tc)
    gt0 = [i for i, b in enumerate(f.blocks) if b["t"][0] == "switch" and re.match(r"^\(phi\(.*\) Gt 0\)$", str(f.expr(b["t"][1])))]
    ok = ts is not None and len(gt0) == 1
    if ok:
        pos_edge = [t for t, lab in f.succ(gt0[0]) if lab[0] == "otherwise"]
        ok = len(pos_edge) == 1 and all(not f.can_reach(pos_edge[0], c.bb, avoid_blocks=(ts[1],)) for c in cls + pcl) and \
            all(not f.can_reach(pos_edge[0], w["bb"], avoid_blocks=(ts[1],)) for w in ws)
    ctx.ob("unstake-amounts:transfer-before-close", ok, "when the amount to transfer is > 0 the closes and position stores are reached only through the Ok edge of the transfer",
           where=f.where())


def _reward(ctx, prog):
    f = ctx.fn(r"gmsol_liquidity_provider::calculate_gt_reward_amount")
    if not f:
        return
    # raw = apply_factor(apply_factor(value, apy)!, integral)!   (`!` = success payload, however unwrapped)
    raw_c = r"utils::apply_factor\(utils::apply_factor\(staked_value_usd, gt_apy_per_sec\)!, inv_cost_integral\)!"
    MAXW = r"^\(u64::MAX as u128\)$"
    alts = []     # (kind, ok)
    for bb0, op in H.ok_payload_operands(f):
        for bb, e in H.phi_defs(f, op):
            at = bb if bb is not None else bb0
            facts = H.canon_facts(f, at)
            c = H.canon(e)
            if c == "u64::MAX":
                # saturating fallback: only when the raw value does not fit
                g = any(o == ">" and re.match("^" + raw_c + "$", a) and b is not None and re.match(MAXW, b) for (o, a, b) in facts) or \
                    any(s_[1].k == "discr" and re.match(r"^(TryFrom::try_from|TryInto::try_into)\(" + raw_c + r"\)$", H.canon(s_[1].a[0])) and s_[2] == frozenset([1])
                        for s_ in f.guards(at))
                alts.append(("max", g))
            elif e.k == "cast" and re.match("^" + raw_c + "$", H.canon(e.a[0])) and e.a[1] == "u64":
                g = any(o == "<=" and re.match("^" + raw_c + "$", a) and b is not None and re.match(MAXW, b) for (o, a, b) in facts)
                alts.append(("cast", g))
            else:
                x = H.unwrap_success(e)
                if x is not None and x.k == "call" and x.a[0] in ("TryFrom::try_from", "TryInto::try_into") and re.match("^" + raw_c + "$", H.canon(x.a[1][0])) \
                        and f.ret.replace(" ", "").startswith("std::result::Result<u64,"):
                    alts.append(("try_from", True))   # checked conversion: the payload exists only if the value fits
                else:
                    alts.append(("other:" + c[:60], False))
    kinds = sorted(k for k, _ in alts)
    casts = [c for c in A.cast_sites(f) if c["narrowing"]]
    ok_narrow = all(re.match("^" + raw_c + "$", H.canon(c["e"])) and
                    any(o == "<=" and re.match("^" + raw_c + "$", a) and b is not None and re.match(MAXW, b) for (o, a, b) in H.canon_facts(f, c["bb"])) for c in casts)
    ctx.ob("reward-clamp:narrowing-guarded", ok_narrow and len(casts) <= 1 and kinds in (["cast", "max"], ["max", "try_from"]),
           "the raw reward is narrowed to u64 either by the single `as` cast under `raw <= u64::MAX` or by a checked try_from (%d narrowing cast(s); forms %s)" % (len(casts), kinds),
           where=f.where())
    ctx.ob("reward-clamp:result", kinds in (["cast", "max"], ["max", "try_from"]) and all(g for _, g in alts),
           "Ok(narrowed raw) when it fits, Ok(u64::MAX) only when it does not: %s" % alts, where=f.where())
    for bb, k, e in f.exits():
        if k == "ok":
            ctx.ob("reward-clamp:duration", A.has_fact(A.cmp_facts(f, bb), ">=", r"^duration_seconds$", r"^0$"), "Ok only for duration_seconds >= 0", where=f.where())
    ctx.ob("reward-clamp:no-raw-arith", not A.arith_sites(f), "no raw arithmetic in calculate_gt_reward_amount (%d sites)" % len(A.arith_sites(f)), where=f.where())


def _average(ctx, prog):
    f = ctx.fn(r"gmsol_liquidity_provider::compute_time_weighted_apy")
    if not f:
        return
    consts = {}
    for k in ("APY_BUCKETS", "APY_LAST_INDEX", "SECONDS_PER_WEEK"):
        c = ctx.const(r"^gmsol_liquidity_provider::" + k)
        consts[k] = int(c["int"]) if c else None
    ctx.ob("apy-average:constants", consts["APY_BUCKETS"] is not None and consts["APY_LAST_INDEX"] == consts["APY_BUCKETS"] - 1 and consts["SECONDS_PER_WEEK"] == 7 * 24 * 3600,
           "APY_LAST_INDEX = APY_BUCKETS - 1, SECONDS_PER_WEEK = 604800 (%s)" % consts, where=f.where())
    TOTAL = r"\(\(now SubWithOverflow stake_start_time\)\.0 as u128\)"
    WEEKS = r"\(" + TOTAL + r" Div gmsol_liquidity_provider::SECONDS_PER_WEEK\)"
    LAST = r"\(gmsol_liquidity_provider::APY_LAST_INDEX as u128\)"
    sites = A.arith_sites(f)
    bad = []
    n = 0
    for s in sites:
        n += 1
        facts = A.cmp_facts(f, s["bb"])
        a, b, op = str(s["a"]), str(s["b"]), s["op"]
        if op == "Sub" and a == "now" and b == "stake_start_time":
            ok = A.has_fact(facts, ">", r"^now$", r"^stake_start_time$")
        elif op in ("Div", "Rem") and b == "gmsol_liquidity_provider::SECONDS_PER_WEEK":
            ok = bool(consts["SECONDS_PER_WEEK"]) and re.match("^" + TOTAL + "$", a) is not None
        elif op == "Sub" and re.match("^" + WEEKS + "$", a) and re.match("^" + LAST + "$", b):
            ok = A.has_fact(facts, ">", "^" + WEEKS + "$", "^" + LAST + "$")
        elif op == "Div" and re.match("^" + TOTAL + "$", b):
            ok = A.has_fact(facts, "!=", "^" + TOTAL + "$", r"^0$")
        else:
            ok = False
        if not ok:
            bad.append("%s(%s, %s)" % (op, a[:60], b[:60]))
    ctx.ob("apy-average:arith-discharged", not bad and n == 5, "%d raw arithmetic sites, each discharged by a dominating fact or a non-zero constant%s" % (
        n, "; NOT discharged: %s" % bad if bad else ""), where=f.where())
    # index sites
    bad = []
    ni = 0
    for i, b in enumerate(f.blocks):
        if b["t"][0] == "assert" and b["t"][3] == "BoundsCheck" and not b.get("cleanup"):
            ni += 1
            e = f.expr(b["t"][1])
            cm = A.as_cmp(e)
            ok = False
            if cm and cm[0] == "<" and str(cm[2]) in (str(consts["APY_BUCKETS"]), "gmsol_liquidity_provider::APY_BUCKETS"):
                idx = str(cm[1])
                if idx == "0" or idx == "gmsol_liquidity_provider::APY_LAST_INDEX":
                    ok = True
                elif re.match(r"^(Result::unwrap_or\(TryFrom::try_from\(Ord::min\(" + WEEKS + ", " + LAST + r"\)\), gmsol_liquidity_provider::APY_LAST_INDEX\)|\(Ord::min\(" + WEEKS + ", " + LAST + r"\) as usize\))$", idx):
                    ok = True  # min(x, LAST) <= LAST < BUCKETS; the fallback is LAST
            if not ok:
                bad.append(str(e)[:120])
    ctx.ob("apy-average:index-bounded", not bad and ni == 4, "%d index sites: constant 0, LAST_INDEX, or min(full_weeks, LAST_INDEX)%s" % (ni, "; UNBOUNDED: %s" % bad if bad else ""),
           where=f.where())
    # accumulation only by saturating ops; the three terms
    muls = [c for c in f.calls if c.short == "u128::saturating_mul"]
    adds = [c for c in f.calls if c.short == "u128::saturating_add"]

    def factors(e):
        """flatten nested saturating_mul (commutative/associative) into the list of factor renderings"""
        if e.k == "call" and e.a[0] == "u128::saturating_mul":
            out, nested = [], []
            for x in e.a[1]:
                fs, ns = factors(x)
                out += fs
                nested += ns
            return out, nested + ([e.a[2].bb] if len(e.a) > 2 else [])
        return [str(e)], []

    nested_bbs = set()
    prods = {}
    for c in muls:
        fs, ns = [], []
        for i in range(2):
            a, b = factors(c.arg_expr(i))
            fs += a
            ns += b
        prods[c.bb] = sorted(fs)
        nested_bbs.update(ns)
    top = {bb: fs for bb, fs in prods.items() if bb not in nested_bbs}
    WEEK = "gmsol_liquidity_provider::SECONDS_PER_WEEK"
    CAP = r"Ord::min\(" + WEEKS + ", " + LAST + r"\)"
    IDXF = r"(Result::unwrap_or\(TryFrom::try_from\(" + CAP + r"\), gmsol_liquidity_provider::APY_LAST_INDEX\)|\(" + CAP + r" as usize\))"
    ELEM = r"^Iterator::next\(Iterator::take\(\[T\]::iter\(apy_gradient\), " + IDXF + r"\)\)@Some\.0$"

    def is_term(fs, pats):
        fs = list(fs)
        if len(fs) != len(pats):
            return False
        for pat in pats:
            hit = [x for x in fs if re.match(pat, x)]
            if not hit:
                return False
            fs.remove(hit[0])
        return True

    t_loop = [bb for bb, fs in top.items() if is_term(fs, [ELEM, "^" + re.escape(WEEK) + "$"])]
    t_extra = [bb for bb, fs in top.items() if is_term(fs, [r"^apy_gradient\[gmsol_liquidity_provider::APY_LAST_INDEX\]$", "^" + re.escape(WEEK) + "$",
                                                           r"^\(" + WEEKS + " (SubWithOverflow|Sub) " + LAST + r"\)(\.0)?$"])]
    t_rem = [bb for bb, fs in top.items() if is_term(fs, [r"^apy_gradient\[" + IDXF + r"\]$", r"^\(" + TOTAL + r" Rem " + re.escape(WEEK) + r"\)$"])]
    terms = sorted(" * ".join(fs) for fs in top.values())
    ok = len(t_loop) == 1 and len(t_extra) == 1 and len(t_rem) == 1 and len(top) == 3 and len(adds) == 3
    ctx.ob("apy-average:terms", ok, "weighted terms: first min(full_weeks, LAST) buckets x week; bucket[LAST] x week x (full_weeks - LAST); bucket[min(full_weeks, LAST)] x remainder "
           "(%d/%d/%d of %d products, %d saturating_add)" % (len(t_loop), len(t_extra), len(t_rem), len(top), len(adds)), where=f.where(), detail=[t[:160] for t in terms])
    t_extra = [c for c in muls if c.bb in t_extra]
    t_rem = [c for c in muls if c.bb in t_rem]
    if t_extra:
        ctx.ob("apy-average:extra-weeks-guard", A.has_fact(A.cmp_facts(f, t_extra[0].bb), ">", "^" + WEEKS + "$", "^" + LAST + "$"),
               "the extra-weeks term is added only when full_weeks > LAST_INDEX", where=f.where())
    if t_rem:
        ctx.ob("apy-average:remainder-guard", A.has_fact(A.cmp_facts(f, t_rem[0].bb), ">", r"^\(" + TOTAL + r" Rem gmsol_liquidity_provider::SECONDS_PER_WEEK\)$", r"^0$"),
               "the partial-week term is added only when the remainder > 0 (skipping it otherwise adds 0)", where=f.where())
    # exits
    tab = []
    for bb, k, e in f.exits():
        facts = A.cmp_facts(f, bb)
        s = str(e)
        if s == "apy_gradient[0]":
            tab.append("first" if (A.has_fact(facts, "<=", r"^now$", r"^stake_start_time$") or A.has_fact(facts, "==", "^" + TOTAL + "$", r"^0$")) else "first-UNGUARDED")
        elif e.k == "bin" and e.a[0] == "Div" and re.match("^" + TOTAL + "$", str(e.a[2])) and "saturating_add" in str(e.a[1]):
            tab.append("avg")
        else:
            tab.append("other:" + s[:60])
    ctx.ob("apy-average:result", sorted(tab) == ["avg", "first", "first"], "exits: bucket 0 when no time elapsed, otherwise acc / total_seconds (%s)" % sorted(tab), where=f.where())
