"""C39 The competition leaderboard is the top traders by volume.

Decided:
 * extension      : the only store to Competition.end_time outside initialisation is, in extend_competition_time,
                    max(min(old (+sat) extension_duration, now (+sat) extension_cap), old) with old = comp.end_time read in the same
                    function and now = Clock.unix_timestamp  =>  new >= old ("never earlier") and new <= max(old, now + cap)
                    ("never past the later of the old end and trigger time + cap"); no Err exit after the store;
 * leaderboard-step (per-update necessary conditions only): the board is mutated only by update_leaderboard; an existing entry of
                    the trader is removed before the insert (distinctness), the inserted entry carries part.trader / part.volume
                    (latest volume), the insert index is (last index with volume >= new volume) + 1 or 0 (order), the insert is
                    under index < MAX_LEADERBOARD_LEN (= 5) and is always followed by the `len > MAX -> truncate(MAX)` step (at most
                    five); the callback recomputes the board after every volume update on every Ok path.
Not decided: the leaderboard invariant over histories (sortedness/top-5/excluded-not-larger are inductive facts about sequences).
"""
import re

from .. import analyses as A
from .. import h_F as H

CB = r"gmsol_competition::instructions::trade_callback::OnExecuted::<'_>::"


def _minmax(e, name):
    """E -> args list if e is Ord::<name>(a, b) / cmp::<name>(a, b) else None"""
    if e.k == "call" and e.a[0] in ("Ord::" + name, "cmp::" + name, "i64::" + name) and len(e.a[1]) == 2:
        return list(e.a[1])
    return None


def run(ctx):
    prog = ctx.prog(["gmsol_competition"])
    ctx.explanation = (
        "The time-extension clause is decided from the value provenance of the single end_time store (max/min/saturating_add over "
        "the old end time, the clock and the two settings) plus who-may-write over the competition program. For the leaderboard only "
        "the per-update step is checked structurally (remove-before-insert, latest volume, order-preserving insert index, bounded "
        "insert followed by truncate, board recomputed after each volume update).")
    ctx.not_decided = (
        "Everything about the leaderboard as an invariant over histories: at most five DISTINCT traders in non-increasing order, each "
        "with the latest volume, and every excluded participant no larger than the last entry — these are inductive properties of "
        "sequences of updates (and of Vec::insert/remove/rposition semantics); the step conditions checked here are necessary, not "
        "sufficient. That callbacks are only invocable by the store program's PDA signer is C19's.")
    ctx.rule("extension", "end_time := max(min(old + duration, now + cap), old); only writer besides initialisation; atomic")
    ctx.rule("leaderboard-step", "per-update necessary conditions: dedup, latest volume, ordered insert index, bounded insert + truncate, always recomputed")

    # ------------------------------------------------------------------ extension
    f = ctx.fn(CB + "extend_competition_time")
    if f:
        ws = H.writes_to(f, r"^comp\.end_time$")
        ok_max = ok_min = ok_prop = False
        desc = "%d stores" % len(ws)
        if len(ws) == 1:
            rv = ws[0][2]
            desc = str(rv)
            mx = _minmax(rv, "max")
            if mx:
                olds = [x for x in mx if str(x) == "comp.end_time"]
                rest = [x for x in mx if str(x) != "comp.end_time"]
                ok_max = len(olds) == 1 and len(rest) == 1
                if ok_max:
                    mn = _minmax(rest[0], "min")
                    if mn:
                        s = [str(x) for x in mn]
                        cap = [x for x in s if re.match(r"^i64::saturating_add\(SolanaSysvar::get\(\)\?\.unix_timestamp, comp\.extension_cap\)$", x)]
                        prop = [x for x in s if re.match(r"^i64::saturating_add\(comp\.end_time, comp\.extension_duration\)$", x)]
                        ok_min = len(cap) == 1
                        ok_prop = len(prop) == 1
        ctx.ob("extension:never-earlier", ok_max, "end_time := max(<candidate>, comp.end_time): %s" % desc[:200], where=f.where())
        ctx.ob("extension:capped", ok_max and ok_min, "<candidate> = min(.., now (+sat) comp.extension_cap) with now = Clock::get()?.unix_timestamp", where=f.where())
        ctx.ob("extension:proposed", ok_max and ok_prop, "<candidate> = min(comp.end_time (+sat) comp.extension_duration, ..)", where=f.where())
        H.atomic_update(ctx, "extension:atomic", f)
    ws = H.field_writers(prog, ["gmsol_competition"], "states::Competition", "end_time")
    who = sorted(set(w["fn"].short for w in ws))
    ctx.ob("extension:writers", who == ["InitializeCompetition::invoke", "OnExecuted::extend_competition_time"], "Competition.end_time is written by %s" % who,
           where="programs/competition/src")
    ctx.floor("extension-writers", len(ws), 2)
    init = ctx.fn(r"gmsol_competition::instructions::.*InitializeCompetition.*::invoke")
    a = None
    if init:
        m = re.search(r"Context<.*?, ([A-Za-z0-9_:]+)(?:<.*>)?>$", init.inputs[0]) if init.inputs else None
        a = prog.adts.get(m.group(1)) if m else None
    if a is not None:
        fld = [x for x in a.fields if x["name"] == "competition"]
        ok = bool(fld) and re.search(r"\binit\b", fld[0].get("pre", "")) is not None and "init_if_needed" not in fld[0].get("pre", "")
        ctx.ob("extension:init-once", ok, "the competition account is created with `init` (its end_time cannot be re-initialised)", where="%s:%d" % (a.file, a.line))

    # ------------------------------------------------------------------ leaderboard step
    g = ctx.fn(CB + "update_leaderboard")
    mx = ctx.const(r"^gmsol_competition::states::MAX_LEADERBOARD_LEN")
    if mx:
        ctx.ob("leaderboard-step:max-len", int(mx["int"]) == 5, "MAX_LEADERBOARD_LEN = %s" % mx["int"], where="programs/competition/src/states.rs")
    ws = H.field_writers(prog, ["gmsol_competition"], "states::Competition", "leaderboard")
    who = sorted(set(w["fn"].short for w in ws))
    ctx.ob("leaderboard-step:writers", who == ["InitializeCompetition::invoke", "OnExecuted::update_leaderboard"], "Competition.leaderboard is mutated by %s" % who,
           where="programs/competition/src")
    if g:
        cl = {c.id.rsplit("::", 1)[-1]: H.closure_view(prog, g, c) for c in prog.closures_of(g)}
        ins = [c for c in g.calls if c.short == "Vec::insert" and str(c.arg_expr(0)) == "comp.leaderboard"]
        rem = [c for c in g.calls if c.short == "Vec::remove" and str(c.arg_expr(0)) == "comp.leaderboard"]
        tr = [c for c in g.calls if c.short == "Vec::truncate" and str(c.arg_expr(0)) == "comp.leaderboard"]
        muts = [c for c in g.calls if re.match(r"^Vec::(insert|remove|truncate|push|pop|clear|swap_remove|retain|drain|sort.*|dedup.*|extend.*|append)$", c.short)]
        ctx.ob("leaderboard-step:ops", len(ins) == 1 and len(rem) == 1 and len(tr) == 1 and len(muts) == 3,
               "the step is remove? / insert / truncate (%s)" % [c.short for c in muts], where=g.where())
        if len(ins) == 1 and len(rem) == 1 and len(tr) == 1:
            i0, r0, t0 = ins[0], rem[0], tr[0]
            # dedup
            pos = str(r0.arg_expr(1))
            m = re.match(r"^Iterator::position\(\[T\]::iter\(comp\.leaderboard\), closure<.*(\{closure#\d+\})>\)@Some\.0$", pos)
            ok = m is not None and cl.get(m.group(1)) in (["PartialEq::eq($1.address, <part>.trader)"], ["PartialEq::eq(<part>.trader, $1.address)"]) and g.dominates(r0.bb, i0.bb) is False
            # remove happens on the Some arm and precedes the insert on that path
            ok = ok and g.can_reach(r0.bb, i0.bb) and not g.can_reach(i0.bb, r0.bb)
            some_guard = [(s, allowed) for s, cond, allowed, labels in g.guards(r0.bb) if cond.k == "discr" and "Iterator::position(" in str(cond)]
            ok = ok and len(some_guard) == 1 and some_guard[0][1] == frozenset([1])
            ctx.ob("leaderboard-step:dedup", ok, "an existing entry with address == part.trader is removed (on the Some arm of position(..)) before the insert", where=g.where(r0.line))
            # entry alternatives / latest volume
            alts = sorted(str(x) for x in i0.arg_expr(2).alts())
            new_ok = "LeaderEntry{address: part.trader, volume: part.volume}" in alts
            old_alt = [x for x in alts if x.startswith("Vec::remove(comp.leaderboard,")]
            vol_w = [w for w in A.field_writes(g, r"\.volume$") if w["kind"] == "assign" and w["path"].startswith("Vec::remove(comp.leaderboard,") and str(w["rv"]) == "part.volume"]
            ok = new_ok and len(alts) == 2 and len(old_alt) == 1 and len(vol_w) == 1 and g.can_reach(r0.bb, vol_w[0]["bb"]) and g.can_reach(vol_w[0]["bb"], i0.bb)
            ok = ok and any(s == some_guard[0][0] and allowed == frozenset([1]) for s, cond, allowed, labels in g.guards(vol_w[0]["bb"])) if some_guard else False
            ctx.ob("leaderboard-step:latest-volume", ok, "the inserted entry is either a new {part.trader, part.volume} or the removed entry with volume := part.volume", where=g.where(i0.line),
                   detail=[a[:90] for a in alts])
            # ordered insert index: (last index whose volume >= new volume) + 1, or 0 when there is none — either as
            # rposition(..).map(|p| p + 1).unwrap_or(0) or as a match/if-let on the Option (per-arm definitions)
            idx = str(i0.arg_expr(1))
            rp = [c for c in g.calls if c.short == "Iterator::rposition" and str(c.arg_expr(0)) == "[T]::iter(comp.leaderboard)"]
            pred_ok = False
            if len(rp) == 1 and rp[0].arg_expr(1).k == "closure":
                cname = rp[0].arg_expr(1).a[0].rsplit("::", 1)[-1]
                pv = (cl.get(cname) or [""])[0]
                mm = re.match(r"^\(\$1\.volume Ge <(.*)>\)$", pv) or re.match(r"^\(<(.*)> Le \$1\.volume\)$", pv)
                # the compared volume is the volume of the entry being inserted (new: part.volume; moved: set to part.volume)
                if mm is not None:
                    inner = mm.group(1)
                    alts_v = set(re.split(r" \| ", inner[4:-1])) if inner.startswith("phi(") and inner.endswith(")") else {inner}
                    moved = "%s.volume" % g._call_expr(r0, 0, ())
                    pred_ok = "part.volume" in alts_v and alts_v <= {"part.volume", moved}
            rps = "Iterator::rposition([T]::iter(comp.leaderboard), "
            shape_ok = False
            m = re.match(r"^Option::unwrap_or\(Option::map\(Iterator::rposition\(\[T\]::iter\(comp\.leaderboard\), closure<.*>\), closure<.*(\{closure#\d+\})>\), 0\)$", idx)
            if m is not None:
                shape_ok = cl.get(m.group(1)) in (["($1 AddWithOverflow 1).0"], ["($1 Add 1)"])
            else:
                tab = {}
                for bb, e in H.phi_defs(g, i0.args[1]):
                    arm = None
                    if bb is not None:
                        for sb, cond, allowed, labels in g.guards(bb):
                            if cond.k == "discr" and str(cond.a[0]).startswith(rps):
                                arm = "Some" if allowed == frozenset([1]) else ("None" if allowed == frozenset([0]) else None)
                    tab[arm] = str(e)
                shape_ok = set(tab) == {"Some", "None"} and tab["None"] == "0" and \
                    re.match(r"^\(" + re.escape(rps) + r"closure<.*>\)@Some\.0 (AddWithOverflow|Add) 1\)(\.0)?$", tab["Some"]) is not None
            ctx.ob("leaderboard-step:ordered-insert", pred_ok and shape_ok and len(rp) == 1,
                   "insert index = (rposition(|e| e.volume >= entry.volume) + 1) or 0 when none (predicate ok=%s, index shape ok=%s)" % (pred_ok, shape_ok), where=g.where(i0.line))
            # bounded
            facts = A.cmp_facts(g, i0.bb)
            ok = any(o == "<" and str(a) == str(i0.arg_expr(1)) and re.search(r"MAX_LEADERBOARD_LEN as usize\)$", str(b)) for (o, a, b) in facts if b is not None)
            ctx.ob("leaderboard-step:insert-below-max", ok, "the insert happens only for index < MAX_LEADERBOARD_LEN", where=g.where(i0.line))
            lsw = [i for i, b in enumerate(g.blocks) if b["t"][0] == "switch" and re.match(r"^\(Vec::len\(comp\.leaderboard\) Gt \(states::MAX_LEADERBOARD_LEN as usize\)\)$", str(g.expr(b["t"][1])))]
            ok = len(lsw) == 1 and H.must_pass(g, i0.target if i0.target is not None else i0.bb, lsw) and g.dominates(i0.bb, lsw[0])
            tf = A.cmp_facts(g, t0.bb)
            ok = ok and A.has_fact(tf, ">", r"^Vec::len\(comp\.leaderboard\)$", r"MAX_LEADERBOARD_LEN as usize\)$") and \
                re.match(r"^\(states::MAX_LEADERBOARD_LEN as usize\)$", str(t0.arg_expr(1))) is not None
            if ok:
                true_t = [t for t, lab in g.succ(lsw[0]) if lab[0] == "otherwise"]
                ok = len(true_t) == 1 and H.must_pass(g, true_t[0], [t0.bb])
            ctx.ob("leaderboard-step:truncated", ok, "after the insert every path tests len > MAX and, if so, truncates to MAX before returning", where=g.where(t0.line))
    cb = ctx.fn(CB + r"invoke::\{closure#1\}")
    if cb and g:
        ul = cb.calls_to(CB + "update_leaderboard$")
        vw = H.writes_to(cb, r"^part\.volume$")
        ok = len(ul) == 1 and len(vw) == 1 and [str(ul[0].arg_expr(i)) for i in range(2)] == ["comp", "part"] and \
            str(vw[0][2]) == "u128::saturating_add(part.volume, ^volume)" and H.must_pass_to_ok(cb, vw[0][0], [ul[0].bb]) and cb.can_reach(vw[0][0], ul[0].bb)
        ctx.ob("leaderboard-step:recomputed", ok, "after part.volume += volume every Ok path of the callback calls update_leaderboard(comp, part)", where=cb.where())
