"""C43 SDK amount and Decimal conversions round-trip — panic / truncation discipline (crates/sdk/src/utils/fixed.rs).

 * const          : MAX_REPR = 2^96 - 1, TARGET_SCALE = ilog10(MAX_REPR) - 1;
 * no-panic       : inventory of every potential panic site of every function of the module (raw `-`, `pow`, `/`, `ilog10`,
                    `expect`, diverging calls), discharged by affine facts: `decimals - 28` under `decimals > 28`,
                    `10u64.pow(d)` with d <= 19 from the early return, `ilog10(num)` with `num > MAX_REPR` (call-site fact of the
                    inner helper, shown at its only caller) => 28 <= digits <= 38 => `digits - 27` and `10u128.pow(..)` safe,
                    `scale - scale_diff` under `scale >= scale_diff`, `decimals - scale` on the `Less` arm; remaining sites must be
                    tabled (tables/C43.json, one reason each);
 * decimal-scale  : every call of the PANICKING constructor `Decimal::from_i128_with_scale(n, s)` must have s <= 28 implied
                    (rust_decimal panics with ScaleExceedsMaximumPrecision otherwise); the checked `try_from_i128_with_scale`
                    must not be unwrapped (this rule found the defect repaired by fix: 0812dc9);
 * casts          : every `as` cast is widening, or its operand's upper bound fits the target, or it is tabled;
 * rescale        : `rescale_to_mantissa`: scale == decimals -> Ok(mantissa); scale < decimals -> checked_pow + checked_mul,
                    None -> Err; scale > decimals -> Err (never Ok);
 * checked-exit   : decimal_to_amount / decimal_to_value leave through `TryInto::try_into` + map_err (no `as`);
 * sign           : signed_* negate exactly when `num.is_negative()` and convert `unsigned_abs()`;
 * clamp          : unsigned_amount_to_decimal passes decimals <= 28 to unsigned_fixed_to_decimal;
 * scale-provenance: at every site that hands a (number, scale) pair on — `Decimal::try_from_i128_with_scale`,
                    `from_i128_with_scale`, and the module's own `*_to_decimal` / `convert_by_change_the_scale` calls — a
                    symbolic execution of each path shows  scale = <caller's decimals> - K  where 10^K is EXACTLY what the
                    number was divided by on that path (K = 0: both unchanged; K = scale_diff with `num /= 10^scale_diff`;
                    K = decimals - 28 with the compensating division in unsigned_amount_to_decimal). A scale that was capped,
                    min-ed or replaced without the matching division of the number is a silently mis-scaled value.
"""
import json
import os
import re

from .. import analyses as A
from ..h_E import LinFn, Lin, TERM, INF, INT_RANGE, inventory, uses_of
from ..model import short_path

TABLE = os.path.join(os.path.dirname(os.path.dirname(os.path.dirname(os.path.abspath(__file__)))), "tables", "C43.json")
MOD = r"gmsol_sdk::utils::fixed::"
DECIMAL_MAX_SCALE = 28


def run(ctx):
    prog = ctx.prog(["gmsol_sdk"])
    table = json.load(open(TABLE))["tabled"]
    ctx.explanation = (
        "All functions of sdk/utils/fixed.rs: a panic-site inventory (raw arithmetic, pow, ilog10, division, expect, panicking "
        "rust_decimal constructor) and an `as`-cast inventory are discharged by affine facts from dominating guards, a call-site "
        "fact of the inner helper and the monotonicity of ilog10; rescale_to_mantissa's three-way table; checked exits; sign "
        "polarity; the decimals clamp. Undischarged sites must be tabled with a reason.")
    ctx.not_decided = (
        "The round-trip equality itself (value semantics of rust_decimal's rescale/mantissa) is not decided. Whether the silent "
        "down-scaling of unsigned_amount_to_decimal for decimals > 28 (asserted by the repo's own tests) counts as 'silently scaled' "
        "is a specification question left open. Panic freedom inside rust_decimal (rescale, Neg, Display) is not analysed; the three "
        "`expect(\"must be Some\")` and one `as i128` are tabled value arguments.")
    ctx.rule("const", "MAX_REPR = 2^96-1 and TARGET_SCALE = ilog10(MAX_REPR) - 1")
    ctx.rule("no-panic", "every potential panic site of the module is discharged by affine facts or tabled with a reason")
    ctx.rule("decimal-scale", "Decimal::from_i128_with_scale(n, s) (panicking constructor) is only called with s <= 28 implied")
    ctx.rule("casts", "every `as` cast is widening, value-bounded by a dominating fact, or tabled")
    ctx.rule("rescale", "rescale_to_mantissa: Equal -> Ok(mantissa); Less -> checked_pow/checked_mul or Err; Greater -> Err")
    ctx.rule("checked-exit", "decimal_to_amount / decimal_to_value convert with TryInto + map_err")
    ctx.rule("sign", "signed conversions negate exactly under is_negative() and convert unsigned_abs()")
    ctx.rule("clamp", "unsigned_amount_to_decimal calls unsigned_fixed_to_decimal with decimals <= 28")
    ctx.rule("scale-provenance", "at every (number, scale) hand-off the scale is the caller's decimals minus exactly the power of ten the number was divided by on that path")

    c_repr = ctx.const(MOD + "MAX_REPR")
    c_ts = ctx.const(MOD + "TARGET_SCALE")
    if c_repr is None or c_ts is None:
        return
    MAX_REPR, TS = int(c_repr["int"]), int(c_ts["int"])
    ctx.ob("const:MAX_REPR", MAX_REPR == 2 ** 96 - 1, "MAX_REPR = %d (2^96-1 = %d)" % (MAX_REPR, 2 ** 96 - 1), where="%s:%d" % (c_repr["file"], c_repr["line"]))
    ctx.ob("const:TARGET_SCALE", TS == len(str(MAX_REPR)) - 2, "TARGET_SCALE = %d = ilog10(MAX_REPR) - 1" % TS, where="%s:%d" % (c_ts["file"], c_ts["line"]))

    fns = [f for f in prog.fns.values() if re.match(MOD, f.id) and "::tests::" not in f.id]
    ctx.floor("functions", len(fns), 13)
    helper = ctx.fn(MOD + r"unsigned_fixed_to_decimal::convert_by_change_the_scale")
    n_sites = 0
    n_casts = 0
    n_ctor = 0
    for f in sorted(fns, key=lambda g: g.id):
        ctx.analysed_fns.add(f.id)
        L = LinFn(f, prog)
        tab = table.get(f.short, {})
        used = set()
        if helper is not None and f.id == helper.id:
            # call-site fact: every caller passes `num` under `num > MAX_REPR`
            callers = prog.callers_of(f.id)
            good = len(callers) >= 1
            for cs in callers:
                Lc = LinFn(cs.fn, prog)
                a0 = Lc.lin_op(cs.args[0], (cs.bb, TERM))
                okc = a0 is not None and Lc.lb(a0, (cs.bb, TERM)) >= MAX_REPR + 1
                good = good and okc
                ctx.ob("no-panic:%s:call-site-fact@%s" % (f.short, cs.fn.short), okc,
                       "%s calls the helper only with num >= MAX_REPR + 1 (lower bound %s)" % (cs.fn.short, Lc.lb(a0, (cs.bb, TERM)) if a0 is not None else "?"),
                       where=cs.where())
            if good:
                L.assume(L._atom(1, [], ty="u128").add(Lin({}, -(MAX_REPR + 1))))
        for r in inventory(L):
            n_sites += 1
            key, ok, msg = r["key"], r["ok"], r["msg"]
            if not ok and key in tab:
                used.add(key)
                ctx.ob("no-panic:%s:%s" % (f.short, key), True, "tabled: %s — %s" % (msg, tab[key][:200]), where=f.where(r["line"]), nontrivial=False)
                continue
            ctx.ob("no-panic:%s:%s" % (f.short, key), ok, "%s: %s" % (f.short, msg), where=f.where(r["line"]))
        # rust_decimal constructors: the panicking one needs a bounded scale, the checked one must not be unwrapped
        for cs in f.calls:
            if cs.short == "Decimal::from_i128_with_scale":
                S = (cs.bb, TERM)
                s_ = L.lin_op(cs.args[1], S)
                u = L.ub(s_, S) if s_ is not None else INF
                n_ctor += 1
                ctx.ob("decimal-scale:%s" % f.short, u <= DECIMAL_MAX_SCALE,
                       "%s calls Decimal::from_i128_with_scale(_, %s): scale <= %s, but rust_decimal PANICS for scale > 28 — "
                       "e.g. unsigned_fixed_to_decimal(u128::MAX, 40): digits = 38, scale_diff = 11, 40 - 11 = 29" % (
                           f.short, L.render(s_) if s_ is not None else "?", u if u != INF else "unbounded") if u > DECIMAL_MAX_SCALE else
                       "%s: Decimal::from_i128_with_scale(_, %s) with scale <= %s" % (f.short, L.render(s_), u),
                       where=cs.where())
            elif cs.short == "Decimal::try_from_i128_with_scale":
                n_ctor += 1
                us = uses_of(f, cs.dest[0]) if len(cs.dest) == 1 and cs.dest != [0] else []
                bad = [u[2].short for u in us if u[0] == "call" and re.search(r"(unwrap|expect)$", u[2].short) and not re.search(r"unwrap_or", u[2].short)]
                ctx.ob("decimal-scale:%s" % f.short, not bad,
                       "%s uses the checked Decimal::try_from_i128_with_scale and does not unwrap it (%s)" % (f.short, [u[2].short for u in us if u[0] == "call"] or "returned"),
                       where=cs.where())
        # casts
        for c in A.cast_sites(f):
            if c["e"].k == "const" or not (c["narrowing"] or c["sign_change"]):
                continue
            n_casts += 1
            key = "cast:%s->%s" % (c["from"], c["to"])
            # locate the statement to bound its operand
            okc, why = False, "operand not bounded"
            for bb, si, st in f.statements():
                if st[0] == "=" and st[2][0] == "cast" and f.stmt_line(st) == c["line"] and st[2][3] == c["to"] and bb == c["bb"]:
                    v = L.lin_op(st[2][2], (bb, si))
                    if v is not None and c["to"] in INT_RANGE:
                        u, l = L.ub(v, (bb, si)), L.lb(v, (bb, si))
                        okc = u <= INT_RANGE[c["to"]][1] and l >= INT_RANGE[c["to"]][0]
                        why = "%s in [%s, %s]" % (L.render(v), l, u if u != INF else "inf")
            if not okc and key in tab:
                used.add(key)
                ctx.ob("casts:%s:%s" % (f.short, key), True, "tabled: `%s as %s` — %s" % (str(c["e"])[:30], c["to"], tab[key][:200]), where=f.where(c["line"]), nontrivial=False)
                continue
            ctx.ob("casts:%s:%s" % (f.short, key), okc, "%s: `%s as %s` (%s -> %s): %s" % (f.short, str(c["e"])[:30], c["to"], c["from"], c["to"], why), where=f.where(c["line"]))
        for key in tab:
            if key not in used:
                ctx.ob("no-panic:%s:tabled-stale:%s" % (f.short, key), False, "tabled site `%s` of %s no longer exists (table and code disagree)" % (key, f.short), where=f.where())
    ctx.floor("no-panic:sites", n_sites, 8)    # vacuity guard only: removing a site is not a violation
    ctx.floor("decimal-scale", n_ctor, 2)
    ctx.floor("casts", n_casts, 2)
    for k in table:
        if not any(f.short == k for f in fns):
            ctx.ob("no-panic:tabled-fn:%s" % k, False, "tabled function %s not found" % k, where="tables/C43.json")

    _rescale(ctx, prog)
    _exits(ctx, prog)
    _sign(ctx, prog)
    _clamp(ctx, prog)
    _scale_provenance(ctx, prog, fns)


def _rescale(ctx, prog):
    f = ctx.fn(MOD + r"rescale_to_mantissa")
    if f is None:
        return
    dec = f.locals[2][1] or "decimals"
    val = f.locals[1][1] or "value"
    cmp_s = "discr(Ord::cmp(Decimal::scale(%s), %s))" % (val, dec)
    rows = {}
    for bb, k, e in f.exits():
        lab = None
        for (g, cond, allowed, labels) in f.guards(bb):
            if str(cond) == cmp_s:
                lab = {frozenset([255]): "Less", frozenset([0]): "Equal", frozenset([1]): "Greater"}.get(allowed)
        rows.setdefault(lab, []).append((k, str(e)))
    eq_ok = rows.get("Equal") == [("ok", "Result::Ok{0: Decimal::mantissa(%s)}" % val)]
    gt_ok = bool(rows.get("Greater")) and all(k == "err" for k, _ in rows["Greater"])
    less = rows.get("Less", [])
    lt_ok = len(less) == 1 and re.match(
        r"^Option::ok_or_else\(Option::and_then\(i128::checked_pow\(10, \(%s SubWithOverflow Decimal::scale\(%s\)\)\.0\), closure<.*>\), closure<.*>\)$" % (dec, val),
        less[0][1]) is not None
    cl = [c for c in prog.closures_of(f)]
    mul = [str(e) for c in cl for _, _, e in c.exits() if "checked_mul" in str(e)]
    mul_ok = mul == ["i128::checked_mul(^mantissa, m)"] or (len(mul) == 1 and re.match(r"^i128::checked_mul\(\^mantissa, \w+\)$", mul[0]) is not None)
    ctx.ob("rescale:Equal", eq_ok, "scale == decimals -> %s" % rows.get("Equal"), where=f.where())
    ctx.ob("rescale:Greater", gt_ok, "scale > decimals -> only Err (%s)" % [k for k, _ in rows.get("Greater", [])], where=f.where())
    ctx.ob("rescale:Less", lt_ok and mul_ok, "scale < decimals -> checked_pow(10, decimals - scale).and_then(|m| mantissa.checked_mul(m)).ok_or_else(Err) (%s; closure %s)" % (lt_ok, mul),
           where=f.where())
    ctx.ob("rescale:rescale-first", [cs.short for cs in f.calls if cs.short.startswith("Decimal::")][:3] == ["Decimal::rescale", "Decimal::scale", "Decimal::mantissa"]
           and str(f.calls_to(r"Decimal::rescale$")[0].arg_expr(1)) == dec,
           "value.rescale(decimals) precedes reading scale() and mantissa()", where=f.where())


def _exits(ctx, prog):
    for nm, ga in (("decimal_to_amount", "[i128, u64]"), ("decimal_to_value", "[i128, u128]")):
        f = ctx.fn(MOD + nm)
        if f is None:
            continue
        conv = [cs for cs in f.calls if cs.short == "TryInto::try_into"]
        casts = [c for c in A.cast_sites(f) if c["e"].k != "const"]
        oks = [str(e) for _, k, e in f.exits() if k != "err"]
        ok = len(conv) == 1 and conv[0].gargs == ga and not casts and len(oks) == 1 and \
            re.match(r"^Result::map_err\(TryInto::try_into\(fixed::\w+\(%s, %s\)\?\), " % (f.locals[1][1], f.locals[2][1]), oks[0]) is not None
        ctx.ob("checked-exit:%s" % nm, ok, "%s = %s (TryInto %s, no `as`)" % (nm, oks[0][:90] if oks else None, [c.gargs for c in conv]), where=f.where())
    f = ctx.fn(MOD + "decimal_to_signed_value")
    if f is not None:
        ex = [str(e) for _, _, e in f.exits()]
        ctx.ob("checked-exit:decimal_to_signed_value", ex == ["fixed::rescale_to_mantissa(%s, %s)" % (f.locals[1][1], f.locals[2][1])],
               "decimal_to_signed_value = %s" % ex, where=f.where())


def _sign(ctx, prog):
    for nm, inner in (("signed_fixed_to_decimal", "fixed::unsigned_fixed_to_decimal"), ("signed_amount_to_decimal", "fixed::unsigned_amount_to_decimal")):
        f = ctx.fn(MOD + nm)
        if f is None:
            continue
        num = f.locals[1][1] or "num"
        ty = f.locals[1][0]
        flag = "%s::is_negative(%s)" % (ty, num)
        negs = [cs for cs in f.calls if cs.short == "Neg::neg"]
        under = lambda bb, t: any(str(c) == flag and tt == t for c, tt in f.bool_guards(bb))
        neg_ok = len(negs) == 1 and under(negs[0].bb, True)
        inn = [cs for cs in f.calls if cs.short == inner]
        abs_ok = len(inn) == 1 and str(inn[0].arg_expr(0)) == "%s::unsigned_abs(%s)" % (ty, num) and str(inn[0].arg_expr(1)) == (f.locals[2][1] or "decimals")
        # the non-negated result leaves only under the false edge
        plain = [bb for bb, k, e in f.exits() if k != "err" and "Neg::neg" not in str(e)]
        plain_ok = all(under(bb, False) for bb in plain) and len(plain) >= 1
        ctx.ob("sign:%s" % nm, neg_ok and abs_ok and plain_ok,
               "%s: negates under `%s` (%s), converts unsigned_abs with the same decimals (%s), un-negated result only when not negative (%s)" % (nm, flag, neg_ok, abs_ok, plain_ok),
               where=f.where())


def _clamp(ctx, prog):
    f = ctx.fn(MOD + "unsigned_amount_to_decimal")
    if f is None:
        return
    cs = [c for c in f.calls if c.short == "fixed::unsigned_fixed_to_decimal"]
    ok = len(cs) == 1
    seen = []
    dec = f.locals[2][1] or "decimals"
    if ok:
        for p in A.decision_table(f):
            if not A.feasible(p) or cs[0].bb not in p["blocks"]:
                continue
            upto = p["blocks"].index(cs[0].bb)
            e = f.expr_on_path(cs[0].args[1], p["blocks"], upto + 1)
            if e.k == "param":
                # model.expr_on_path ignores re-assignments of parameters (`decimals = MAX_DECIMALS`): take the last
                # assignment to the parameter executed on this path, if any
                pos = {b: i for i, b in enumerate(p["blocks"][:upto + 1])}
                ds = [d for d in f.defs().get(e.a[0] + 1, []) if d[2] == () and d[0] in pos and d[1] != "call"]
                if ds:
                    d = max(ds, key=lambda d: (pos[d[0]], d[1]))
                    if d[3][0] == "use":
                        e = f.expr(d[3][1])
            s_ = str(e)
            if e.k == "const" and isinstance(e.a[1], dict) and e.a[1].get("int") is not None and int(e.a[1]["int"]) <= DECIMAL_MAX_SCALE:
                seen.append("%s (const)" % s_)
                continue
            small = any((A.as_cmp(c) or (None,))[0] == ">" and str(A.as_cmp(c)[1]) == dec and
                        isinstance(getattr(A.as_cmp(c)[2], "a", [None, None])[1] if A.as_cmp(c)[2].k == "const" else None, dict) and
                        int(A.as_cmp(c)[2].a[1].get("int", "999")) <= DECIMAL_MAX_SCALE and l == 0
                        for c, l, t in p["conds"] if A.as_cmp(c))
            if s_ == dec and small:
                seen.append("%s under !(%s > 28)" % (s_, dec))
                continue
            ok = False
            seen.append("%s UNBOUNDED on path %s" % (s_, [(str(c)[:40], l) for c, l, t in p["conds"]]))
    ctx.ob("clamp:unsigned_amount_to_decimal", ok and len(seen) >= 2,
           "on every path unsigned_fixed_to_decimal receives decimals <= 28: %s" % seen, where=f.where())
    zero = [bb for bb, k, e in f.exits() if str(e) == "Decimal::ZERO"]
    okz = len(zero) == 1 and any(str(c).startswith("(") and t for c, t in f.bool_guards(zero[0]))
    facts = A.cmp_facts(f, zero[0]) if zero else []
    okz = okz and A.has_fact(facts, ">", r"SubWithOverflow", r"^(19|unsigned_amount_to_decimal::MAX_SCALE_FOR_U64)$")
    ctx.ob("clamp:zero-when-beyond-u64", okz, "returns Decimal::ZERO only under scale_diff > MAX_SCALE_FOR_U64 (19)", where=f.where())


# ---------------------------------------------------------------------------------------------- scale provenance

SITE_RE = re.compile(r"(Decimal::(try_from_i128_with_scale|from_i128_with_scale)$|"
                     r"gmsol_sdk::utils::fixed::((un)?signed_(fixed|amount)_to_decimal|unsigned_fixed_to_decimal::convert_by_change_the_scale)$)")
TRANSPARENT_NUM = re.compile(r"(::unsigned_abs$|convert::From::from$|convert::Into::into$|::abs$)")


def _sym_exec(fn, blocks, stop_bb):
    """Symbolic execution of one acyclic path up to (not including) the terminator of stop_bb.
    Values: ('v', base Lin, K Lin)  = base / 10^K   |  ('p', e Lin) = 10^e   |  None (not an integer we follow).
    Entry: parameter 0 = atom N (the number), parameter 1 = atom D (the caller's decimals / scale)."""
    env = {}
    ints = ("u8", "u16", "u32", "u64", "u128", "usize", "i8", "i16", "i32", "i64", "i128", "isize")
    if fn.arg_count >= 1 and fn.locals[1][0] in ints:
        env[1] = ("v", Lin.atom("N"), Lin({}, 0))
    if fn.arg_count >= 2 and fn.locals[2][0] in ints:
        env[2] = ("v", Lin.atom("D"), Lin({}, 0))

    def val(op):
        if isinstance(op, dict):
            if "int" in op:
                try:
                    return ("v", Lin({}, int(op["int"])), Lin({}, 0))
                except ValueError:
                    return None
            return None
        n = op[0]
        projs = [p for p in op[1:]]
        if projs in ([], [".0"]):
            if n in env:
                return env[n]
            if fn.locals[n][0] in ints or projs == [".0"]:
                return ("v", Lin.atom("_%d" % n), Lin({}, 0))
        return None

    for bb in blocks:
        b = fn.blocks[bb]
        for st in b["s"]:
            if st[0] != "=" or len(st[1]) != 1:
                continue
            x, rv = st[1][0], st[2]
            k = rv[0]
            r = None
            if k == "use":
                r = val(rv[1])
            elif k == "cast" and rv[1] == "IntToInt":
                r = val(rv[2])
            elif k == "bin":
                op = rv[1].replace("WithOverflow", "").replace("Unchecked", "")
                a, c = val(rv[2]), val(rv[3])
                if op in ("Add", "Sub") and a and c and a[0] == "v" and c[0] == "v" and a[2].is_const() and a[2].k == 0 and c[2].is_const() and c[2].k == 0:
                    r = ("v", a[1].add(c[1]) if op == "Add" else a[1].sub(c[1]), Lin({}, 0))
                elif op == "Div" and a and c and a[0] == "v" and c[0] == "p":
                    r = ("v", a[1], a[2].add(c[1]))
                elif op in ("Add", "Sub", "Mul", "Div", "Rem", "Shl", "Shr", "BitAnd", "BitOr"):
                    r = ("v", Lin.atom("_%d" % x), Lin({}, 0))      # opaque result
            if r is not None:
                env[x] = r
            elif x in env:
                del env[x]
        if bb == stop_bb:
            break
        t = b["t"]
        if t[0] == "call":
            c = t[1]
            d = c["dest"]
            if len(d) != 1:
                continue
            nm = c.get("resolved_def") or c.get("callee_def") or c.get("resolved") or c.get("callee") or ""
            nm2 = c.get("callee") or ""
            args = c["args"]
            r = None
            if re.search(r"num::<impl \w+>::pow$", nm2) and len(args) == 2:
                base, e = val(args[0]), val(args[1])
                if base and e and base[0] == "v" and base[1].is_const() and base[1].k == 10 and e[0] == "v" and e[2].is_const() and e[2].k == 0:
                    r = ("p", e[1])
            elif (TRANSPARENT_NUM.search(nm2) or TRANSPARENT_NUM.search(nm)) and len(args) == 1:
                r = val(args[0])
            if r is None and fn.locals[d[0]][0] in ints:
                r = ("v", Lin.atom("_%d" % d[0]), Lin({}, 0))       # opaque integer produced by a call (min, clamp, ilog10, ..)
            if r is not None:
                env[d[0]] = r
            elif d[0] in env:
                del env[d[0]]
    return env, val


def _scale_provenance(ctx, prog, fns):
    n_sites = 0
    for f in sorted(fns, key=lambda g: g.id):
        sites = [cs for cs in f.calls if SITE_RE.search(cs.callee or "") or SITE_RE.search(getattr(cs, "callee_def", None) or "")]
        if not sites:
            continue
        table = A.decision_table(f)
        for cs in sites:
            n_sites += 1
            msgs, bad = [], []
            n_paths = 0
            seen = set()
            for p in table:
                if p["diverges"] and cs.bb not in p["blocks"]:
                    continue
                if cs.bb not in p["blocks"]:
                    continue
                blocks = p["blocks"][:p["blocks"].index(cs.bb) + 1]
                if tuple(blocks) in seen:
                    continue
                seen.add(tuple(blocks))
                n_paths += 1
                env, val = _sym_exec(f, blocks, cs.bb)
                num, sc = val(cs.args[0]), val(cs.args[1])
                has_d = 2 in _sym_exec(f, [], -1)[0]
                why = None
                if not num or num[0] != "v" or num[1] != Lin.atom("N"):
                    why = "the number is not the caller's number (possibly divided by a power of ten): %s" % (num,)
                elif not sc or sc[0] != "v" or not (sc[2].is_const() and sc[2].k == 0):
                    why = "the scale is not an integer expression: %s" % (sc,)
                else:
                    kn = num[2]
                    if has_d:
                        ks = Lin.atom("D").sub(sc[1])
                        if ks != kn:
                            why = "scale = %s, i.e. decimals - (%s), but the number was divided by 10^(%s)" % (sc[1], ks, kn)
                    elif not (sc[1].is_const() and kn.is_const() and kn.k == 0):
                        why = "constant-decimals entry point passes scale %s with the number divided by 10^(%s)" % (sc[1], kn)
                    msgs.append("scale=%s with number/10^(%s)" % (sc[1], kn))
                if why:
                    bad.append(why)
            ctx.ob("scale-provenance:%s:%s" % (f.short, cs.short), not bad and n_paths >= 1,
                   "%s -> %s: on each of %d path(s) the scale is the caller's decimals minus exactly the exponent the number was divided by [%s]%s" % (
                       f.short, cs.short, n_paths, "; ".join(sorted(set(m.replace("N", "num").replace("D", "decimals") for m in msgs))),
                       "; MIS-SCALED: %s" % sorted(set(b.replace("D", "decimals") for b in bad))[:2] if bad else ""),
                   where=cs.where())
    ctx.floor("scale-provenance", n_sites, 8)
