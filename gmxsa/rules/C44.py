"""C44 Multi-market swaps follow the declared path and move recorded balances.

Decided:
 * validated-path : `validated_primary/secondary_swap_path` return Ok only on the true edge of
                    `iter().all(|t| seen.insert(t))` over their own slice and return that slice; the slices are
                    paths[0..primary] and paths[primary..primary+secondary]; `revertible_swap` obtains both paths only
                    through them (`?`) and pairs long path / expected_token_outs.0 / token_ins.0 / amounts.0 (resp. .1).
 * creation       : `validate_path` — a repeated market key, a market with long == short, or a running token that is
                    neither side of the market leads to Err; the running token flips long->short / short->long; Ok only
                    with current == token_out; `validate_and_init` — MAX_TOTAL_LENGTH >= end and paths.len() >= end
                    hold at the two slice sites, primary/secondary slices are validated with token_ins/outs .0/.1, and
                    the params are stored only after both validations succeeded.
 * markets-unique : `SwapMarkets::new` inserts only on the Vacant edge (Occupied -> Err) keyed by market_token_mint,
                    and under `key != current_market_token` when a current market is given.
 * step           : in `swap_along_the_path` and `swap_with_current` each hop computes side = to_token_side(token_in)
                    and token_out = opposite_token(token_in) on the market it swaps in, holds token_in != token_out at
                    the swap, swaps `token_in_amount` at that market's oracle prices, and then — on every path to the
                    next hop / Ok exit — stores token_in := token_out and token_in_amount := report.token_out_amount();
                    the path loop visits `markets.get_mut(path[i])` in slice order.
 * end-token      : `revertible_swap_for_one_side` returns Ok(token_in_amount) only with token_in == expected_token_out
                    and after requiring that the current market is not among the swap markets.
 * pairing        : every `record_transferred_out_by_token(token_in, token_in_amount)` site is followed — as the next
                    balance-moving or swapping call on every path — by `record_transferred_in_by_token` with the same
                    token/amount on a different market (cross-iteration pair in the loop: out under idx != last, in under
                    idx != 0), and by a balance validation of the paying market before that (tabled exception: the
                    current market, validated at the end of revertible_swap).
 * delayed-validation: every acyclic Ok path of `revertible_swap` validates the balances of the current market.
"""
import re

from .. import analyses as A
from .. import h_D as H

SM = r"gmsol_store::states::market::revertible::swap_market::"
US = r"gmsol_utils::swap::SwapActionParams::"


def _captures(parent, closure_suffix):
    """name -> E of the variables captured by the closure created in `parent` whose id ends with closure_suffix."""
    for bb, si, s in parent.statements():
        if s[0] == "=" and s[2][0] == "agg" and s[2][1] == "closure" and s[2][2].endswith(closure_suffix):
            names = s[2][3]
            ops = s[2][4]
            return {names[i] if i < len(names) else str(i): parent.expr(o) for i, o in enumerate(ops)}
    return None


def run(ctx):
    prog = ctx.prog(["gmsol_store", "gmsol_utils"])
    ctx.explanation = (
        "Swap-path handling is decided structurally on MIR: Ok exits of the path validators are tied to the "
        "duplicate-free test by dominating branch edges; the per-hop shape (side/opposite token of the same market, "
        "token_in != token_out fact, amount and prices provenance, the two state updates after each hop) is checked "
        "by argument provenance and must-pass-through; each recorded transfer-out is paired with the transfer-in of "
        "the same token and amount as the next balance-moving call on every path; acyclic Ok paths of "
        "revertible_swap are enumerated (flag-sensitive) for the delayed validation of the current market.")
    ctx.not_decided = (
        "Swapped amounts and fees (C04/C05); the ten-step bound beyond MAX_TOTAL_LENGTH >= end; that accounts passed "
        "at execution are the markets recorded at creation (resolved by market token mint through the IndexMap); "
        "loop-carried facts (the cross-iteration pair is matched structurally, not by induction on idx); HashSet / "
        "IndexMap library semantics.")
    for rid, txt in (("validated-path", "validated swap paths are duplicate-free slices; revertible_swap uses only them, long/short not crossed"),
                     ("creation", "validate_path / validate_and_init reject duplicates, no-op steps, foreign tokens, wrong end token, over-long paths"),
                     ("markets-unique", "SwapMarkets::new rejects duplicate markets and the current market"),
                     ("step", "each hop converts the running token on its own market and then advances token and amount"),
                     ("end-token", "one-side swap returns Ok only at the expected output token"),
                     ("pairing", "each recorded transfer-out is matched by the next recorded transfer-in of the same token and amount"),
                     ("delayed-validation", "revertible_swap validates the current market's balances on every acyclic Ok path")):
        ctx.rule(rid, txt)
    _validated_path(ctx, prog)
    _creation(ctx, prog)
    _markets_unique(ctx, prog)
    _step(ctx, prog)
    _end_token(ctx, prog)
    _pairing(ctx, prog)
    _delayed(ctx, prog)


# ------------------------------------------------------------------------------------------------------------------

def _uniqueness_test(prog, fn, e, depth=1):
    """If expression `e` (evaluated in fn) is the duplicate-free test of a slice — `X.iter().all(|t| seen.insert(t))`
    over a fresh HashSet, written inline or inside a private helper that receives X (one level) — return str(X)."""
    if e is None or e.k != "call":
        return None
    name, args = e.a[0], e.a[1]
    if name == "Iterator::all" and len(args) == 2:
        it, clo = args
        if not (it.k == "call" and it.a[0] in ("[T]::iter", "IntoIterator::into_iter", "Iterator::copied") and len(it.a[1]) == 1):
            return None
        if clo.k != "closure":
            return None
        body = prog.fns.get(clo.a[0])
        if body is None:
            return None
        ex = [str(x) for _, _, x in body.exits()]
        m = re.match(r"^HashSet::insert\(\^(\w+), (\w+)\)$", ex[0]) if len(ex) == 1 else None
        if not m:
            return None
        params = [body.locals[i + 1][1] for i in range(body.arg_count)]
        if m.group(2) not in params:
            return None
        caps = dict(zip(clo.a[2], [str(x) for x in clo.a[1]])) if len(clo.a) > 2 else {}
        if caps.get(m.group(1)) not in ("Default::default()", "HashSet::default()", "HashSet::new()"):
            return None
        return str(it.a[1][0])
    cs = H.call_of_expr(e)
    if depth > 0 and cs is not None:
        tgts = prog.callees(cs)
        if len(tgts) == 1 and tgts[0].arg_count == len(args):
            g = tgts[0]
            ex = [x for _, _, x in g.exits()]
            if len(ex) == 1:
                inner = _uniqueness_test(prog, g, ex[0], depth - 1)
                if inner is not None:
                    for i in range(g.arg_count):
                        if g.locals[i + 1][1] == inner:
                            return str(args[i])
    return None


def _validated_path(ctx, prog):
    n = 0
    for nm, sl in (("primary", "primary_swap_path"), ("secondary", "secondary_swap_path")):
        f = ctx.fn(US + "validated_%s_swap_path" % nm)
        if f is None:
            continue
        oks = H.ok_exits(f)
        SLICE = "SwapActionParams::%s(self)" % sl
        good = len(oks) >= 1
        how = []
        for bb, e in oks:
            tested = [_uniqueness_test(prog, f, c) for c, t in f.bool_guards(bb) if t is True]
            hit = SLICE in tested
            how.append("Ok exit under uniqueness test of %s" % [t for t in tested if t])
            good = good and hit and str(e) == "Result::Ok{0: %s}" % SLICE
        n += 1
        ctx.ob("validated-path:" + nm, good,
               "validated_%s_swap_path returns Ok(%s()) only on the true edge of the duplicate-free test (`iter().all(|t| seen.insert(t))` on a fresh set, inline or in a "
               "private helper called on that same slice): %s" % (nm, sl, how), where=f.where())
    p = ctx.fn(US + "primary_swap_path")
    s = ctx.fn(US + "secondary_swap_path")
    if p is not None and s is not None:
        ep = [str(e) for _, _, e in p.exits()]
        es = [str(e) for _, _, e in s.exits()]
        ok = ep == ["Index::index(self.paths, Range{start: 0, end: SwapActionParams::primary_length(self)})"] and \
            es == ["Index::index(self.paths, Range{start: SwapActionParams::primary_length(self), end: usize::saturating_add(SwapActionParams::primary_length(self), SwapActionParams::secondary_length(self))})"]
        n += 1
        ctx.ob("validated-path:slices", ok, "primary = paths[0..primary_length], secondary = paths[primary_length..primary_length+secondary_length]: %s / %s" % (ep, es), where=p.where())
    rs = ctx.fn(SM + r"SwapMarkets::<'a, 'info>::revertible_swap")
    if rs is not None:
        # every invocation of the per-side swap, inline or inside a closure created here, with its arguments expressed
        # in terms of revertible_swap's own values (closure captures substituted)
        sites = []
        for c in rs.calls:
            if c.short == "SwapMarkets::revertible_swap_for_one_side":
                sites.append(([str(c.arg_expr(i)) for i in range(len(c.args))], str(c.arg_expr(5)), c.where()))
        for g in prog.closures_of(rs):
            inner = [c for c in g.calls if c.short == "SwapMarkets::revertible_swap_for_one_side"]
            if not inner:
                continue
            suffix = g.id[len(rs.id):]
            cap = {k: str(v) for k, v in (_captures(rs, suffix) or {}).items()}
            # the closure's own parameter (the token) comes from the Option the closure is mapped over
            users = [c for c in rs.calls if any(str(c.arg_expr(i)) == "closure<%s>" % g.id for i in range(1, len(c.args)))]
            recv = " ".join(str(u.arg_expr(0)) for u in users)
            for c in inner:
                args = []
                for i in range(len(c.args)):
                    a_ = str(c.arg_expr(i))
                    args.append(re.sub(r"\^(\w+)", lambda m: cap.get(m.group(1), "^" + m.group(1)), a_))
                sites.append((args, recv, c.where()))
        seen_sides = {}
        for side, idx, val in (("long", 0, "validated_primary_swap_path"), ("short", 1, "validated_secondary_swap_path")):
            PATH = "Result::map_err(SwapActionParams::%s(params), fn:From::from)?" % val
            vc = [c for c in rs.calls if c.short == "SwapActionParams::" + val]
            mine = [s_ for s_ in sites if len(s_[0]) == 7 and s_[0][3] == PATH]
            ok = len(vc) == 1 and str(vc[0].arg_expr(0)) == "params" and H.ok_edge2(rs, vc[0]) is not None and len(mine) == 1
            msg = "%d call(s) of %s, %d per-side swap(s) on its result" % (len(vc), val, len(mine))
            if ok:
                args, tok, where = mine[0]
                a = args[4] == "expected_token_outs.%d" % idx and args[6] == "token_in_amounts.%d" % idx
                b = re.search(r"\btoken_ins\.%d\b" % idx, tok) is not None and re.search(r"\btoken_ins\.%d\b" % (1 - idx), tok) is None
                ok = a and b
                msg = "path = %s()?; expected_token_out = %s, amount = %s (%s); token from token_ins.%d only (%s)" % (val, args[4], args[6], a, idx, b)
            n += 1
            ctx.ob("validated-path:revertible_swap:" + side, ok, "revertible_swap %s side: %s" % (side, msg), where=rs.where())
        stray = [s_[2] for s_ in sites if len(s_[0]) != 7 or not re.match(r"^Result::map_err\(SwapActionParams::validated_(primary|secondary)_swap_path\(params\), fn:From::from\)\?$", s_[0][3])]
        ctx.ob("validated-path:revertible_swap:only-validated", not stray and len(sites) == 2,
               "every per-side swap (%d) receives a path that is the `?` result of a validated_*_swap_path call; others: %s" % (len(sites), stray), where=rs.where())
        n += 1
        others = [c.fn.short for g in (ctx.fn(US + "primary_swap_path"), ctx.fn(US + "secondary_swap_path")) if g is not None
                  for c in prog.callers_of(g.id) if c.fn.id.startswith(SM.replace("\\", ""))]
        ctx.ob("validated-path:no-unvalidated-use", not others, "swap_market.rs never reads the unvalidated slices directly: %s" % others, where=rs.where())
        n += 1
    ctx.floor("validated-path", n, 7)


def _creation(ctx, prog):
    vp = ctx.fn(r"gmsol_store::states::common::swap::validate_path")
    vi = ctx.fn(r"<gmsol_utils::swap::SwapActionParams as gmsol_store::states::common::swap::SwapActionParamsExt>::validate_and_init")
    if vp is None or vi is None:
        return
    META = r"Market::validated_meta\(AccountLoader::load\(Iterator::next\(swap::unpack_markets\(path\)\)@Some\.0\?\)\?, store\)\?"
    oks = sorted(vp.ok_exit_blocks())
    nxt = [c for c in vp.calls if c.short == "Iterator::next" and str(c.arg_expr(0)) == "swap::unpack_markets(path)"]
    push = [c for c in vp.calls if c.short == "Vec::push"]
    ok_shape = len(nxt) == 1 and len(push) == 1
    # duplicates
    ins = H.bool_switches(vp, r"^HashSet::insert\(.*, Key::key\(Iterator::next\(swap::unpack_markets\(path\)\)@Some\.0\?\)\)$")
    a = ok_shape and len(ins) == 1 and not any(b in vp.reachable_from(ins[0]["false"]) for b in oks + [push[0].bb, nxt[0].bb]) \
        and vp.dominates(ins[0]["true"], push[0].bb)
    ctx.ob("creation:validate_path:duplicate", a, "a market key already seen (`seen.insert(market.key())` false) reaches no push, no further step and no Ok exit: %s" % a, where=vp.where())
    noop = H.bool_switches(vp, r"^PartialEq::eq\(%s\.long_token_mint, %s\.short_token_mint\)$" % (META, META))
    noop_ne = H.bool_switches(vp, r"^PartialEq::ne\(%s\.long_token_mint, %s\.short_token_mint\)$" % (META, META))
    bad_edges = [sw["true"] for sw in noop] + [sw["false"] for sw in noop_ne]
    good_edges = [sw["false"] for sw in noop] + [sw["true"] for sw in noop_ne]
    b = ok_shape and len(bad_edges) == 1 and not any(x in vp.reachable_from(bad_edges[0]) for x in oks + [push[0].bb, nxt[0].bb]) and vp.dominates(good_edges[0], push[0].bb)
    ctx.ob("creation:validate_path:no-op-step", b, "a market with long_token == short_token reaches no push, no further step and no Ok exit: %s" % b, where=vp.where())
    # flip
    cur_defs = []
    for bb, si, s in vp.statements():
        if s[0] == "=" and len(s[1]) == 1 and vp.locals[s[1][0]][1] == "current":
            cur_defs.append((bb, str(vp._rvalue_expr(s[2], 0, ()))))
    CUR = r"phi\(.*\)"
    is_long = H.bool_switches(vp, r"^PartialEq::eq\(%s, %s\.long_token_mint\)$" % (CUR, META))
    is_short = H.bool_switches(vp, r"^PartialEq::eq\(%s, %s\.short_token_mint\)$" % (CUR, META))
    c = len(is_long) == 1 and len(is_short) == 1 and ok_shape
    msg = "defs of `current`: %s" % [(bb, H.sx(v, 60)) for bb, v in cur_defs]
    if c:
        to_short = [bb for bb, v in cur_defs if re.match("^" + META + r"\.short_token_mint$", v)]
        to_long = [bb for bb, v in cur_defs if re.match("^" + META + r"\.long_token_mint$", v)]
        init = [bb for bb, v in cur_defs if v == "token_in"]
        c = len(to_short) == 1 and len(to_long) == 1 and len(init) == 1 and len(cur_defs) == 3 \
            and vp.dominates(is_long[0]["true"], to_short[0]) and not vp.dominates(is_long[0]["true"], to_long[0]) \
            and vp.dominates(is_short[0]["true"], to_long[0]) and vp.dominates(is_long[0]["false"], is_short[0]["bb"]) \
            and not any(x in vp.reachable_from(is_short[0]["false"]) for x in oks + [push[0].bb, nxt[0].bb]) \
            and H.must_pass(vp, is_long[0]["bb"], [push[0].bb], to_short + to_long)
    ctx.ob("creation:validate_path:flip", c,
           "running token: starts as token_in; == long -> short; else == short -> long; else Err; a step is recorded only after a flip: %s (%s)" % (c, msg), where=vp.where())
    facts = [A.cmp_facts(vp, bb) for bb in oks]
    d = bool(facts) and all(A.has_fact(fs, "==", r"^phi\(.*token_in.*\)$|^phi\(.*\)$", r"^token_out$") for fs in facts)
    # the compared value is the local `current`
    endc = [c_ for c_ in vp.calls if c_.short in ("PartialEq::ne", "PartialEq::eq") and str(c_.arg_expr(1)) == "token_out"]
    d = d and len(endc) == 1 and isinstance(endc[0].args[0], list) and _roots_in_local(vp, endc[0].args[0], "current")
    ctx.ob("creation:validate_path:end-token", d, "validate_path returns Ok only with current == *token_out: %s" % d, where=vp.where())
    e = ok_shape and re.match("^Vec::with_capacity.*$", str(push[0].arg_expr(0))) is not None and re.match("^" + META + r"\.market_token_mint$", str(push[0].arg_expr(1))) is not None \
        and [str(x) for _, x in H.ok_exits(vp)] == ["Result::Ok{0: %s}" % push[0].arg_expr(0)]
    ctx.ob("creation:validate_path:records-market-token", e, "each accepted step pushes meta.market_token_mint into the returned vector: %s" % e, where=vp.where())

    # validate_and_init
    END = r"^usize::saturating_add\(primary_length, secondary_length\)$"
    idxs = [c_ for c_ in vi.calls if c_.short == "Index::index" and str(c_.arg_expr(0)) == "paths"]
    ok = len(idxs) == 2
    for c_ in idxs:
        fs = A.cmp_facts(vi, c_.bb)
        ok = ok and A.has_fact(fs, ">=", r"^SwapActionParams::MAX_TOTAL_LENGTH$", END) and A.has_fact(fs, ">=", r"^\[T\]::len\(paths\)$", END)
    rng = sorted(str(c_.arg_expr(1)) for c_ in idxs)
    ok = ok and set(rng) == {"Range{start: primary_length, end: usize::saturating_add(primary_length, secondary_length)}", "RangeTo{end: primary_length}"}
    ctx.ob("creation:validate_and_init:bounds", ok, "at both slice sites MAX_TOTAL_LENGTH >= end and paths.len() >= end hold; slices %s" % rng, where=vi.where())
    vps = [c_ for c_ in vi.calls if c_.short == "swap::validate_path"]
    ok = len(vps) == 2
    if ok:
        got = sorted([str(c_.arg_expr(1)), str(c_.arg_expr(2)), str(c_.arg_expr(3)), str(c_.arg_expr(4))] for c_ in vps)
        want = sorted([["Index::index(paths, RangeTo{end: primary_length})", "store", "token_ins.0", "token_outs.0"],
                       ["Index::index(paths, Range{start: primary_length, end: usize::saturating_add(primary_length, secondary_length)})", "store", "token_ins.1", "token_outs.1"]])
        ok = got == want and all(H.propagated(vi, c_) for c_ in vps) and str(vps[0].arg_expr(0)) == str(vps[1].arg_expr(0))
    ctx.ob("creation:validate_and_init:pairs", ok, "validate_path(primary slice, token_ins.0 -> token_outs.0) and (secondary slice, token_ins.1 -> token_outs.1), both `?`, same token set: %s" % ok, where=vi.where())
    st = H.state_stores(vi)
    okedges = [H.ok_edge(vi, c_) for c_ in vps] if len(vps) == 2 else []
    vals = {w["path"]: str(w["rv"]) for w in st}
    ok = len(vps) == 2 and bool(st) and all(all(vi.dominates(e_, w["bb"]) for e_ in okedges) for w in st) \
        and vals.get("self.primary_length") == "primary_length" and vals.get("self.secondary_length") == "secondary_length" \
        and vals.get("self.current_market_token") == "HasMarketMeta::market_meta(current_market).market_token_mint" \
        and any(re.match(r"^self\.paths\[", k) and re.search(r"Iterator::chain\(\[T\]::iter\(swap::validate_path\(.*token_ins\.0, token_outs\.0\)\?\), \[T\]::iter\(swap::validate_path\(.*token_ins\.1, token_outs\.1\)\?\)\)", v) for k, v in vals.items())
    ctx.ob("creation:validate_and_init:stores", ok,
           "params are stored only behind both validate_path Ok edges; lengths = arguments; paths = primary validated tokens chained with secondary: %s" % ok, where=vi.where(),
           detail={"stores": sorted(vals)})
    H.atomic(ctx, "creation:validate_and_init:atomic", vi, floor=4)
    ctx.floor("creation", 9, 9)


def _roots_in_local(fn, place, name):
    return fn.locals[place[0]][1] == name or any(
        isinstance(rv, list) and rv[0] in ("ref", "use") and isinstance(rv[-1], list) and fn.locals[rv[-1][0]][1] == name
        for (_b, _s, _p, rv) in fn.defs().get(place[0], []))


def _markets_unique(ctx, prog):
    f = ctx.fn(SM + r"SwapMarkets::<'a, 'info>::new")
    if f is None:
        return
    KEY = r"Market::meta\(AccountLoader::load\(Iterator::next\(loaders\)@Some\.0\)\?\)\.market_token_mint"
    ent = [c for c in f.calls if c.short == "IndexMap::entry"]
    ins = [c for c in f.calls if c.short == "VacantEntry::insert"]
    ok = len(ent) == 1 and len(ins) == 1 and re.match("^" + KEY + "$", str(ent[0].arg_expr(1))) is not None
    if ok:
        sws = H.discr_switches(f, r"^IndexMap::entry\(")
        ok = len(sws) == 1
        if ok:
            sw = sws[0]
            adt = None
            for a in prog.adts.values():
                if a.id.endswith("map::Entry") and "indexmap" in a.id:
                    adt = a
            occ, vac = 0, 1
            if adt is not None and adt.discr_map():
                inv = {v: k for k, v in adt.discr_map().items()}
                occ, vac = inv.get("Occupied", 0), inv.get("Vacant", 1)
            t_occ, t_vac = H.variant_target(f, sw, occ), H.variant_target(f, sw, vac)
            oks = sorted(f.ok_exit_blocks())
            nxt = [c.bb for c in f.calls if c.short == "Iterator::next"]
            ok = f.dominates(t_vac, ins[0].bb) and t_occ != t_vac and not any(b in f.reachable_from(t_occ) for b in oks + nxt + [ins[0].bb])
    ctx.ob("markets-unique:duplicate", ok, "SwapMarkets::new inserts (keyed by market_token_mint) only on the Vacant edge; the Occupied edge reaches no insert, no further loader and no Ok exit: %s" % ok, where=f.where())
    ne = H.bool_switches(f, r"^PartialEq::ne\(%s, current_market_token@Some\.0\)$" % KEY)
    ok2 = len(ne) == 1 and len(ent) == 1 and not any(b in f.reachable_from(ne[0]["false"]) for b in sorted(f.ok_exit_blocks()) + [ent[0].bb]) \
        and H.discr_guarded(f, ne[0]["bb"], r"^current_market_token$", {1})
    sw_c = H.discr_switches(f, r"^current_market_token$")
    ok2 = ok2 and len(sw_c) >= 1 and all(not (ent[0].bb in H.reach_avoiding_edges(f, H.variant_target(f, s, 1), [(ne[0]["bb"], ne[0]["true"])])) for s in sw_c)
    ctx.ob("markets-unique:not-current", ok2, "with a current market given, a loader whose market token equals it reaches no insert and no Ok exit: %s" % ok2, where=f.where())
    ctx.floor("markets-unique", 2, 2)


def _step(ctx, prog):
    n = 0
    for pat, mk_re, label in ((SM + r"SwapMarkets::<'a, 'info>::swap_along_the_path",
                               r"Option::ok_or_else\(IndexMap::get_mut\(self\.markets, Iterator::next\(Iterator::enumerate\(\[T\]::iter\(path\)\)\)@Some\.0\.1\), closure<.*?>\)\?", "swap_along_the_path"),
                              (SM + r"SwapDirection::<'_, M>::swap_with_current", r"phi\(self@From\.0 \| self@Into\.0\)", "swap_with_current")):
        f = ctx.fn(pat)
        if f is None:
            continue
        sw = [c for c in f.calls if c.short == "SwapMarketMutExt::swap"]
        ts = [c for c in f.calls if c.short == "MarketMeta::to_token_side"]
        ot = [c for c in f.calls if c.short == "MarketMeta::opposite_token"]
        mp = [c for c in f.calls if c.short == "Oracle::market_prices"]
        if not (len(sw) == 1 and len(ts) == 1 and len(ot) == 1 and len(mp) == 1):
            ctx.ob("step:%s:shape" % label, False, "expected one swap / to_token_side / opposite_token / market_prices call, found %d/%d/%d/%d" % (len(sw), len(ts), len(ot), len(mp)), where=f.where())
            continue
        s = sw[0]
        MK = "^" + mk_re + "$"
        META = r"^HasMarketMeta::market_meta\(" + mk_re + r"\)$"
        a = re.match(MK, str(s.arg_expr(0))) is not None and re.match(META, str(ts[0].arg_expr(0))) is not None and re.match(META, str(ot[0].arg_expr(0))) is not None \
            and str(ts[0].arg_expr(1)) == "token_in" and str(ot[0].arg_expr(1)) == "token_in" \
            and re.match(r"^Result::map_err\(MarketMeta::to_token_side\(.*, token_in\), fn:From::from\)\?$", str(s.arg_expr(1))) is not None \
            and str(s.arg_expr(2)) == "token_in_amount" \
            and re.match(r"^Oracle::market_prices\(oracle, " + mk_re + r"\)\?$", str(s.arg_expr(3))) is not None
        facts = A.cmp_facts(f, s.bb)
        b = A.has_fact(facts, "!=", r"^token_in$", r"^Result::map_err\(MarketMeta::opposite_token\(.*, token_in\), fn:From::from\)\?$")
        n += 1
        ctx.ob("step:%s:hop" % label, a and b,
               "%s: side and opposite token are taken from the market swapped in, for `token_in` (%s); swap(market, side, token_in_amount, market_prices(market)?); token_in != token_out holds at the swap (%s)" % (label, a, b),
               where=s.where())
        # advance
        ex = [c for c in f.calls if c.short == "MarketAction::execute" and "SwapMarketMutExt::swap" in str(c.arg_expr(0))]
        st = {w["path"]: w for w in H.state_stores(f, r"^token_in")}
        c_ok = len(ex) == 1 and set(st) == {"token_in", "token_in_amount"}
        if c_ok:
            cont = H.ok_edge(f, ex[0])
            tv = str(st["token_in"]["rv"])
            av = str(st["token_in_amount"]["rv"])
            c_ok = re.match(r"^Result::map_err\(MarketMeta::opposite_token\(.*, token_in\), fn:From::from\)\?$", tv) is not None \
                and re.match(r"^Result::map_err\(TryInto::try_into\(SwapReport::token_out_amount\(Result::map_err\(MarketAction::execute\(Result::map_err\(SwapMarketMutExt::swap\(", av) is not None \
                and all(f.dominates(cont, w["bb"]) for w in st.values())
            targets = sorted(f.ok_exit_blocks()) + [c.bb for c in f.calls if c.short == "Iterator::next"]
            c_ok = c_ok and H.must_pass(f, cont, targets, [st["token_in"]["bb"]]) and H.must_pass(f, cont, targets, [st["token_in_amount"]["bb"]])
        n += 1
        ctx.ob("step:%s:advance" % label, c_ok,
               "%s: after the swap executed, token_in := opposite token and token_in_amount := report.token_out_amount() are stored on every path to the next hop / Ok exit: %s" % (label, c_ok), where=f.where())
    f = ctx.fn(SM + r"SwapMarkets::<'a, 'info>::swap_along_the_path")
    if f is not None:
        gm = [c for c in f.calls if c.short == "IndexMap::get_mut"]
        ok = len(gm) == 1 and [str(gm[0].arg_expr(i)) for i in range(2)] == ["self.markets", "Iterator::next(Iterator::enumerate([T]::iter(path)))@Some.0.1"]
        n += 1
        ctx.ob("step:swap_along_the_path:order", ok, "the loop visits self.markets.get_mut(path[i]) for i in slice order (iter().enumerate()): %s" % ok, where=f.where())
    ctx.floor("step", n, 5)


def _end_token(ctx, prog):
    f = ctx.fn(SM + r"SwapMarkets::<'a, 'info>::revertible_swap_for_one_side")
    if f is None:
        return
    oks = H.ok_exits(f)
    a = len(oks) >= 1 and all(A.has_fact(A.cmp_facts(f, bb), "==", r"^token_in$", r"^expected_token_out$") and str(e) == "Result::Ok{0: token_in_amount}" for bb, e in oks)
    b = len(oks) >= 1 and all(A.has_bool_fact(A.cmp_facts(f, bb), True, r"^Option::is_none\(SwapMarkets::get_mut\(self, SwapDirection::current\(direction\)\)\)$") for bb, _ in oks)
    ctx.ob("end-token:revertible_swap_for_one_side", a and b,
           "Ok(token_in_amount) only with token_in == expected_token_out (%s) and with the current market absent from the swap markets (%s)" % (a, b), where=f.where())
    cs = [c for c in f.calls if c.short == "SwapMarkets::swap_along_the_path"]
    ok = len(cs) == 1 and [str(cs[0].arg_expr(i)) for i in range(5)] == ["self", "oracle", "path", "token_in", "token_in_amount"] and H.propagated(f, cs[0])
    sc = [c for c in f.calls if c.short == "SwapDirection::swap_with_current"]
    ok = ok and len(sc) == 2 and all([str(c.arg_expr(i)) for i in range(4)] == ["direction", "oracle", "token_in", "token_in_amount"] and H.propagated(f, c) for c in sc)
    ctx.ob("end-token:threads-running-token", ok, "the same (token_in, token_in_amount) pair is threaded through swap_along_the_path and both swap_with_current calls, all `?`: %s" % ok, where=f.where())
    ctx.floor("end-token", 2, 2)


MOVERS = ("Bank::record_transferred_out_by_token", "Bank::record_transferred_in_by_token", "SwapMarketMutExt::swap",
          "SwapMarkets::swap_along_the_path", "SwapDirection::swap_with_current")
DELAYED_RECEIVER = r"^SwapDirection::current_market_mut\(direction\)$"


def _pairing(ctx, prog):
    n = 0
    for pat, label, want in ((SM + r"SwapMarkets::<'a, 'info>::revertible_swap_for_one_side", "one_side", 4),
                             (SM + r"SwapMarkets::<'a, 'info>::swap_along_the_path", "along_path", 1)):
        f = ctx.fn(pat)
        if f is None:
            continue
        outs = [c for c in f.calls if c.short == "Bank::record_transferred_out_by_token"]
        ins_ = [c for c in f.calls if c.short == "Bank::record_transferred_in_by_token"]
        movers = [c for c in f.calls if c.short in MOVERS]
        oks = sorted(f.ok_exit_blocks())
        skip_edges = []
        if label == "along_path":
            # loop-carried: an iteration that follows a transfer-out has idx >= 1, so the `idx != 0` test cannot take its false edge
            for sw in H.bool_switches(f, r"^\(Iterator::next\(Iterator::enumerate\(\[T\]::iter\(path\)\)\)@Some\.0\.0 Ne 0\)$"):
                skip_edges.append((sw["bb"], sw["false"]))
        for i, o in enumerate(outs):
            recv = str(o.arg_expr(0))
            key = "pairing:%s:%d" % (label, i)
            n += 1
            args = [str(o.arg_expr(1)), str(o.arg_expr(2))]
            start = H.ok_edge2(f, o)
            if start is None:
                ctx.ob(key, False, "%s: the result of record_transferred_out_by_token on %s is not `?`-propagated" % (label, H.sx(recv, 80)), where=o.where())
                continue
            partner = None
            for c in ins_:
                r = f.reachable_from(start, avoid_blocks=[c.bb], avoid_edges=skip_edges)
                others = [m for m in movers if m is not c and m is not o and m.bb in r]
                exits = [b for b in oks if b in r]
                if c.bb in f.reachable_from(start) and not others and (not exits or label == "along_path"):
                    partner = c
                    break
            if partner is None:
                ctx.ob(key, False, "%s: record_transferred_out_by_token on %s has no record_transferred_in_by_token as the next balance-moving call on every path" % (label, H.sx(recv, 80)), where=o.where())
                continue
            same = [str(partner.arg_expr(1)), str(partner.arg_expr(2))] == args and args == ["token_in", "token_in_amount"]
            diff = str(partner.arg_expr(0)) != recv or label == "along_path"
            prop = H.ok_edge2(f, partner) is not None
            between = f.reachable_from(start, avoid_blocks=[partner.bb], avoid_edges=skip_edges)
            vals = [c for c in f.calls if c.bb in between and re.search(r"validate_market_balance", c.short) and str(c.arg_expr(0)) == recv]
            delayed = re.match(DELAYED_RECEIVER, recv) is not None
            v_ok = delayed or (len(vals) >= 1 and all(H.ok_edge2(f, v) is not None for v in vals)
                               and partner.bb not in f.reachable_from(start, avoid_blocks=[H.ok_edge2(f, v) for v in vals], avoid_edges=skip_edges))
            extra = ""
            g_ok = True
            if label == "along_path":
                g_ok = H.guarded(f, o.bb, r"^\(Iterator::next\(Iterator::enumerate\(\[T\]::iter\(path\)\)\)@Some\.0\.0 Ne usize::saturating_sub\(\[T\]::len\(path\), 1\)\)$", True) \
                    and H.guarded(f, partner.bb, r"^\(Iterator::next\(Iterator::enumerate\(\[T\]::iter\(path\)\)\)@Some\.0\.0 Ne 0\)$", True)
                sw = [c for c in f.calls if c.short == "SwapMarketMutExt::swap"]
                adv = H.state_stores(f, r"^token_in")
                g_ok = g_ok and len(sw) == 1 and len(adv) == 2 and all(f.dominates(w["bb"], o.bb) for w in adv) \
                    and sw[0].bb in f.reachable_from(H.ok_edge2(f, partner) or partner.bb) and str(partner.arg_expr(0)) == str(sw[0].arg_expr(0))
                extra = "; out under idx != last and after token/amount were advanced, in under idx != 0 on the market about to be swapped in: %s" % g_ok
            ctx.ob(key, same and diff and prop and v_ok and g_ok,
                   "%s: out on %s -> next mover is in on %s with the same (token_in, token_in_amount): %s; different market: %s; both `?`: %s; paying market validated in between%s: %s%s" % (
                       label, H.sx(recv, 70), H.sx(partner.arg_expr(0), 70), same, diff, prop, " (current market: delayed, see delayed-validation)" if delayed else "", v_ok, extra),
                   where=o.where())
        ctx.ob("pairing:%s:count" % label, len(outs) == want and len(ins_) == want, "%s has %d out / %d in sites (reviewed: %d)" % (label, len(outs), len(ins_), want), where=f.where())
    ctx.floor("pairing", n, 5)


def _delayed(ctx, prog):
    f = ctx.fn(SM + r"SwapMarkets::<'a, 'info>::revertible_swap")
    if f is None:
        return
    flags = [i for i, l in enumerate(f.locals) if l[1] == "current_validated"]
    if len(flags) != 1:
        ctx.ob("delayed-validation:revertible_swap", False, "flag local `current_validated` not found (%d)" % len(flags), where=f.where())
        return
    F = flags[0]
    CUR = "SwapDirection::current_market(direction)"
    vals = [c for c in f.calls if re.search(r"validate_market_balances", c.short) and str(c.arg_expr(0)) == CUR]
    sets_true, sets_false, other = [], [], []
    for (bb, si, proj, rv) in f.defs().get(F, []):
        e = f._rvalue_expr(rv, 0, ()) if not hasattr(rv, "bb") else None
        sv = str(e)
        (sets_true if sv == "true" else sets_false if sv == "false" else other).append(bb)
    a = not other and len(sets_false) == 1 and len(sets_true) >= 1 and all(
        any(H.ok_edge2(f, v) is not None and f.dominates(H.ok_edge2(f, v), bb) for v in vals) for bb in sets_true)
    # the final test of the flag
    sws = []
    for i, b in enumerate(f.blocks):
        t = b["t"]
        if t[0] == "switch" and isinstance(t[1], list) and len(t[1]) == 1:
            n_ = t[1][0]
            ds = [d for d in f.defs().get(n_, []) if d[2] == ()]
            if n_ == F or (len(ds) == 1 and isinstance(ds[0][3], list) and ds[0][3][0] == "use" and ds[0][3][1] == [F]):
                f_t = [tgt for v, tgt in t[2] if int(v) == 0]
                if f_t:
                    sws.append((i, f_t[0], t[3]))
    oks = sorted(f.ok_exit_blocks())
    b_ok = len(sws) == 1 and bool(oks)
    if b_ok:
        sbb, f_t, t_t = sws[0]
        final = [v for v in vals if v.short.endswith("::validate_market_balances") and [str(v.arg_expr(i)) for i in (1, 2)] == ["0", "0"] and f.dominates(f_t, v.bb)]
        b_ok = len(final) == 1 and H.ok_edge2(f, final[0]) is not None and H.must_pass(f, f_t, oks, [H.ok_edge2(f, final[0])]) \
            and all(f.dominates(sbb, x) for x in oks) and all(bb != sbb and sbb in f.reachable_from(bb) for bb in sets_true)
    ctx.ob("delayed-validation:revertible_swap", a and b_ok,
           "`current_validated` is set to true only behind the Ok edge of a balance validation of direction.current_market() (%d site(s): %s); every Ok exit is behind the final test of the flag, "
           "whose false edge cannot reach Ok without validate_market_balances(current_market, 0, 0)?: %s" % (len(sets_true), a, b_ok), where=f.where())
    ctx.floor("delayed-validation", 1, 1)
