"""C41 Transaction packing preserves instructions and respects size limits — the decidable (guard) half.

 * optimizable-true : every path of `TransactionGroupOptions::optimizable` that returns `true` has tested: x.is_mergeable(),
                      y.is_mergeable(), (allow_payer_change or x.payer() == y.payer()), x.len() + y.len() <=
                      max_instructions_per_tx, and x.transaction_size_after_merge(y, true, Some(luts), ..) <= max_transaction_size;
                      false paths are keyed by the conjunct that failed (finite-case evaluation of the NORMALISED decision
                      table: boolean carrier locals resolved, a returned comparison counts as branch + constants);
 * merge-guarded    : every `AtomicGroup::merge` call of the crate lies under the TRUE edge of an `optimizable(..)` call on the
                      window pair (x = element 0, y = element 1 of the same `windows(2)` pair), merges INTO the later slot,
                      after the two swaps (take/swap of slot i, then swap of slot j) that move the earlier group there first;
 * parallel-guard   : in `TransactionGroup::optimize` that call additionally lies under `pg_i.is_mergeable()`,
                      `pg_j.is_mergeable()` and both `single()` being `Some`; `single*/into_single` return Some only for len == 1;
 * merge-body       : `merge` never writes `payer`; it appends signers, owned signers, instructions (self.extend(other)) and adds
                      the compute budgets — and nothing else;
 * add-validates    : `add` pushes a group only after `validate_instruction_group(..)?`, which runs `validate_one(..)?` on every
                      atomic group; `validate_one` returns Ok only under len <= max_instructions_per_tx and
                      transaction_size(true, Some(&self.luts), ..) <= max_transaction_size.
"""
import re

from .. import analyses as A
from ..model import short_path


def _slot(s):
    """which element of the windows(2) pair an expression refers to (0 / 1), by its innermost pair index"""
    m = re.findall(r"windows\(.*?, 2\)\)@Some\.0\[(\d)\]", s)
    return int(m[0]) if m else None


def _optimizable(ctx, prog):
    f = ctx.fn(r"gmsol_solana_utils::transaction_group::TransactionGroupOptions::optimizable")
    if f is None:
        return
    if f.arg_count != 5:
        ctx.ob("anchor-missing:optimizable-signature", False, "optimizable no longer takes (self, x, y, luts, allow_payer_change)", where=f.where())
        return
    x, y, luts, apc = (f.locals[i][1] or "arg%d" % i for i in (2, 3, 4, 5))
    pats = {
        "mx": r"^AtomicGroup::is_mergeable\(%s\)$" % x,
        "my": r"^AtomicGroup::is_mergeable\(%s\)$" % y,
        "apc": r"^%s$" % apc,
    }
    count_a = r"^\(\[T\]::len\(%s\) AddWithOverflow \[T\]::len\(%s\)\)\.0$|^\(\[T\]::len\(%s\) AddWithOverflow \[T\]::len\(%s\)\)\.0$" % (x, y, y, x)
    size_a = r"^AtomicGroup::transaction_size_after_merge\(%s, %s, true, Option::Some\{0: %s\}, TransactionGroupOptions::instruction_options\(self, " % (x, y, luts)
    # `true` only when all four conjunct facts hold — evaluated on normalised paths (boolean carrier locals resolved, a
    # returned comparison split into its two outcomes), so De Morgan rewrites, operand swaps, hoisted sub-expressions and
    # `cond_tail` vs `if !cond_tail { return false } true` are all the same to this rule.
    from ..h_E import norm_paths
    CONJ = ("mergeable", "payer", "count", "size")
    n_true = n_false = 0
    bad_true, bad_false, shape = [], [], []
    covered = {c: 0 for c in CONJ}
    for p in norm_paths(f, split_ret=True):
        asg = {}
        for c, l, is_bool in p["conds"]:
            if not is_bool:
                shape.append("non-boolean switch on %s" % str(c)[:60])
                continue
            truth = l
            s = str(c)
            hit = False
            for k, rx in pats.items():
                if re.match(rx, s):
                    asg[k] = truth
                    hit = True
            if hit:
                continue
            if c.k == "call" and c.a[0] in ("PartialEq::ne", "PartialEq::eq") and \
                    sorted(str(a) for a in c.a[1]) == sorted(["AtomicGroup::payer(%s)" % x, "AtomicGroup::payer(%s)" % y]):
                asg["same_payer"] = (not truth) if c.a[0] == "PartialEq::ne" else truth
                continue
            cm = A.as_cmp(c)
            if cm:
                o, a, b = cm
                if not truth:
                    o = A.NEG[o]
                if re.match(count_a, str(b)) or re.match(size_a, str(b)):
                    o, a, b = A.FLIP[o], b, a
                if re.match(count_a, str(a)) and str(b) == "self.max_instructions_per_tx" and o in (">", "<="):
                    asg["count_ok"] = (o == "<=")
                    continue
                if re.match(size_a, str(a)) and str(b) == "self.max_transaction_size" and o in (">", "<="):
                    asg["size_ok"] = (o == "<=")
                    continue
            shape.append(s[:90])
        ret = str(p["ret"])
        holds = {"mergeable": asg.get("mx") is True and asg.get("my") is True,
                 "payer": asg.get("apc") is True or asg.get("same_payer") is True,
                 "count": asg.get("count_ok") is True, "size": asg.get("size_ok") is True}
        fails = {"mergeable": asg.get("mx") is False or asg.get("my") is False,
                 "payer": asg.get("apc") is False and asg.get("same_payer") is False,
                 "count": asg.get("count_ok") is False, "size": asg.get("size_ok") is False}
        if ret == "true":
            n_true += 1
            miss = [c for c in CONJ if not holds[c]]
            if miss:
                bad_true.append("a path returns true without establishing %s (tested %s)" % (miss, asg))
        elif ret == "false":
            n_false += 1
            fl = [c for c in CONJ if fails[c]]
            for c in fl:
                covered[c] += 1
            if not fl:
                bad_false.append("a path returns false although no requirement failed (tested %s)" % asg)
        else:
            shape.append("returns %s" % ret[:60])
    ctx.ob("optimizable-true:shape", not shape, "every condition of optimizable is one of the recognised atoms%s" % ("; UNRECOGNISED %s" % shape[:3] if shape else ""),
           where=f.where(), nontrivial=False)
    ctx.ob("optimizable-true:all-conjuncts", not bad_true and n_true >= 1,
           "all %d paths returning true establish mergeable(x)&mergeable(y), (allow_payer_change | same payer), count <= max_instructions_per_tx, "
           "size_after_merge <= max_transaction_size%s" % (n_true, "; VIOLATED: %s" % bad_true[:2] if bad_true else ""), where=f.where())
    ctx.ob("optimizable-false:no-spurious-refusal", not bad_false, "all %d paths returning false have a failed requirement%s" % (
        n_false, "; VIOLATED: %s" % bad_false[:2] if bad_false else ""), where=f.where())
    for c in CONJ:
        ctx.ob("optimizable-false:%s" % c, covered[c] >= 1, "a failing `%s` requirement leads to false on %d path(s)" % (c, covered[c]), where=f.where())
    ctx.floor("optimizable-true", n_true, 1)
    ctx.floor("optimizable-false", n_false, 4)


def _merge_sites(ctx, prog):
    sites = [cs for f in prog.fns.values() if f.crate == "gmsol_solana_utils" and "::tests::" not in f.id
             for cs in f.calls if cs.short == "AtomicGroup::merge"]
    ctx.floor("merge-guarded", len(sites), 2)
    for cs in sites:
        f = cs.fn
        lab = f.short
        opt = [(c, t) for c, t in f.bool_guards(cs.bb) if c.k == "call" and c.a[0] == "TransactionGroupOptions::optimizable"]
        ok = len(opt) == 1 and opt[0][1] is True
        xs = ys = None
        if ok:
            args = opt[0][0].a[1]
            xs, ys = _slot(str(args[1])), _slot(str(args[2]))
            apc = str(args[4]) == (f.locals[[i for i in range(1, f.arg_count + 1) if f.locals[i][0] == "bool"][0]][1] if any(f.locals[i][0] == "bool" for i in range(1, f.arg_count + 1)) else "?")
            ok = xs == 0 and ys == 1 and apc
        ctx.ob("merge-guarded:%s" % lab, ok,
               "%s: merge lies under the true edge of optimizable(pair[%s], pair[%s], .., allow_payer_change): %s" % (lab, xs, ys, [(str(c)[:60], t) for c, t in opt]),
               where=cs.where())
        # merge INTO the later slot, after the earlier group was moved there
        recv = _slot(str(cs.arg_expr(0)))
        moves = [c for c in f.calls if c.short in ("mem::swap", "mem::take", "mem::replace") and f.dominates(c.bb, cs.bb)]
        order = [(c.short, _slot(str(c.arg_expr(0)))) for c in moves]
        dance = recv == 1 and len(order) == 2 and order[0][1] == 0 and order[1] == ("mem::swap", 1) and f.dominates(moves[0].bb, moves[1].bb)
        # the second operand of the swap on slot j is the value taken out of slot i
        if dance:
            second = moves[1].args[1]
            src = moves[0]
            held = None
            if src.short == "mem::take":
                held = src.dest
            else:
                held = None
                a1 = src.args[1]
                # swap(&mut slot_i, &mut group): both swaps must name the same local `group`
                from ..h_E import LinFn
                L = LinFn(f, prog)
                held = L.canon_place([a1[0], "*"]) if not isinstance(a1, dict) else None
            from ..h_E import LinFn
            L = LinFn(f, prog)
            sec = L.canon_place([second[0], "*"]) if not isinstance(second, dict) else None
            dance = held is not None and sec is not None and sec[0] == held[0]
        ctx.ob("merge-order:%s" % lab, dance,
               "%s: the earlier group is moved into the later slot (moves %s) and the later group is merged after it (receiver slot %s)" % (lab, order, recv),
               where=cs.where())
        if lab == "TransactionGroup::optimize":
            pm = [(str(c), t) for c, t in f.bool_guards(cs.bb) if c.k == "call" and c.a[0] == "ParallelGroup::is_mergeable"]
            slots = sorted(_slot(s) for s, t in pm if t is True and _slot(s) is not None)
            singles = [(str(g[1]), g[2]) for g in f.guards(cs.bb) if g[1].k == "discr" and str(g[1]).startswith("discr(ParallelGroup::single(")]
            sslots = sorted(_slot(s) for s, al in singles if al == frozenset([1]) and _slot(s) is not None)
            ctx.ob("parallel-guard:TransactionGroup::optimize", slots == [0, 1] and sslots == [0, 1],
                   "merging two parallel groups requires is_mergeable() on both (slots %s) and single() = Some on both (slots %s)" % (slots, sslots),
                   where=cs.where())
    for nm in ("single", "single_mut", "into_single"):
        g = ctx.fn(r"gmsol_solana_utils::instruction_group::ParallelGroup::%s" % nm)
        if g is None:
            continue
        oks = [bb for bb, k, e in g.exits() if k == "ok"]
        # the semantic fact: the number of groups == 1 holds at every Some exit — established by a length comparison
        # (== / != with either polarity) or by a one-element slice pattern (PtrMetadata of the slice == 1)
        LEN = r"^(\w+::len\(self\.groups\)|len\(self\.groups\)|PtrMetadata\((\w+::(as_slice|as_mut_slice|deref|deref_mut|as_ref|as_mut)\()?self\.groups\)?\))$"
        good = len(oks) >= 1 and all(A.has_fact(A.cmp_facts(g, bb), "==", LEN, r"^1$") for bb in oks)
        ctx.ob("parallel-guard:ParallelGroup::%s" % nm, good, "ParallelGroup::%s returns Some only where groups.len() == 1 holds (%s)" % (
            nm, [[(o, str(a)[:50], str(b)) for o, a, b in A.cmp_facts(g, bb) if b is not None] for bb in oks]), where=g.where())
    for nm, ty in (("AtomicGroup", "AtomicGroup"), ("ParallelGroup", "ParallelGroup")):
        g = ctx.fn(r"gmsol_solana_utils::instruction_group::%s::is_mergeable" % nm)
        if g is not None:
            ex = [str(e) for _, _, e in g.exits()]
            ctx.ob("parallel-guard:%s::is_mergeable" % nm, ex == ["%s::options(self).is_mergeable" % ty], "%s::is_mergeable() = %s" % (nm, ex), where=g.where())


def _merge_body(ctx, prog):
    f = ctx.fn(r"gmsol_solana_utils::instruction_group::AtomicGroup::merge")
    if f is None:
        return
    ws = A.field_writes(f, r"^self\.payer|^self$")
    pay = [w for w in A.field_writes(f, r"payer")]
    whole = [w for w in A.field_writes(f, r"^self$") if w["kind"] == "assign"]
    ctx.ob("merge-body:keeps-payer", not pay and not whole, "merge never stores to / mutably borrows `payer` and never overwrites *self (%s)" % [w["path"] for w in pay + whole],
           where=f.where())
    calls = [(cs.short, [str(cs.arg_expr(i)) for i in range(len(cs.args))]) for cs in f.calls]
    oth = f.locals[2][1] or "other"
    want = {("self.signers", "%s.signers" % oth), ("self.owned_signers", "%s.owned_signers" % oth), ("self.instructions", "%s.instructions" % oth),
            ("self.compute_budget", "%s.compute_budget" % oth)}
    got = set(tuple(a) for _, a in calls if len(a) == 2)
    names = sorted(n for n, _ in calls)
    ctx.ob("merge-body:appends", got == want and all(re.search(r"(append|extend|add_assign)$", n) for n in names) and len(calls) == 4,
           "merge = %s" % calls, where=f.where())


def _add(ctx, prog):
    v1 = ctx.fn(r"gmsol_solana_utils::transaction_group::TransactionGroup::validate_one")
    if v1 is not None:
        g = v1.locals[2][1] or "group"
        oks = [bb for bb, k, e in v1.exits() if k == "ok"]
        ctx.floor("add-validates:validate_one-ok", len(oks), 1)
        for bb in oks:
            facts = A.cmp_facts(v1, bb)
            c_ok = A.has_fact(facts, "<=", r"^\[T\]::len\(%s\)$" % g, r"^self\.options\.max_instructions_per_tx$")
            s_ok = A.has_fact(facts, "<=", r"^AtomicGroup::transaction_size\(%s, true, Option::Some\{0: self\.luts\}, " % g, r"^self\.options\.max_transaction_size$")
            ctx.ob("add-validates:validate_one:count", c_ok, "validate_one returns Ok only under group.len() <= max_instructions_per_tx", where=v1.where())
            ctx.ob("add-validates:validate_one:size", s_ok, "validate_one returns Ok only under transaction_size(group, true, Some(&self.luts), ..) <= max_transaction_size", where=v1.where())
    vg = ctx.fn(r"gmsol_solana_utils::transaction_group::TransactionGroup::validate_instruction_group")
    if vg is not None:
        from ..h_E import consumed_by_try
        cs = [c for c in vg.calls if c.short == "TransactionGroup::validate_one"]
        ok = len(cs) == 1 and consumed_by_try(vg, cs[0])[0] and re.match(r"^Iterator::next\(\[T\]::iter\(%s\)\)@Some\.0$" % (vg.locals[2][1] or "group"), str(cs[0].arg_expr(1))) is not None
        # Ok(()) only when the iterator is exhausted
        oks = [bb for bb, k, e in vg.exits() if k == "ok"]
        ex_ok = all(any(g_[1].k == "discr" and str(g_[1]).startswith("discr(Iterator::next(") and g_[2] == frozenset([0]) for g_ in vg.guards(bb)) for bb in oks) and len(oks) == 1
        ctx.ob("add-validates:validate_instruction_group", ok and ex_ok,
               "validate_instruction_group runs validate_one(..)? on every element of the group and returns Ok only after the last one", where=vg.where())
    add = ctx.fn(r"gmsol_solana_utils::transaction_group::TransactionGroup::add")
    if add is not None:
        from ..h_E import consumed_by_try
        push = [c for c in add.calls if re.search(r"Vec::push$", c.short) and str(c.arg_expr(0)) == "self.groups"]
        val = [c for c in add.calls if c.short == "TransactionGroup::validate_instruction_group"]
        ok = len(push) == 1 and len(val) == 1 and consumed_by_try(add, val[0])[0] and add.dominates(val[0].bb, push[0].bb) and \
            str(val[0].arg_expr(1)) == str(push[0].arg_expr(1))
        if ok:
            from .. import anchor
            ts = anchor.try_switch_of(add, val[0])
            ok = bool(ts) and add.dominates(ts[1], push[0].bb)
        others = [w for w in A.field_writes(add, r"^self\.groups") if w["kind"] == "assign"]
        ctx.ob("add-validates:add", ok and not others, "add() pushes the group only on the Ok edge of validate_instruction_group(&group)? (same value validated and pushed)",
               where=add.where())


def run(ctx):
    prog = ctx.prog(["gmsol_solana_utils"])
    ctx.explanation = (
        "The guard structure of transaction packing: the decision table of optimizable (every true path has tested both mergeable "
        "flags, the payer rule, the instruction-count limit and the estimated merged size against the configured limits), dominance of "
        "every AtomicGroup::merge by a positive optimizable() on the adjacent window pair (plus the ParallelGroup-level mergeable and "
        "single() requirements), the move-then-merge order into the later slot, merge's write set (payer untouched), and add()'s "
        "validation-before-push with the same two limits.")
    ctx.not_decided = (
        "'Never drops, duplicates or reorders instructions' and 'never splits an atomic group' as statements about instruction SEQUENCES "
        "(the swap/merge dance over several windows, the drain/filter of emptied groups) are not decided — only the order of the two moves "
        "and the merge direction are checked. 'The size estimate is never below the real serialized size' is numeric (transaction_size vs. "
        "solana's serializer) and is not decided. Limits of transactions built WITHOUT optimize/add (direct AtomicGroup use) are out of scope.")
    ctx.rule("optimizable-true", "every path returning true tested mergeable(x), mergeable(y), payer rule, count <= max, size_after_merge <= max")
    ctx.rule("optimizable-false", "every path returning false has a failed requirement")
    ctx.rule("merge-guarded", "every AtomicGroup::merge lies under optimizable(pair[0], pair[1], ..) == true")
    ctx.rule("merge-order", "earlier group moved into the later slot first, later group merged after it")
    ctx.rule("parallel-guard", "parallel groups merge only if both are mergeable and both are single; single* = Some only for len == 1")
    ctx.rule("merge-body", "merge keeps the payer and only appends signers/instructions/compute budget")
    ctx.rule("add-validates", "add pushes only validated groups; validate_one enforces both limits")
    _optimizable(ctx, prog)
    _merge_sites(ctx, prog)
    _merge_body(ctx, prog)
    _add(ctx, prog)
