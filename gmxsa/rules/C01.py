"""C01 Fixed-point arithmetic is exact with the documented rounding.

Decided (structural necessary conditions, all paths of the helper set in crates/model num.rs / utils.rs / fixed.rs):

 * muldiv-*      : each `MulDiv::{checked_mul_div, checked_mul_div_ceil}` impl (u64, u128) returns None on a zero
                   denominator, computes  DIV(widen(self) * widen(numerator), widen(denominator))  in a type twice as
                   wide (u64->u128, u128->U256: the product cannot wrap), DIV is the truncating division for the
                   floor method and `div_ceil` for the ceil method, and the quotient leaves only through
                   `try_into().ok()` (no narrowing `as`).
 * roundup-div   : `checked_round_up_div` = checked_div(self + divisor - 1, divisor) as a linear form of checked ops,
                   None on zero divisor.
 * away-div      : `as_divisor_to_round_up_magnitude_div`: negative dividend -> (dividend - d + 1)/d, otherwise
                   (dividend + d - 1)/d with d = self, None on zero.
 * bound-mag     : `bound_magnitude` evaluated over all 13 orderings of (|v|, min, max) x sign equals
                   sign * clamp(|v|, min, max), Err when min > max; `to_signed_with_sign`, `to_opposite_signed`.
 * sign-dispatch : sign case split of checked_{add,sub,mul}_with_signed, checked_signed_sub,
                   checked_mul_div_with_signed_numerator.
 * util-round    : apply_factor / div_to_factor(round_up) / div_to_factor_signed / usd_to_market_token_amount /
                   market_token_amount_to_usd / Fixed::checked_mul / apply_factors use the documented primitive with
                   the right operand in the denominator position.
 * pow-int       : integer-exponent branch of checked_pow_fixed multiplies `exponent / UNIT` times with checked_mul + `?`.
 * raw-arith     : no unchecked arithmetic / narrowing cast / wrapping|saturating|unwrap call in the helper set except
                   the tabled sites.
"""
import json
import os
import re

from .. import analyses as A
from .. import h_A as H
from ..model import short_path

HELPERS = (r"gmsol_model::num::(Unsigned|MulDiv)::[a-z_]+", r"<u64 as gmsol_model::num::(MulDiv|Unsigned)>::[a-z_]+",
           r"gmsol_model::num::u128::<impl gmsol_model::num::(MulDiv|Unsigned) for u128>::[a-z_]+",
           r"gmsol_model::utils::[a-z_]+",
           r"<gmsol_model::fixed::Fixed<T, DECIMALS> as num_traits::(CheckedMul|CheckedAdd)>::[a-z_]+",
           r"gmsol_model::fixed::Fixed::<T, DECIMALS>::checked_pow",
           r"<u(64|128) as gmsol_model::fixed::FixedPointOps<DECIMALS>>::checked_pow_fixed")
HELPER_FLOOR = 30
BITS = {"u64": 64, "u128": 128, "i64": 64, "i128": 128}


def _width(ty):
    ty = ty.replace("&", "").strip()
    if ty in BITS:
        return BITS[ty]
    m = re.search(r"Uint<(\d+)", ty)
    if m:
        return int(m.group(1))
    return None


def _widened(fn, e):
    """(param name, from_bits, to_bits) if e is a widening conversion of a parameter, else None."""
    if e.k == "cast" and e.a[0].k == "param":
        p = e.a[0]
        return (str(p), _width(fn.locals[p.a[0] + 1][0]), _width(e.a[1]))
    if e.k == "call" and re.search(r"(^|::)from$", e.a[0]) and len(e.a[1]) == 1 and e.a[1][0].k == "param":
        p = e.a[1][0]
        cs = H.callsite(e)
        to = _width(fn.locals[cs.dest[0]][0]) if cs is not None else None
        return (str(p), _width(fn.locals[p.a[0] + 1][0]), to)
    return None


def _product(e):
    if e.k == "field" and e.a[1] == "0" and e.a[0].k == "bin":
        e = e.a[0]
    if e.k == "bin" and e.a[0] in ("Mul", "MulWithOverflow"):
        return e.a[1], e.a[2]
    if e.k == "call" and re.search(r"(^|::)Mul::mul$|(^|::)mul$", e.a[0]) and len(e.a[1]) == 2:
        return e.a[1][0], e.a[1][1]
    return None


def _quotient(e):
    """(rounding, dividend, divisor, site_bb)"""
    if e.k == "bin" and e.a[0] == "Div":
        return ("floor", e.a[1], e.a[2])
    if e.k == "call" and len(e.a[1]) == 2:
        if re.search(r"(^|::)div_ceil$", e.a[0]):
            return ("ceil", e.a[1][0], e.a[1][1])
        if re.search(r"(^|::)(Div::div|div|checked_div)$", e.a[0]):
            return ("floor", e.a[1][0], e.a[1][1])
    return None


def _nonzero_at(fn, bb, name):
    facts = A.cmp_facts(fn, bb)
    if A.has_fact(facts, "!=", r"^%s$" % name, r"^0$"):
        return True
    return A.has_bool_fact(facts, False, r"^Zero::is_zero\(%s\)$" % name)


def _value_exits(fn):
    return [(bb, e) for bb, k, e in fn.exits() if k != "err"]


def check_muldiv(ctx, fn, tag, rounding):
    # (a) None on zero denominator: every non-None exit is under `denominator != 0`, and a None exit exists under `== 0`
    vex = _value_exits(fn)
    ok_a = bool(vex) and all(_nonzero_at(fn, bb, "denominator") for bb, _ in vex)
    zero_none = [p for p in H.none_paths(fn) if p.holds(r"^\(denominator Eq 0\)$|^Zero::is_zero\(denominator\)$", True)]
    ctx.ob("muldiv-zero-denominator:" + tag, ok_a and bool(zero_none),
           "%s: every value exit lies under `denominator != 0` (%d exits) and the `== 0` edge returns None (%d paths)" % (
               tag, len(vex), len(zero_none)), where=fn.where())
    # (b) shape of the value
    good, why = False, "no value exit"
    for bb, e in vex:
        inner = H.peel(e, calls=("Result::ok", "TryInto::try_into", "TryFrom::try_from"))
        narrowed_by_try = len(e.calls(r"(^|::)(try_into|try_from)$")) >= 1
        q = _quotient(inner)
        if q is None:
            good, why = False, "value is not a quotient: %s" % inner
            break
        kind, dividend, divisor = q
        pr = _product(dividend)
        wd = _widened(fn, divisor)
        if pr is None or wd is None:
            good, why = False, "dividend is not a product / divisor not a widened parameter: %s" % inner
            break
        wa, wb = _widened(fn, pr[0]), _widened(fn, pr[1])
        if wa is None or wb is None:
            good, why = False, "product operands are not widened parameters: %s" % inner
            break
        names_ok = sorted([wa[0], wb[0]]) == ["numerator", "self"] and wd[0] == "denominator"
        wide_ok = all(w[1] is not None and w[2] is not None and w[2] >= 2 * w[1] for w in (wa, wb, wd))
        good = names_ok and wide_ok and kind == rounding and narrowed_by_try
        why = "value = try_into(%s-div(%s*%s [%s->%s bits], %s)).ok(); expected rounding %s" % (
            kind, wa[0], wb[0], wa[1], wa[2], wd[0], rounding)
        if not good:
            break
    ctx.ob("muldiv-shape:" + tag, good, "%s: %s" % (tag, why), where=fn.where())
    # (c) division site guarded (A9 discharge of DivisionByZero)
    sites = [s for s in A.arith_sites(fn) if s["op"] in ("Div", "Rem")]
    sites_bb = [s["bb"] for s in sites] + [c.bb for c in fn.calls if re.search(r"(^|::)(div_ceil|Div::div|div)$", c.short)]
    ctx.ob("muldiv-div-guarded:" + tag, bool(sites_bb) and all(_nonzero_at(fn, b, "denominator") for b in sites_bb),
           "%s: %d division site(s), each dominated by `denominator != 0`" % (tag, len(sites_bb)), where=fn.where())


def run(ctx):
    prog = ctx.prog(["gmsol_model"])
    ctx.explanation = (
        "Structural half of 'exact with documented rounding, else failure' for the fixed-point helper set: the widening "
        "mul-div shape, zero-denominator -> None, rounding primitive per method (floor/ceil/away), the linear forms of "
        "the round-up idioms, an exhaustive finite-case evaluation of bound_magnitude (13 orderings x sign), the sign "
        "dispatch of the signed helpers, the operand positions in the utils wrappers, and an A8 sweep: no unchecked "
        "arithmetic, narrowing cast or wrapping/saturating/unwrap call in the helper set outside the tabled sites.")
    ctx.not_decided = (
        "That the widened quotient equals the mathematical quotient (value reasoning over ruint/u128 division is trusted); "
        "checked_pow_fixed for non-unit exponents (rust_decimal / U64D9 conversion path); that num_traits checked_* of the "
        "primitive integer types are exact (trusted library).")
    ctx.rule("muldiv-zero-denominator", "MulDiv impl returns None iff-guarded on denominator == 0")
    ctx.rule("muldiv-shape", "value = try_into(DIV(widen(self)*widen(numerator), widen(denominator))).ok(), 2x widening, DIV floor|ceil per method")
    ctx.rule("muldiv-div-guarded", "every division site is dominated by denominator != 0")
    ctx.rule("roundup-div", "checked_round_up_div = checked_div(self + divisor - 1, divisor); None on zero divisor")
    ctx.rule("away-div", "as_divisor_to_round_up_magnitude_div rounds away from zero by sign of the dividend")
    ctx.rule("bound-mag", "bound_magnitude == sign*clamp(|v|,min,max) on all orderings; Err iff min > max")
    ctx.rule("sign-dispatch", "signed helpers negate / add / subtract according to the sign test")
    ctx.rule("util-round", "utils wrappers call the documented primitive with the documented operand positions")
    ctx.rule("pow-int", "integer-exponent power: exponent/UNIT checked multiplications, failure propagated")
    ctx.rule("raw-arith", "no unchecked arithmetic, narrowing cast, wrapping/saturating/unwrap call outside tabled sites")

    # ------------------------------------------------------------------ MulDiv impls
    n = 0
    for ty, pat in (("u64", r"<u64 as gmsol_model::num::MulDiv>::%s"),
                    ("u128", r"gmsol_model::num::u128::<impl gmsol_model::num::MulDiv for u128>::%s")):
        for m, rounding in (("checked_mul_div", "floor"), ("checked_mul_div_ceil", "ceil")):
            f = ctx.fn(pat % m)
            if f is None:
                continue
            n += 1
            check_muldiv(ctx, f, "%s::%s" % (ty, m), rounding)
    ctx.floor("muldiv", n, 4)

    _roundup(ctx)
    _away(ctx)
    _bound(ctx)
    _signs(ctx)
    _utils(ctx)
    _pow(ctx, prog)
    _raw(ctx, prog)


def _atom_params(*names):
    def atom(x):
        if x.k == "param" and str(x) in names:
            return str(x)
        return None
    return atom


def _roundup(ctx):
    f = ctx.fn(r"gmsol_model::num::Unsigned::checked_round_up_div")
    if f is None:
        return
    vps = H.value_paths(f)
    ok, msgs = bool(vps), []
    for p in vps:
        e = H.peel(p.ret)
        q = _quotient(e)
        guarded = p.holds(r"^Zero::is_zero\(divisor\)$", False)
        try:
            lf = H.linform(q[1], _atom_params("self", "divisor")) if q else None
        except H.NotLinear as ex:
            lf = str(ex)
        good = q is not None and q[0] == "floor" and str(q[2]) == "divisor" and lf == {"self": 1, "divisor": 1, "1": -1} and guarded
        msgs.append("dividend=%s divisor=%s guarded=%s" % (lf, q[2] if q else None, guarded))
        ok = ok and good
    ctx.ob("roundup-div:value", ok, "checked_round_up_div value paths: %s (want self+divisor-1 over divisor, under divisor != 0)" % msgs,
           where=f.where())
    nz = [p for p in H.none_paths(f) if p.holds(r"^Zero::is_zero\(divisor\)$", True)]
    ctx.ob("roundup-div:zero", bool(nz), "zero divisor returns None (%d path)" % len(nz), where=f.where())
    ctx.floor("roundup-div", len(vps), 1)


def _away(ctx):
    f = ctx.fn(r"gmsol_model::num::Unsigned::as_divisor_to_round_up_magnitude_div")
    if f is None:
        return
    vps = H.value_paths(f)
    seen = {}
    for p in vps:
        e = H.peel(p.ret)
        q = _quotient(e)
        neg = True if p.holds(r"^Signed::is_negative\(dividend\)$", True) else (False if p.holds(r"^Signed::is_negative\(dividend\)$", False) else None)
        guarded = p.holds(r"^Zero::is_zero\(self\)$", False)
        try:
            lf = H.linform(q[1], _atom_params("self", "dividend")) if q else None
            dv = H.linform(q[2], _atom_params("self", "dividend")) if q else None
        except H.NotLinear as ex:
            lf, dv = str(ex), None
        want = {"dividend": 1, "self": -1, "1": 1} if neg else {"dividend": 1, "self": 1, "1": -1}
        good = q is not None and q[0] == "floor" and dv == {"self": 1} and lf == want and guarded and neg is not None
        seen.setdefault(neg, []).append((good, lf))
    for neg, nm in ((True, "negative"), (False, "non-negative")):
        rs = seen.get(neg, [])
        ctx.ob("away-div:" + nm, bool(rs) and all(g for g, _ in rs),
               "dividend %s: numerator linear form %s over divisor self (truncating division) => magnitude rounded up" % (nm, [l for _, l in rs]),
               where=f.where())
    ctx.ob("away-div:other-paths", set(seen) <= {True, False}, "every value path is under a sign test of the dividend", where=f.where())
    nz = [p for p in H.none_paths(f) if p.holds(r"^Zero::is_zero\(self\)$", True)]
    ctx.ob("away-div:zero", bool(nz), "zero divisor returns None (%d path)" % len(nz), where=f.where())
    ctx.floor("away-div", len(vps), 2)


def _bound(ctx):
    f = ctx.fn(r"gmsol_model::num::Unsigned::bound_magnitude")
    if f is None:
        return

    def atomize(x):
        s = str(x)
        if s == "UnsignedAbs::unsigned_abs(value)":
            return "v"
        if s in ("min", "max"):
            return s
        if s == "Signed::is_negative(value)":
            return "neg"
        return None
    cases = bad = 0
    try:
        for ranks, bools, sel in H.finite_eval(f, atomize, ["v", "min", "max"], ["neg"]):
            cases += 1
            outs = set()
            for p in sel:
                k = H.retkind(p.ret)
                if k == "none":
                    outs.add(("Err",))
                    continue
                e = H.peel(p.ret)
                if str(e) == "value":
                    outs.add(("mag", ranks["v"], "same-sign"))
                elif H.is_call(e, r"^Unsigned::to_signed_with_sign$"):
                    a0, a1 = H.call_args(e)
                    nm = atomize(a0)
                    outs.add(("mag", ranks.get(nm, -1), "same-sign" if atomize(a1) == "neg" else "sign:%s" % a1))
                else:
                    outs.add(("?", str(e)))
            if ranks["min"] > ranks["max"]:
                want = {("Err",)}
            else:
                want = {("mag", min(max(ranks["v"], ranks["min"]), ranks["max"]), "same-sign")}
            if outs != want:
                bad += 1
                ctx.ob("bound-mag:case", False, "ordering %s sign-negative=%s: result %s, specification %s" % (
                    ranks, bools["neg"], sorted(outs), sorted(want)), where=f.where())
    except H.OutOfFragment as ex:
        ctx.ob("bound-mag:fragment", False, "bound_magnitude is no longer finitely evaluable: %s" % ex, where=f.where())
        return
    if not bad:
        ctx.ob("bound-mag:case", True, "all %d abstract inputs (13 orderings of |v|,min,max x sign) give sign*clamp(|v|,min,max), Err iff min>max" % cases,
               where=f.where(), detail={"exhaustive": True, "cases": cases})
    ctx.floor("bound-mag-cases", cases, 26)
    # to_signed_with_sign / to_opposite_signed
    g = ctx.fn(r"gmsol_model::num::Unsigned::to_signed_with_sign")
    if g is not None:
        tab = {}
        for p in H.value_paths(g):
            t = True if p.holds(r"^negative$", True) else (False if p.holds(r"^negative$", False) else None)
            try:
                tab.setdefault(t, set()).add(tuple(sorted(H.linform(p.ret, _atom_params("self")).items())))
            except H.NotLinear:
                tab.setdefault(t, set()).add(("nonlinear",))
        ctx.ob("bound-mag:to_signed_with_sign", tab == {True: {(("self", -1),)}, False: {(("self", 1),)}},
               "to_signed_with_sign: negative -> -self, otherwise +self (found %s)" % {k: sorted(v) for k, v in tab.items()}, where=g.where())
    g = ctx.fn(r"gmsol_model::num::Unsigned::to_opposite_signed")
    if g is not None:
        vs = []
        for p in H.value_paths(g):
            try:
                vs.append(H.linform(p.ret, _atom_params("self")))
            except H.NotLinear:
                vs.append(None)
        neg_checked = all(p.ret.calls(r"^CheckedNeg::checked_neg$") for p in H.value_paths(g))
        ctx.ob("bound-mag:to_opposite_signed", bool(vs) and all(v == {"self": -1} for v in vs) and neg_checked,
               "to_opposite_signed = checked_neg(to_signed(self)?) with failure -> Err (forms %s)" % vs, where=g.where())


def _sign_table(ctx, key, f, cond_re, atom, want_true, want_false, extra=None):
    tab = {True: [], False: [], None: []}
    for p in H.value_paths(f):
        t = True if p.holds(cond_re, True) else (False if p.holds(cond_re, False) else None)
        try:
            tab[t].append(H.linform(p.ret, atom))
        except H.NotLinear as ex:
            tab[t].append({"nonlinear": str(ex)})
    ok = bool(tab[True]) and bool(tab[False]) and not tab[None] and all(x == want_true for x in tab[True]) and all(x == want_false for x in tab[False])
    if extra is not None:
        ok = ok and extra()
    ctx.ob(key, ok, "%s: /%s/ true -> %s, false -> %s (specification: %s / %s)" % (f.short, cond_re, tab[True], tab[False], want_true, want_false),
           where=f.where())


def _signs(ctx):
    def abs_atom(pname):
        def atom(x):
            s = str(x)
            if s == "self":
                return "self"
            if s == "UnsignedAbs::unsigned_abs(%s)" % pname:
                return "abs"
            return None
        return atom
    n = 0
    f = ctx.fn(r"gmsol_model::num::Unsigned::checked_add_with_signed")
    if f:
        n += 1
        _sign_table(ctx, "sign-dispatch:checked_add_with_signed", f, r"^Signed::is_positive\(other\)$", abs_atom("other"),
                    {"self": 1, "abs": 1}, {"self": 1, "abs": -1})
    f = ctx.fn(r"gmsol_model::num::Unsigned::checked_sub_with_signed")
    if f:
        n += 1
        _sign_table(ctx, "sign-dispatch:checked_sub_with_signed", f, r"^Signed::is_positive\(other\)$", abs_atom("other"),
                    {"self": 1, "abs": -1}, {"self": 1, "abs": 1})
    f = ctx.fn(r"gmsol_model::num::Unsigned::checked_signed_sub")
    if f:
        n += 1

        def atom(x):
            if H.is_call(x, r"^Unsigned::diff$") and sorted(str(a) for a in H.call_args(x)) == ["other", "self"]:
                return "diff"
            return None
        _sign_table(ctx, "sign-dispatch:checked_signed_sub", f, r"^PartialOrd::ge\(self, other\)$|^\(self Ge other\)$", atom,
                    {"diff": 1}, {"diff": -1})
    f = ctx.fn(r"gmsol_model::num::Unsigned::checked_mul_with_signed")
    if f:
        n += 1

        def atom(x):
            if H.is_call(x, r"^CheckedMul::checked_mul$") and sorted(str(a) for a in H.call_args(x)) == ["UnsignedAbs::unsigned_abs(other)", "self"]:
                return "prod"
            return None
        _sign_table(ctx, "sign-dispatch:checked_mul_with_signed", f, r"^Signed::is_negative\(other\)$", atom, {"prod": -1}, {"prod": 1})
    f = ctx.fn(r"gmsol_model::num::MulDiv::checked_mul_div_with_signed_numerator")
    if f:
        n += 1

        def atom(x):
            if H.is_call(x, r"^MulDiv::checked_mul_div$") and [str(a) for a in H.call_args(x)] == ["self", "UnsignedAbs::unsigned_abs(numerator)", "denominator"]:
                return "q"
            return None
        _sign_table(ctx, "sign-dispatch:checked_mul_div_with_signed_numerator", f, r"^Signed::is_positive\(numerator\)$", atom, {"q": 1}, {"q": -1})
    ctx.floor("sign-dispatch", n, 5)


def _single_call(ctx, key, f, callee_re, want_args, unordered_prefix=0, msg=""):
    vps = H.value_paths(f)
    ok = bool(vps)
    found = []
    for p in vps:
        e = H.peel(p.ret)
        if not H.is_call(e, callee_re):
            ok = False
            found.append(str(e))
            continue
        args = [str(a) for a in H.call_args(e)]
        found.append("%s(%s)" % (e.a[0], ", ".join(args)))
        if unordered_prefix:
            ok = ok and sorted(args[:unordered_prefix]) == sorted(want_args[:unordered_prefix]) and args[unordered_prefix:] == want_args[unordered_prefix:]
        else:
            ok = ok and args == want_args
    ctx.ob(key, ok, "%s: %s; found %s" % (f.short, msg, found), where=f.where())


def _fmt_call(e, unordered):
    """`callee(sorted first `unordered` args;remaining args in order)` — factors of a product commute, the divisor does not."""
    if e.k != "call":
        return str(e)
    args = H.call_args(e)
    return "%s(%s;%s)" % (e.a[0], ",".join(sorted(str(a) for a in args[:unordered])), ",".join(str(a) for a in args[unordered:]))


def _utils(ctx):
    n = 0
    f = ctx.fn(r"gmsol_model::utils::apply_factor")
    if f:
        n += 1
        _single_call(ctx, "util-round:apply_factor", f, r"^MulDiv::checked_mul_div$", ["value", "factor", "FixedPointOps::UNIT"], 2,
                     "value*factor/UNIT rounded down")
    f = ctx.fn(r"gmsol_model::utils::market_token_amount_to_usd")
    if f:
        n += 1
        _single_call(ctx, "util-round:market_token_amount_to_usd", f, r"^MulDiv::checked_mul_div$", ["amount", "pool_value", "supply"], 2,
                     "pool_value*amount/supply rounded down")
    f = ctx.fn(r"gmsol_model::utils::div_to_factor_signed")
    if f:
        n += 1
        tab = {}
        for p in H.value_paths(f):
            z = p.holds(r"^Zero::is_zero\(divisor\)$", True)
            tab.setdefault(z, set()).add(_fmt_call(H.peel(p.ret), 2))
        ctx.ob("util-round:div_to_factor_signed", tab == {True: {"Zero::zero(;)"}, False: {"MulDiv::checked_mul_div_with_signed_numerator(FixedPointOps::UNIT,value;divisor)"}},
               "div_to_factor_signed: zero divisor -> 0; else UNIT*value/divisor with signed numerator (floor of magnitude): %s" % {k: sorted(v) for k, v in tab.items()},
               where=f.where())
    f = ctx.fn(r"gmsol_model::utils::div_to_factor")
    if f:
        n += 1
        tab = {}
        for p in H.value_paths(f):
            z = p.holds(r"^Zero::is_zero\(divisor\)$", True)
            r = True if p.holds(r"^round_up_magnitude$", True) else (False if p.holds(r"^round_up_magnitude$", False) else None)
            s = _fmt_call(H.peel(p.ret), 2)
            tab.setdefault((z, r), set()).add(s)
        want = {(True, None): {"Zero::zero(;)"}, (False, True): {"MulDiv::checked_mul_div_ceil(FixedPointOps::UNIT,value;divisor)"},
                (False, False): {"MulDiv::checked_mul_div(FixedPointOps::UNIT,value;divisor)"}}
        ctx.ob("util-round:div_to_factor", tab == want,
               "div_to_factor: zero divisor -> 0; round_up_magnitude=true -> ceil(value*UNIT/divisor); false -> floor: %s" % {str(k): sorted(v) for k, v in tab.items()},
               where=f.where())
    f = ctx.fn(r"gmsol_model::utils::usd_to_market_token_amount")
    if f:
        n += 1
        vps = H.value_paths(f)
        classes, bad = set(), []
        for p in vps:
            e = H.peel(p.ret)
            k = H.prim_class(e.a[0]) if e.k == "call" else None
            classes.add(k)
            if not p.holds(r"^Zero::is_zero\(usd_to_amount_divisor\)$", False):
                bad.append("value path not under usd_to_amount_divisor != 0")
            if e.k == "call" and re.search(r"checked_div$", e.a[0]) and str(H.call_args(e)[1]) != "usd_to_amount_divisor":
                bad.append("checked_div by %s" % H.call_args(e)[1])
            if e.k == "call" and re.search(r"checked_mul_div$", e.a[0]):
                a = [str(x) for x in H.call_args(e)]
                if not (sorted(a[:2]) == ["supply", "usd_value"] and a[2] == "pool_value"):
                    bad.append("mul_div operands %s" % a)
        ctx.ob("util-round:usd_to_market_token_amount", classes == {"floor"} and not bad and len(vps) >= 3,
               "usd_to_market_token_amount: every value path ends in a floor primitive (classes %s, %d paths)%s" % (sorted(map(str, classes)), len(vps),
                                                                                                                   "; " + "; ".join(bad) if bad else ""),
               where=f.where())
        ceil_calls = [c.short for c, k in H.call_prims(f) if k != "floor"]
        ctx.ob("util-round:usd_to_market_token_amount:no-ceil", not ceil_calls, "no ceil/away primitive is called (%s)" % ceil_calls, where=f.where())
    f = ctx.fn(r"<gmsol_model::fixed::Fixed<T, DECIMALS> as num_traits::CheckedMul>::checked_mul")
    if f:
        n += 1
        vps = H.value_paths(f)
        ok = bool(vps)
        found = []
        for p in vps:
            e = H.peel(p.ret)
            if e.k == "agg" and len(e.a[1]) == 1:
                e = H.peel(e.a[1][0][1])
            found.append(str(e))
            ok = ok and H.is_call(e, r"^MulDiv::checked_mul_div$") and sorted(str(a) for a in H.call_args(e)[:2]) == ["self.0", "v.0"] \
                and str(H.call_args(e)[2]) == "Fixed::ONE.0"
        ctx.ob("util-round:Fixed::checked_mul", ok, "Fixed::checked_mul = self.0*v.0/ONE rounded down, None propagated: %s" % found, where=f.where())
    f = ctx.fn(r"gmsol_model::utils::apply_factors")
    if f:
        n += 1
        vps = H.value_paths(f)
        ok = bool(vps)
        for p in vps:
            e = H.peel(p.ret, calls=("Fixed::into_inner", "Option::ok_or"))
            good = H.is_call(e, r"^CheckedMul::checked_mul$")
            if good:
                a0 = H.peel(H.call_args(e)[0], calls=("Option::ok_or",))
                a1 = H.call_args(e)[1]
                good = H.is_call(a0, r"apply_exponent_factor_wrapped$") and [str(x) for x in H.call_args(a0)] == ["value", "exponent_factor"] \
                    and str(a1) == "Fixed::from_inner(factor)"
            ok = ok and good
        kinds = sorted(set(k for _, k, _ in f.exits()))
        ctx.ob("util-round:apply_factors", ok, "apply_factors = checked_mul(pow(value, exponent)?, factor)? (exits %s)" % kinds, where=f.where())
    ctx.floor("util-round", n, 7)


def _pow(ctx, prog):
    n = 0
    for ty in ("u64", "u128"):
        f = ctx.fn(r"<%s as gmsol_model::fixed::FixedPointOps<DECIMALS>>::checked_pow_fixed" % ty)
        if f is None:
            continue
        n += 1
        cond = r"^\(\(exponent Rem FixedPointOps::UNIT\) Eq 0\)$"
        region = H.only_edge_blocks(f, cond, True)
        calls = [c for c in f.calls if c.bb in region]
        allowed = re.compile(r"^(Div::div|One::one|Fixed::from_inner|IntoIterator::into_iter|Iterator::next|CheckedMul::checked_mul|Try::branch|FromResidual::from_residual)$")
        other = sorted(set(c.short for c in calls if not allowed.search(c.short)))
        muls = [c for c in calls if c.short == "CheckedMul::checked_mul"]
        muls_ok = bool(muls) and all(any(str(c.arg_expr(i)) == "Fixed::from_inner(self)" for i in (0, 1)) and
                                     re.search(r"Fixed<.*CheckedMul>::checked_mul|CheckedMul", c.name or "") for c in muls)
        # every checked_mul result is consumed by `?`
        tried = all(any(t.short == "Try::branch" and t.bb == c.target for t in calls) for c in muls)
        bound = [c for c in calls if c.short == "Iterator::next"]
        bound_ok = bool(bound) and all(re.search(r"Range\{start: 0, end: Div::div\(exponent, FixedPointOps::UNIT\)\}", str(c.arg_expr(0))) for c in bound)
        vex = [(bb, e) for bb, e in _value_exits(f) if bb in region]
        val_ok = bool(vex)
        for bb, e in vex:
            inner = H.peel(e)
            alts = inner.alts() if inner.k == "phi" else [inner]
            for a in alts:
                base = a.a[0] if a.k == "field" and a.a[1] == "0" else a
                for b in (base.alts() if base.k == "phi" else [base]):
                    b = H.peel(b)
                    if not (str(b) == "One::one()" or H.is_call(b, r"^CheckedMul::checked_mul$")):
                        val_ok = False
        arith = [s for s in A.arith_sites(f) if s["bb"] in region]
        ctx.ob("pow-int:" + ty, not other and muls_ok and tried and bound_ok and val_ok and not arith,
               "%s checked_pow_fixed, unit-exponent branch: loop 0..exponent/UNIT of checked_mul(acc, self)? starting from ONE; "
               "other calls %s, mul sites %d (all with `?`=%s), bound ok=%s, value ok=%s, raw arithmetic in branch %d" % (
                   ty, other, len(muls), tried, bound_ok, val_ok, len(arith)), where=f.where())
    ctx.floor("pow-int", n, 2)
    f = ctx.fn(r"gmsol_model::fixed::Fixed::<T, DECIMALS>::checked_pow")
    if f:
        vps = H.value_paths(f)
        ok = bool(vps) and all(re.search(r"^Option::Some\{0: Fixed\{0: FixedPointOps::checked_pow_fixed\(self\.0, exponent\.0\)\?\}\}$", str(p.ret)) for p in vps)
        ctx.ob("pow-int:Fixed::checked_pow", ok, "Fixed::checked_pow wraps checked_pow_fixed(self.0, exponent.0)? (base, exponent order)", where=f.where())


# tabled raw sites live in tables/C01.json (function regex, op, operand provenance regexes, one reason each)
_TABLE = json.load(open(os.path.join(os.path.dirname(os.path.dirname(os.path.dirname(os.path.abspath(__file__)))), "tables", "C01.json")))
RAW_TABLE = [(t["fn"], t["op"], t["a"], t["b"], t["reason"]) for t in _TABLE["raw_sites"]]
OP_CALLS = [(t["fn"], t["callee"]) for t in _TABLE["operator_calls"]]


def _stable_key(f):
    """Key of a helper without local numbering: `u64::MulDiv::checked_mul_div`, `Fixed::CheckedMul::checked_mul`, `utils::apply_factor`."""
    m = re.match(r"^<(\w+) as gmsol_model::\w+::(\w+)(?:<[^>]*>)?>::(\w+)$", f.id)
    if m:
        return "%s::%s::%s" % m.groups()
    m = re.match(r"^gmsol_model::num::u128::<impl gmsol_model::num::(\w+) for (\w+)>::(\w+)$", f.id)
    if m:
        return "%s::%s::%s" % (m.group(2), m.group(1), m.group(3))
    m = re.match(r"^<gmsol_model::fixed::Fixed<T, DECIMALS> as (?:\w+::)*(\w+)>::(\w+)$", f.id)
    if m:
        return "Fixed::%s::%s" % m.groups()
    return short_path(f.id, 2)


def _raw(ctx, prog):
    fns = {}
    for pat in HELPERS:
        for f in ctx.fns(pat, floor=1):
            if "{closure" not in f.id:
                fns[f.id] = f
    ctx.floor("raw-arith:helpers", len(fns), HELPER_FLOOR)
    n_sites = 0
    for f in sorted(fns.values(), key=lambda g: g.id):
        is_pow = re.search(r"checked_pow_fixed$", f.id) is not None
        # the non-unit-exponent path of checked_pow_fixed (and its conversion closures) is not decided
        skip_blocks = H.only_edge_blocks(f, r"^\(\(exponent Rem FixedPointOps::UNIT\) Eq 0\)$", False) if is_pow else set()
        bodies = [(f, skip_blocks)] + ([] if is_pow else [(c, set()) for c in prog.closures_of(f)])
        bad = []
        raw = 0
        for g, skip in bodies:
            for s in A.arith_sites(g):
                if s["bb"] in skip:
                    continue
                n_sites += 1
                raw += 1
                hit = [t for t in RAW_TABLE if re.search(t[0], f.id) and t[1] == s["op"] and re.search(t[2], str(s["a"])) and re.search(t[3], str(s["b"]))]
                if not hit:
                    bad.append("%s(%s, %s)" % (s["op"], s["a"], s["b"]))
            for s in A.cast_sites(g):
                if s["bb"] in skip:
                    continue
                if s["narrowing"] or s["sign_change"]:
                    bad.append("cast %s->%s of %s" % (s["from"], s["to"], s["e"]))
            for c in g.calls:
                if c.bb in skip:
                    continue
                last = (c.callee or "").rsplit("::", 1)[-1]
                prim_int = re.search(r"^(u|i)(8|16|32|64|128|size)::", c.short) is not None
                if re.search(r"^(wrapping_|saturating_|overflowing_|unchecked_)|^(unwrap|unwrap_or|unwrap_or_default|unwrap_or_else|expect|pow)$", last):
                    bad.append("call %s" % c.short)
                elif prim_int and last in ("add", "sub", "mul", "div", "rem", "neg", "shl", "shr"):
                    bad.append("call %s" % c.short)
                elif c.short in ("Add::add", "Sub::sub", "Mul::mul", "Neg::neg", "Rem::rem", "Shl::shl", "Shr::shr"):
                    # operator on a non-primitive: only the U256 product of two widened u128 is tabled (shape checked by muldiv-shape)
                    if not any(re.search(fr, f.id) and c.short == cal for fr, cal in OP_CALLS):
                        bad.append("operator call %s" % c.short)
        ctx.ob("raw-arith:" + _stable_key(f), not bad,
               "%s: %s" % (_stable_key(f), "only tabled unchecked operations (%d raw site(s))" % raw if not bad else "UNTABLED unchecked operation(s): %s" % bad),
               where=f.where(), nontrivial=bool(raw) or bool(bad))
    ctx.floor("raw-arith:tabled-sites", n_sites, 5)
