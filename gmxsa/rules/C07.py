"""C07 Open interest and collateral totals always match the open positions.

Decided (the per-operation bookkeeping the history invariant needs; structural, necessary):
 * on every success path of IncreasePosition::execute and of the keep-arm of DecreasePosition::execute the value
   stored into the position's size_in_usd / size_in_tokens minus the value read before equals, as a linear form over
   opaque atoms, the delta passed to update_open_interest (same atoms, same sign);
 * the remove-arm of DecreasePosition::execute zeroes size_in_usd, size_in_tokens and collateral_amount together, is
   taken exactly when `is_zero(old_usd - delta_usd) || is_zero(old_tokens - delta_tokens)` for the very deltas given to
   update_open_interest, and `should_remove` reported to DecreasePositionReport::new is true exactly on those paths;
 * collateral: the delta applied to collateral_sum_pool equals the change of the position's collateral_amount
   (increase: the same atom; decrease: new - initial, read before process_collateral / after the stores), with
   pool = collateral_sum_pool_mut(is_long) and side = is_collateral_token_long;
 * update_open_interest / apply_delta_to_open_interest / PoolExt::apply_delta_amount select pool by is_long and side by
   the collateral flag (true -> long amount), and apply both the usd and the token delta on every non-trivial path;
 * the promotion chain that keeps a partial close from zeroing the tokens: check_partial_close()? precedes
   process_collateral, nothing else writes self.size_delta_usd, is_remaining_size_too_small compares size_in_tokens with
   size_delta_in_tokens(self.size_delta_usd), the promotion store is guarded by it, and process_collateral obtains its
   size_delta_in_tokens from the same helper with the same argument; a full close removes exactly size_in_tokens;
 * who-may-write: only the two execute functions (+ initialize_position_if_empty, forwarding impls) obtain the
   position's size/collateral `*_mut` accessors inside gmsol_model.
"""
import json
import os
import re

from .. import analyses as A
from .. import h_B as H
from ..model import short_path

POS = r"self\.position"
FIELDS = ("size_in_usd", "size_in_tokens", "collateral_amount")
_T = json.load(open(os.path.join(os.path.dirname(os.path.dirname(os.path.dirname(os.path.abspath(__file__)))), "tables", "C07.json")))
WRITERS_OK = tuple(w["fn"] for w in _T["writers"])


def run(ctx):
    prog = ctx.prog(["gmsol_model"])
    ctx.explanation = (
        "Per-operation bookkeeping of open interest and collateral sums, on every success path of the two position "
        "actions (path-sensitive value provenance, values as integer linear forms over opaque atoms): position size "
        "change == delta given to update_open_interest; the remove arm zeroes all three position amounts and is guarded "
        "by the zero test of exactly (old - delta); collateral_sum_pool delta == change of the position's collateral; "
        "pool/side selectors follow is_long / is_collateral_token_long; the partial-close promotion chain is intact; "
        "only the enumerated functions can write the position's sizes.")
    ctx.not_decided = (
        "The sum invariant over histories itself. That a non-full close never zeroes the tokens while usd remains "
        "(value-dependent: follows from the promotion chain whose links are checked, plus arithmetic of mul_div). "
        "That update_open_interest's early return on a zero usd delta coincides with a zero token delta in a decrease "
        "(value-dependent; shown for increase). Writers of the position state outside gmsol_model (store program: C21).")
    for rid, txt in (
            ("inc-oi-delta", "IncreasePosition::execute: stored size - old size == delta passed to update_open_interest (usd and tokens)"),
            ("dec-oi-delta", "DecreasePosition::execute keep-arm: stored size - old size == delta passed to update_open_interest"),
            ("dec-remove", "remove-arm zeroes usd, tokens and collateral; guarded by is_zero(old-delta) of the OI deltas; reported flag agrees"),
            ("collateral-delta", "collateral_sum_pool delta == change of position collateral; pool by is_long, side by is_collateral_token_long"),
            ("oi-apply", "update_open_interest/apply_delta_to_open_interest/apply_delta_amount: pool by is_long, long amount iff collateral flag"),
            ("oi-zero-usd", "increase: a zero usd delta comes with a zero token delta (update_open_interest returns early on zero usd)"),
            ("partial-close", "promotion chain: check_partial_close before process_collateral; same size_delta_in_tokens helper and argument"),
            ("size-writers", "only the enumerated functions call size_in_usd_mut/size_in_tokens_mut/collateral_amount_mut in gmsol_model")):
        ctx.rule(rid, txt)
    inc = ctx.fn(r"IncreasePosition<P, DECIMALS> as gmsol_model::action::MarketAction>::execute")
    dec = ctx.fn(r"DecreasePosition<P, DECIMALS> as gmsol_model::action::MarketAction>::execute")
    if inc is not None:
        _increase(ctx, prog, inc)
    if dec is not None:
        _decrease(ctx, prog, dec)
    _oi_apply(ctx, prog)
    _partial_close(ctx, prog, dec)
    _writers(ctx, prog)
    if dec is not None:
        # the decrease's size / withdrawal amounts may be promoted or capped by check_partial_close / check_close: the open
        # interest and size bookkeeping must use the values behind those calls (added after the independent seed C07-2)
        from .. import stale
        stale.rule(ctx, prog, "fresh-read", dec, ["size_delta_usd", "withdrawable_collateral_amount"], 3)


# ------------------------------------------------------------------------------------------------ helpers

def _field_of_dest(d):
    m = re.match(r"^PositionStateMut::(size_in_usd|size_in_tokens|collateral_amount)_mut\(%s\)$" % POS, str(d))
    return m.group(1) if m else None


def _path_model(fn, p):
    """stores to the three position fields on the path + an atom namer labelling reads @old / @new."""
    st = {f: [] for f in FIELDS}
    for s in H.stores_on_path(fn, p, r"^PositionStateMut::\w+_mut\(%s\)$" % POS):
        f = _field_of_dest(s["dest"])
        if f:
            st[f].append(s)
    ev = p["ev"]

    def namer(x):
        if x.k != "call" or len(x.a) < 3 or x.a[2] is None:
            return None
        m = re.match(r"^PositionState(?:Mut)?::(size_in_usd|size_in_tokens|collateral_amount)(?:_mut)?$", x.a[0])
        if not m or str(x.a[1][0]) != "self.position":
            return None
        f = m.group(1)
        pos = ev.pos.get(x.a[2].bb)
        if pos is None:
            return None
        sp = [s["pos"] for s in st[f]]
        if not sp or pos < min(sp):
            return f + "@old"
        if pos >= max(sp):
            return f + "@new"
        return f + "@mid"
    return st, namer


def _one_call(p, regex):
    cs = H.path_calls(p, regex)
    return cs[0] if len(cs) == 1 else None


def _is_zero_value(e):
    return e.k == "call" and e.a[0] == "Zero::zero" and not e.a[1]


# ------------------------------------------------------------------------------------------------ increase

def _increase(ctx, prog, inc):
    paths = H.success_paths(inc)
    ctx.floor("inc:success-paths", len(paths), 4)
    agg = {"usd": [], "tokens": [], "coll": [], "pool": []}
    n = 0
    for p in paths:
        st, namer = _path_model(inc, p)
        lin = lambda x: H.lin_of(x, namer)
        oi = _one_call(p, r"PositionMutExt::update_open_interest$")
        if oi is None:
            agg["usd"].append("a success path does not call update_open_interest exactly once")
            continue
        a = p["ev"].call_args(oi)
        if str(a[0]) != "self.position":
            agg["usd"].append("update_open_interest is applied to %s" % a[0])
        for key, f, arg in (("usd", "size_in_usd", a[1]), ("tokens", "size_in_tokens", a[2])):
            ss = st[f]
            if len(ss) != 1:
                agg[key].append("%d stores to %s on a success path" % (len(ss), f))
                continue
            change = lin(ss[0]["value"]).add(H.Lin({f + "@old": 1}), -1)
            if change != lin(arg) or not change:
                agg[key].append("stored-old = %s but open-interest delta = %s" % (change.show(), lin(arg).show()))
            else:
                agg.setdefault(key + "_ok", set()).add(change.show())
        # collateral: position change vs delta applied to collateral_sum_pool (private helpers expanded / inlined alike)
        cs = st["collateral_amount"]
        evs = H.events(inc, p)
        eff = [e for e in H.pool_effects(inc, p) if e["pool"] == "collateral_sum"]
        if len(cs) != 1:
            agg["coll"].append("%d stores to collateral_amount on a success path" % len(cs))
        elif len(eff) != 1:
            agg["pool"].append("%d collateral_sum_pool applications on a success path" % len(eff))
        else:
            change = H.lin_of(H.inline_helper_values(cs[0]["value"], evs), namer).add(H.Lin({"collateral_amount@old": 1}), -1)
            pd = H.lin_of(eff[0]["amount"], namer)
            if not change or "collateral_amount@old" in change:
                agg["coll"].append("stored-old = %s" % change.show())
            elif change != pd:
                agg["pool"].append("collateral_sum delta %s != change of the position's collateral %s" % (pd.show()[:160], change.show()[:160]))
            else:
                agg.setdefault("coll_ok", set()).add(change.show()[:200])
            recv = str(eff[0].get("recv"))
            if not re.match(r"^PerpMarketMut::collateral_sum_pool_mut\(PositionMut::market_mut\(self\.position\), Position::is_long\(self\.position\)\)\?$", recv):
                agg["pool"].append("pool = %s" % recv[:120])
            if str(eff[0]["side"]) != "Position::is_collateral_token_long(self.position)":
                agg["pool"].append("side = %s" % eff[0]["side"])
        n += 1
    unc = H.uncovered_stores(inc, paths, r"PositionStateMut::(size_in_usd|size_in_tokens|collateral_amount)_mut\(self\.position\)$")
    if unc:
        agg["usd"].append("%d store(s) into the position's sizes lie on no analysed success path" % len(unc))
    ctx.ob("inc-oi-delta:size_in_usd", not agg["usd"] and n > 0,
           "on %d success paths: size_in_usd stored - old == update_open_interest arg 1 == %s%s" % (
               n, sorted(agg.get("usd_ok", [])), "; MISMATCH: %s" % agg["usd"][:2] if agg["usd"] else ""), where=inc.where())
    ctx.ob("inc-oi-delta:size_in_tokens", not agg["tokens"] and n > 0,
           "on %d success paths: size_in_tokens stored - old == update_open_interest arg 2 == %s%s" % (
               n, sorted(agg.get("tokens_ok", [])), "; MISMATCH: %s" % agg["tokens"][:2] if agg["tokens"] else ""), where=inc.where())
    ctx.ob("collateral-delta:increase:position", not agg["coll"] and n > 0,
           "on %d success paths the position's collateral_amount is stored once, as old + a non-trivial delta: %s%s" % (
               n, sorted(agg.get("coll_ok", []))[:2], "; MISMATCH: %s" % agg["coll"][:2] if agg["coll"] else ""), where=inc.where())
    ctx.ob("collateral-delta:increase:pool", not agg["pool"] and not agg["coll"] and n > 0,
           "on %d success paths collateral_sum_pool_mut(is_long)[is_collateral_token_long] gets exactly the change of the position's collateral "
           "(same linear form; private helpers expanded)%s" % (n, "; MISMATCH %s" % sorted(set(agg["pool"]))[:2] if agg["pool"] else ""), where=inc.where())
    # zero usd delta -> zero token delta
    ge = ctx.fn(r"IncreasePosition::<P, DECIMALS>::get_execution_params")
    if ge is not None:
        ps = H.success_paths(ge)
        zp = [p for p in ps if H.path_truth(p, r"^Zero::is_zero\(self\.params\.size_delta_usd\)$") is True]
        good = bool(zp)
        for p in zp:
            try:
                ex = dict(dict(dict(p["ret"].a[1])["0"].a[1])["execution"].a[1])
                good = good and _is_zero_value(ex["size_delta_in_tokens"])
            except Exception:
                good = False
        ctx.ob("oi-zero-usd:increase", good, "get_execution_params returns size_delta_in_tokens = 0 on its %d path(s) with a zero size_delta_usd "
               "(of %d success paths)" % (len(zp), len(ps)), where=ge.where())


def _pc_namer(x):
    m = x
    proj = ""
    while m.k in ("try", "field"):
        if m.k == "field":
            proj = "." + m.a[1] + proj
        m = m.a[0]
    if m.k == "call" and m.a[0].endswith("::process_collateral"):
        return "process_collateral" + proj
    return None


# ------------------------------------------------------------------------------------------------ decrease

def _decrease(ctx, prog, dec):
    paths = H.success_paths(dec)
    ctx.floor("dec:success-paths", len(paths), 20)
    keep = {"n": 0, "bad_usd": [], "bad_tok": [], "ok": set()}
    rem = {"n": 0, "bad": [], "guards": set()}
    coll = {"n": 0, "bad": [], "ok": set()}
    rep_bad = []
    shape_bad = []
    seen_store_blocks = set()
    for p in paths:
        ev = p["ev"]
        st, namer0 = _path_model(dec, p)
        namer = lambda x: namer0(x) or _pc_namer(x)
        lin = lambda x: H.lin_of(x, namer)
        for f in FIELDS:
            for s in st[f]:
                seen_store_blocks.add(s["bb"])
        oi = _one_call(p, r"PositionMutExt::update_open_interest$")
        if oi is None:
            keep["bad_usd"].append("a success path does not call update_open_interest exactly once")
            continue
        a = ev.call_args(oi)
        d_usd, d_tok = lin(a[1]), lin(a[2])
        if any(len(st[f]) != 1 for f in FIELDS):
            shape_bad.append("stores per field on a success path: %s" % {f: len(st[f]) for f in FIELDS})
            continue
        zero = {f: _is_zero_value(st[f][0]["value"]) for f in FIELDS}
        removing = zero["size_in_usd"] or zero["size_in_tokens"]
        # reported flag
        rn = _one_call(p, r"DecreasePositionReport::<\w+, \w+>::new$|DecreasePositionReport::.*::new$")
        flag = None
        if rn is not None:
            fe = ev.call_args(rn)[4]
            cb = A.const_bool(fe)
            if cb is not None:
                flag = cb
            else:
                for cond, lab, ty in p["conds"]:
                    if ty == "bool" and str(cond) == str(fe):
                        flag = isinstance(lab, tuple) or lab != 0
        if flag is None or flag != removing:
            rep_bad.append("should_remove reported %s on a path that %s the sizes" % (flag, "zeroes" if removing else "keeps"))
        if removing:
            rem["n"] += 1
            if not all(zero.values()):
                rem["bad"].append("remove arm does not zero all of usd/tokens/collateral: %s" % zero)
            # guard: is_zero(x) true with x == old + delta (delta is negative)
            want = {(H.Lin({"size_in_usd@old": 1}).add(d_usd)).show(): "usd", (H.Lin({"size_in_tokens@old": 1}).add(d_tok)).show(): "tokens"}
            hit = None
            for cond, lab, ty in p["conds"]:
                if ty == "bool" and cond.k == "call" and cond.a[0] == "Zero::is_zero" and (isinstance(lab, tuple) or lab != 0):
                    l = lin(cond.a[1][0]).show()
                    if l in want and len(d_usd) == 1 and len(d_tok) == 1:
                        hit = want[l]
            if hit is None:
                rem["bad"].append("remove arm not under is_zero(old_usd+(%s)) / is_zero(old_tokens+(%s))" % (d_usd.show(), d_tok.show()))
            else:
                rem["guards"].add(hit)
        else:
            keep["n"] += 1
            for key, f, d in (("bad_usd", "size_in_usd", d_usd), ("bad_tok", "size_in_tokens", d_tok)):
                change = lin(st[f][0]["value"]).add(H.Lin({f + "@old": 1}), -1)
                if change != d or not change:
                    keep[key].append("stored-old = %s but open-interest delta = %s" % (change.show(), d.show()))
                else:
                    keep["ok"].add("%s: %s" % (f, change.show()))
        # collateral sum pool
        calls = [c for c in H.path_calls(p, r"PoolExt::apply_delta_amount$")
                 if re.search(r"collateral_sum_pool_mut\(", str(ev.call_args(c)[0]))]
        if len(calls) != 1:
            coll["bad"].append("%d collateral_sum_pool applications on a success path" % len(calls))
            continue
        ca = ev.call_args(calls[0])
        coll["n"] += 1
        if not re.match(r"^PerpMarketMut::collateral_sum_pool_mut\(PositionMut::market_mut\(self\.position\), Position::is_long\(self\.position\)\)\?$", str(ca[0])):
            coll["bad"].append("pool = %s" % str(ca[0])[:120])
        if str(ca[1]) != "Position::is_collateral_token_long(self.position)":
            coll["bad"].append("side = %s" % ca[1])
        l = lin(ca[2])
        if l != H.Lin({"collateral_amount@new": 1, "collateral_amount@old": -1}):
            coll["bad"].append("pool delta = %s (expected +collateral_amount@new -collateral_amount@old)" % l.show())
        else:
            coll["ok"].add(l.show())
        # the @old read must precede process_collateral
        pc = _one_call(p, r"DecreasePosition::<P, DECIMALS>::process_collateral$")
        olds = [x for x in ca[2].walk() if x.k == "call" and namer0(x) == "collateral_amount@old"]
        if pc is None or not olds or any(ev.pos[x.a[2].bb] > ev.pos[pc.bb] for x in olds):
            coll["bad"].append("initial collateral is not read before process_collateral")
    ctx.ob("dec-remove:one-store-per-field", not shape_bad,
           "every success path stores exactly once into each of size_in_usd / size_in_tokens / collateral_amount%s" % (
               "; MISMATCH: %s" % shape_bad[:2] if shape_bad else ""), where=dec.where())
    ctx.ob("dec-oi-delta:size_in_usd", not keep["bad_usd"] and keep["n"] > 0,
           "keep-arm, %d success paths: size_in_usd stored - old == update_open_interest arg 1%s" % (
               keep["n"], "; MISMATCH: %s" % keep["bad_usd"][:2] if keep["bad_usd"] else ""), where=dec.where(), detail=sorted(keep["ok"]))
    ctx.ob("dec-oi-delta:size_in_tokens", not keep["bad_tok"] and keep["n"] > 0,
           "keep-arm, %d success paths: size_in_tokens stored - old == update_open_interest arg 2%s" % (
               keep["n"], "; MISMATCH: %s" % keep["bad_tok"][:2] if keep["bad_tok"] else ""), where=dec.where(), detail=sorted(keep["ok"]))
    ctx.ob("dec-remove:zero-all-guarded", not rem["bad"] and rem["n"] > 0 and rem["guards"] == {"usd", "tokens"},
           "remove-arm, %d success paths: usd, tokens and collateral are all set to zero, under is_zero(old - delta) of the "
           "open-interest deltas (guards seen: %s)%s" % (rem["n"], sorted(rem["guards"]), "; MISMATCH: %s" % rem["bad"][:2] if rem["bad"] else ""),
           where=dec.where())
    ctx.ob("dec-remove:reported-flag", not rep_bad, "should_remove given to DecreasePositionReport::new is true exactly on the zeroing paths%s" % (
        "; MISMATCH: %s" % rep_bad[:2] if rep_bad else ""), where=dec.where())
    ctx.ob("collateral-delta:decrease", not coll["bad"] and coll["n"] > 0,
           "on %d success paths collateral_sum_pool_mut(is_long)[is_collateral_token_long] gets (collateral after the stores) - "
           "(collateral read before process_collateral)%s" % (coll["n"], "; MISMATCH: %s" % coll["bad"][:2] if coll["bad"] else ""),
           where=dec.where(), detail=sorted(coll["ok"]))
    # every store site (flow-insensitive) was seen on some success path
    allst = set(w["bb"] for w in A.field_writes(dec, r"PositionStateMut::(size_in_usd|size_in_tokens|collateral_amount)_mut\(self\.position\)$")
                if w["kind"] == "assign" and not dec.blocks[w["bb"]].get("cleanup"))
    ctx.ob("dec-oi-delta:all-stores-covered", allst <= seen_store_blocks and len(allst) >= 6,
           "all %d store sites into the position's usd/tokens/collateral lie on analysed success paths" % len(allst), where=dec.where())


# ------------------------------------------------------------------------------------------------ selectors

def _side_table(ctx, key, fn, flag_re, recv_re, delta_re, pool_desc):
    """Under flag true -> apply_delta_to_long_amount(recv, delta), false -> ..short..; found on every non-early success path."""
    ps = H.success_paths(fn)
    tab = {}
    bad = []
    for p in ps:
        ev = p["ev"]
        t = H.path_truth(p, flag_re)
        cs = [c for c in p["calls"] if c.short in ("Pool::apply_delta_to_long_amount", "Pool::apply_delta_to_short_amount")
              and re.search(recv_re, str(ev.call_args(c)[0]))]
        if t is None:
            if cs:
                bad.append("application without a branch on the side flag")
            continue
        if len(cs) != 1:
            bad.append("%d applications on a path with flag=%s" % (len(cs), t))
            continue
        a = ev.call_args(cs[0])
        if not re.search(delta_re, str(a[1])):
            bad.append("delta = %s" % str(a[1])[:80])
        tab.setdefault(t, set()).add(cs[0].short.split("_to_")[1])
    good = not bad and tab == {True: {"long_amount"}, False: {"short_amount"}}
    ctx.ob(key, good, "%s: %s -> %s%s" % (fn.short, pool_desc, {k: sorted(v) for k, v in tab.items()}, "; %s" % bad[:2] if bad else ""), where=fn.where())
    return ps


def _oi_apply(ctx, prog):
    uoi = ctx.fn(r"gmsol_model::position::PositionMutExt::update_open_interest")
    if uoi is not None:
        ps = _side_table(ctx, "oi-apply:update_open_interest:tokens-side", uoi, r"^Position::is_collateral_token_long\(self\)$",
                         r"^PerpMarketMut::open_interest_in_tokens_pool_mut\(PositionMut::market_mut\(self\), Position::is_long\(self\)\)\?$",
                         r"^size_delta_in_tokens$", "open_interest_in_tokens_pool_mut(is_long) by is_collateral_token_long")
        bad = []
        n = 0
        for p in ps:
            early = H.path_truth(p, r"^Zero::is_zero\(size_delta_usd\)$")
            cs = H.path_calls(p, r"PerpMarketMutExt::apply_delta_to_open_interest$")
            if early:
                if cs:
                    bad.append("early-return path applies a delta")
                continue
            n += 1
            if len(cs) != 1:
                bad.append("%d usd applications" % len(cs))
                continue
            a = [str(x) for x in p["ev"].call_args(cs[0])]
            if a != ["PositionMut::market_mut(self)", "Position::is_long(self)", "Position::is_collateral_token_long(self)", "size_delta_usd"]:
                bad.append("args %s" % a)
        ctx.ob("oi-apply:update_open_interest:usd", not bad and n >= 2,
               "update_open_interest calls apply_delta_to_open_interest(market, is_long, is_collateral_token_long, size_delta_usd) on all %d "
               "non-early success paths%s" % (n, "; %s" % bad[:2] if bad else ""), where=uoi.where())
    ad = ctx.fn(r"gmsol_model::market::perp::PerpMarketMutExt::apply_delta_to_open_interest")
    if ad is not None:
        _side_table(ctx, "oi-apply:apply_delta_to_open_interest", ad, r"^is_long_collateral$",
                    r"^PerpMarketMut::open_interest_pool_mut\(self, is_long\)\?$", r"^delta$", "open_interest_pool_mut(is_long) by is_long_collateral")
    pa = ctx.fn(r"gmsol_model::pool::PoolExt::apply_delta_amount")
    if pa is not None:
        ps = H.success_paths(pa, kinds=("ok", "unknown"))
        tab = {}
        for p in ps:
            tab[H.path_truth(p, r"^is_long$")] = str(p["ret"])
        ctx.ob("oi-apply:PoolExt::apply_delta_amount", tab == {True: "Pool::apply_delta_to_long_amount(self, delta)",
                                                               False: "Pool::apply_delta_to_short_amount(self, delta)"},
               "apply_delta_amount: %s" % tab, where=pa.where())


# ------------------------------------------------------------------------------------------------ partial close chain

def _partial_close(ctx, prog, dec):
    if dec is None:
        return
    from .. import anchor
    cpc = dec.calls_to(r"DecreasePosition::<P, DECIMALS>::check_partial_close$")
    pcs = dec.calls_to(r"DecreasePosition::<P, DECIMALS>::process_collateral$")
    ok = len(cpc) == 1 and len(pcs) == 1
    why = "check_partial_close x%d, process_collateral x%d" % (len(cpc), len(pcs))
    if ok:
        ts = anchor.try_switch_of(dec, cpc[0])
        ok = ts is not None and dec.dominates(ts[1], pcs[0].bb)
        why = "check_partial_close()? Ok edge dominates process_collateral: %s" % ok
    ctx.ob("partial-close:order", ok, why, where=dec.where())
    # who writes self.size_delta_usd
    writers = []
    for f in prog.find_fns(r"gmsol_model::action::decrease_position::(<.*>|DecreasePosition::<P, DECIMALS>)::\w+"):
        ws = [w for w in A.field_writes(f, r"^self\.size_delta_usd$") if not f.blocks[w["bb"]].get("cleanup")]
        if ws:
            writers.append(f.short)
    ctx.ob("partial-close:size_delta_usd-writers", sorted(set(writers)) == ["DecreasePosition::check_partial_close"],
           "self.size_delta_usd is written (after construction) only by %s" % sorted(set(writers)), where=dec.where())
    small = ctx.fn(r"DecreasePosition::<P, DECIMALS>::is_remaining_size_too_small")
    if small is not None:
        exits = [(k, str(e)) for _, k, e in small.exits() if k == "ok"]
        want = "Result::Ok{0: PartialOrd::le(PositionState::size_in_tokens(self.position), PositionExt::size_delta_in_tokens(self.position, self.size_delta_usd)?)}"
        ctx.ob("partial-close:too-small-tokens", any(e == want for _, e in exits) and len(exits) == 2,
               "is_remaining_size_too_small returns size_in_tokens <= size_delta_in_tokens(self.size_delta_usd) when the usd remainder is large enough "
               "(ok exits: %s)" % [e[:90] for _, e in exits], where=small.where())
    cp = ctx.fn(r"DecreasePosition::<P, DECIMALS>::check_partial_close")
    if cp is not None:
        ws = [w for w in A.field_writes(cp, r"^self\.size_delta_usd$") if w["kind"] == "assign" and not cp.blocks[w["bb"]].get("cleanup")]
        hit = []
        for w in ws:
            gs = [(str(c), t) for c, t in cp.bool_guards(w["bb"])]
            if any(re.match(r"^DecreasePosition::is_remaining_size_too_small\(self, .*\)\?$", c) and t for c, t in gs):
                allowed = all(re.match(r"^DecreasePosition::(is_remaining_size_too_small|will_size_remain)\(", c) or
                              re.match(r"^PartialOrd::gt\(PositionState::size_in_usd\(self\.position\), self\.size_delta_usd\)$", c) for c, t in gs)
                val_ok = str(w["rv"]) == "PositionState::size_in_usd(self.position)"
                hit.append((allowed, val_ok, gs))
        ctx.ob("partial-close:promotion", len(hit) == 1 and hit[0][0] and hit[0][1],
               "check_partial_close sets size_delta_usd := size_in_usd under is_remaining_size_too_small(..)? (and only will_size_remain / "
               "size_in_usd > size_delta_usd besides): %s" % ([(a, b) for a, b, _ in hit]), where=cp.where(),
               detail=[g for _, _, g in hit][:1])
    pv = ctx.fn(r"gmsol_model::position::PositionExt::pnl_value")
    if pv is not None:
        ps = H.success_paths(pv)
        vals = set()
        for p in ps:
            try:
                vals.add(str(dict(dict(p["ret"].a[1])["0"].a[1])["2"]))
            except Exception:
                vals.add("?")
        ctx.ob("partial-close:pnl_value-tokens", vals == {"PositionExt::size_delta_in_tokens(self, size_delta_usd)?"} and len(ps) >= 2,
               "pnl_value(.., size_delta_usd).2 is size_delta_in_tokens(self, size_delta_usd) on all %d success paths: %s" % (len(ps), sorted(vals)),
               where=pv.where())
    pcf = ctx.fn(r"DecreasePosition::<P, DECIMALS>::process_collateral")
    if pcf is not None:
        ps = H.success_paths(pcf)
        vals = set()
        for p in ps:
            try:
                vals.add(str(dict(dict(p["ret"].a[1])["0"].a[1])["size_delta_in_tokens"]))
            except Exception:
                vals.add("?")
        ctx.ob("partial-close:process_collateral-tokens",
               vals == {"PositionExt::pnl_value(self.position, self.params.prices, self.size_delta_usd)?.2"} and len(ps) >= 1,
               "process_collateral reports size_delta_in_tokens = pnl_value(position, prices, self.size_delta_usd).2 on all %d success paths: %s" % (
                   len(ps), sorted(vals)), where=pcf.where())
        ctx.floor("partial-close:process_collateral-paths", len(ps), 4)
    sd = ctx.fn(r"gmsol_model::position::PositionExt::size_delta_in_tokens")
    if sd is not None:
        ps = H.success_paths(sd)
        full = [p for p in ps if H.path_truth(p, r"^PartialEq::eq\(PositionState::size_in_usd\(self\), size_delta_usd\)$") is True]
        vals = set(str(dict(p["ret"].a[1])["0"]) for p in full)
        ctx.ob("partial-close:full-close-tokens", vals == {"PositionState::size_in_tokens(self)"} and len(full) >= 1,
               "size_delta_in_tokens returns size_in_tokens when size_delta_usd == size_in_usd (%d path(s)): %s" % (len(full), sorted(vals)), where=sd.where())
    ini = ctx.fn(r"IncreasePosition::<P, DECIMALS>::initialize_position_if_empty")
    if ini is not None:
        ws = [w for w in A.field_writes(ini, r"PositionStateMut::size_in_tokens_mut\(self\.position\)$") if w["kind"] == "assign" and not ini.blocks[w["bb"]].get("cleanup")]
        good = len(ws) == 1 and str(ws[0]["rv"]) == "Zero::zero()" and \
            any(str(c) == "Zero::is_zero(PositionState::size_in_usd(self.position))" and t for c, t in ini.bool_guards(ws[0]["bb"]))
        ctx.ob("size-writers:initialize_position_if_empty", good,
               "initialize_position_if_empty only resets size_in_tokens to zero, and only when size_in_usd is zero", where=ini.where())


def _writers(ctx, prog):
    n = 0
    for f in FIELDS:
        cs = prog.callers_of("gmsol_model::position::PositionStateMut::%s_mut" % f)
        fns = sorted(set(c.fn.id for c in cs if c.fn.crate == "gmsol_model"))
        bad = [x for x in fns if not any(re.search(w, x) for w in WRITERS_OK)]
        n += len(fns)
        ctx.ob("size-writers:" + f, not bad and len(fns) >= 3,
               "%s_mut is obtained only in %s%s" % (f, [short_path(x) for x in fns], "; UNEXPECTED %s" % bad if bad else ""), where="crates/model/src/position.rs")
    ctx.floor("size-writers", n, 10)
