"""C14 Position impact distribution respects the pool floor.

Decided (structural; values as linear forms over the opaque atoms CUR = position_impact_pool_amount(),
MIN = params.min_position_impact_pool_amount(), RATE = apply_factor(duration, params.distribute_factor())):
 * pending_position_impact_pool_distribution_amount, on each of its success paths:
     - early return (0, CUR) exactly under `distribute_factor == 0` or `CUR <= MIN`;
     - otherwise CUR > MIN holds (false edge of that test) and the result is (d, CUR - d) with either
         d = RATE   under the false edge of `RATE > CUR - MIN`   (so d <= CUR - MIN), or
         d = CUR - MIN under its true edge;
   hence next = CUR - d on every path (never increases; d is unsigned) and d <= CUR - MIN (never below the floor);
 * RATE is apply_factor(from_u64(duration_in_secs), distribute_factor) — rate times elapsed seconds;
 * DistributePositionImpact::execute applies to_opposite_signed() of exactly that d to the position impact pool when
   d != 0 and nothing otherwise, for duration = just_passed_in_seconds_for_position_impact_distribution();
 * the pool amount is read from and the delta applied to the same (long) side of the position impact pool.
"""
import re

from .. import analyses as A
from .. import h_B as H
from .. import anchor
from ..model import short_path

CUR = "PositionImpactMarketExt::position_impact_pool_amount(self)?"
PARAMS = "PositionImpactMarket::position_impact_distribution_params(self)?"
MIN = "PositionImpactDistributionParams::min_position_impact_pool_amount(%s)" % PARAMS
FACTOR = "PositionImpactDistributionParams::distribute_factor(%s)" % PARAMS


def _namer(x):
    s = str(x)
    if s == CUR or s == CUR[:-1]:
        return "CUR"
    if s == MIN:
        return "MIN"
    m = x
    while m.k == "try":
        m = m.a[0]
    if m.k == "call" and m.a[0] == "Option::ok_or":
        m = m.a[1][0]
    if m.k == "call" and m.a[0] == "utils::apply_factor":
        a0, a1 = str(m.a[1][0]), str(m.a[1][1])
        if a1 == FACTOR and re.match(r"^Option::ok_or\(FromPrimitive::from_u64\(duration_in_secs\), .*\)\?$", a0):
            return "RATE"
    return None


def _lin(e):
    return H.lin_of(e, _namer)


def run(ctx):
    prog = ctx.prog(["gmsol_model"])
    ctx.explanation = (
        "Every success path of pending_position_impact_pool_distribution_amount is enumerated; amounts are evaluated as "
        "integer linear forms over CUR, MIN and RATE and combined with the comparison taken on the path: the early return is "
        "(0, CUR) under factor==0 or CUR<=MIN; otherwise CUR>MIN and (d, CUR-d) with d=RATE under RATE<=CUR-MIN or d=CUR-MIN. "
        "So next = CUR - d and 0 <= d <= CUR - MIN on every path, i.e. the pool never grows and never drops below the floor "
        "if it started above it. DistributePositionImpact::execute applies exactly -d to the same side of the pool.")
    ctx.not_decided = (
        "That the position impact pool is a two-sided (impure) pool whose long side is independent (C15/C17 tables); overflow of "
        "apply_factor; behaviour over repeated distributions follows by induction from the single-step facts and is not "
        "separately analysed.")
    for rid, txt in (
            ("early-return", "returns (0, CUR) exactly under distribute_factor==0 or CUR<=MIN"),
            ("capped", "otherwise (d, CUR-d) with d=RATE under not(RATE > CUR-MIN), or d=CUR-MIN; CUR>MIN holds"),
            ("rate", "RATE = apply_factor(from_u64(duration_in_secs), params.distribute_factor())"),
            ("apply", "execute applies to_opposite_signed(d) iff d != 0, with the just-passed duration; reports (d, next)"),
            ("same-side", "pool amount read and delta applied on the same side of position_impact_pool")):
        ctx.rule(rid, txt)
    f = ctx.fn(r"PositionImpactMarketExt::pending_position_impact_pool_distribution_amount")
    if f is not None:
        _pending(ctx, f)
    _execute(ctx, prog)


def _tb(lab):
    return isinstance(lab, tuple) or lab != 0


def _pending(ctx, f):
    ps = H.success_paths(f)
    ctx.floor("pending:paths", len(ps), 4)
    early, capped, uncapped = [], [], []
    bad = []
    for p in ps:
        t = dict(dict(p["ret"].a[1])["0"].a[1])
        d, nxt = _lin(t["0"]), _lin(t["1"])
        conds = [(c, _tb(l)) for c, l, ty in p["conds"] if ty == "bool"]
        fz = [tr for c, tr in conds if str(c) == "Zero::is_zero(%s)" % FACTOR]
        # `CUR <= MIN` (or the equivalent-for-the-property `CUR < MIN`: at CUR == MIN the cap is zero)
        le = [tr for c, tr in conds if c.k == "call" and c.a[0] in ("PartialOrd::le", "PartialOrd::lt") and _lin(c.a[1][0]) == H.Lin({"CUR": 1}) and _lin(c.a[1][1]) == H.Lin({"MIN": 1})]
        gt = [(c, tr) for c, tr in conds if c.k == "call" and c.a[0] == "PartialOrd::gt"]
        other = [str(c)[:80] for c, tr in conds if not (str(c) == "Zero::is_zero(%s)" % FACTOR or (c.k == "call" and c.a[0] == "PartialOrd::gt") or
                                                         (c.k == "call" and c.a[0] in ("PartialOrd::le", "PartialOrd::lt") and _lin(c.a[1][0]) == H.Lin({"CUR": 1})))]
        if other:
            bad.append("unrecognised branch %s" % other)
        # next = CUR - d on every path
        if nxt != H.Lin({"CUR": 1}).add(d, -1):
            bad.append("next = %s but distribution = %s" % (nxt.show(), d.show()))
        if fz == [True] or (fz == [False] and le == [True]):
            early.append((d.show(), nxt.show()))
            if d or nxt != H.Lin({"CUR": 1}) or gt:
                bad.append("early path returns (%s, %s)" % (d.show(), nxt.show()))
            continue
        if fz != [False] or le != [False] or len(gt) != 1:
            bad.append("non-early path without the guards factor!=0 (%s), CUR>MIN (%s), cap test (%d)" % (fz, le, len(gt)))
            continue
        c, tr = gt[0]
        lhs, rhs = _lin(c.a[1][0]), _lin(c.a[1][1])
        if lhs != H.Lin({"RATE": 1}) or rhs != H.Lin({"CUR": 1, "MIN": -1}):
            bad.append("cap test compares %s > %s (expected RATE > CUR-MIN)" % (lhs.show(), rhs.show()))
            continue
        if tr:
            capped.append(d.show())
            if d != H.Lin({"CUR": 1, "MIN": -1}):
                bad.append("capped path distributes %s" % d.show())
        else:
            uncapped.append(d.show())
            if d != H.Lin({"RATE": 1}):
                bad.append("uncapped path distributes %s" % d.show())
    ctx.ob("early-return:zero-distribution", not [b for b in bad if "early" in b] and len(early) >= 2,
           "early return (0, CUR) on %d path(s): factor == 0, or factor != 0 and CUR <= MIN: %s" % (len(early), early), where=f.where())
    ctx.ob("capped:distribution-bounded", not bad and len(capped) >= 1 and len(uncapped) >= 1,
           "on every non-early path CUR > MIN; distribution = %s when RATE > CUR-MIN, = %s otherwise; next = CUR - distribution on all %d paths%s" % (
               capped, uncapped, len(ps), "; VIOLATED: %s" % bad[:3] if bad else ""), where=f.where())
    # RATE provenance is what _namer demanded; make sure it was found at all
    rate_seen = any("RATE" in _lin(dict(dict(p["ret"].a[1])["0"].a[1])["0"]) for p in ps)
    ctx.ob("rate:elapsed-times-factor", rate_seen, "the uncapped amount is apply_factor(from_u64(duration_in_secs), params.distribute_factor())", where=f.where())
    errs = [c.short for c in f.calls if re.search(r"(unwrap|expect|saturating|wrapping)", c.short)]
    ctx.ob("capped:checked-arithmetic", not errs, "no unwrap/saturating/wrapping in the computation (%s)" % errs, where=f.where(), nontrivial=False)


def _execute(ctx, prog):
    ex = ctx.fn(r"DistributePositionImpact<M, DECIMALS> as gmsol_model::action::MarketAction>::execute")
    if ex is not None:
        ps = H.success_paths(ex)
        bad = []
        n_apply = n_skip = 0
        pend = (r"^PositionImpactMarketExt::pending_position_impact_pool_distribution_amount\(self\.market, "
                r"PositionImpactMarketMut::just_passed_in_seconds_for_position_impact_distribution\(self\.market\)\?\)\?")
        for p in ps:
            ev = p["ev"]
            z = [(c, _tb(l)) for c, l, ty in p["conds"] if c.k == "call" and c.a[0] == "Zero::is_zero"]
            cs = [c for c in p["calls"] if c.short == "PositionImpactMarketMutExt::apply_delta_to_position_impact_pool"]
            if len(z) != 1 or not re.match(pend + r"\.0$", str(z[0][0].a[1][0])):
                bad.append("no branch on is_zero(distribution_amount)")
                continue
            rep = dict(dict(p["ret"].a[1])["0"].a[1])
            if not re.match(pend + r"\.0$", str(rep.get("distribution_amount"))) or not re.match(pend + r"\.1$", str(rep.get("next_position_impact_pool_amount"))):
                bad.append("report fields %s" % {k: str(v)[:60] for k, v in rep.items()})
            if z[0][1]:
                n_skip += 1
                if cs:
                    bad.append("zero distribution still applies a delta")
                continue
            n_apply += 1
            if len(cs) != 1:
                bad.append("%d applications on a non-zero path" % len(cs))
                continue
            a = ev.call_args(cs[0])
            d = a[1]
            m = d.a[0] if d.k == "try" else d
            if str(a[0]) != "self.market" or not (m.k == "call" and m.a[0] == "Unsigned::to_opposite_signed" and re.match(pend + r"\.0$", str(m.a[1][0]))):
                bad.append("applied delta = %s" % str(d)[:120])
            if anchor.try_switch_of(ex, cs[0]) is None:
                bad.append("application result not propagated")
        ctx.ob("apply:execute", not bad and n_apply >= 1 and n_skip >= 1,
               "execute applies to_opposite_signed(pending(just_passed_seconds).0) to the position impact pool on %d path(s) with a non-zero amount, nothing on %d "
               "zero path(s), and reports (.0, .1)%s" % (n_apply, n_skip, "; VIOLATED: %s" % bad[:2] if bad else ""), where=ex.where())
    rd = ctx.fn(r"PositionImpactMarketExt::position_impact_pool_amount")
    wr = ctx.fn(r"PositionImpactMarketMutExt::apply_delta_to_position_impact_pool")
    if rd is not None and wr is not None:
        r = [str(e) for _, k, e in rd.exits() if k != "err"]
        w = [str(e) for _, k, e in wr.exits() if k != "err"]
        mr = re.match(r"^Balance::(long|short)_amount\(PositionImpactMarket::position_impact_pool\(self\)\?\)$", r[0]) if len(r) == 1 else None
        mw = re.match(r"^Pool::apply_delta_to_(long|short)_amount\(PositionImpactMarketMut::position_impact_pool_mut\(self\)\?, delta\)$", w[0]) if len(w) == 1 else None
        ctx.ob("same-side:read-write", bool(mr and mw and mr.group(1) == mw.group(1)),
               "amount read = %s ; delta applied = %s" % (r, w), where=wr.where())
